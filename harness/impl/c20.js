// C20 implementation side: rbql-js CSVRecordIterator driven through its public constructor with stream objects emitting
// prescribed Buffers (stream path) or with csv_path pointing to a scratch file under build/ (bulk path).
//
// case kinds
//   {kind: 'all', data: [bytes], encoding, policy, delim, comment, header, modifier, modes: ['from','push']}
//        every one of the 2^(n-1) byte-level partitions x every stream mode, plus the bulk path:
//        returns {stream: [[outcome, pieces, mode], ...distinct], bulk: outcome}
//   {kind: 'one', pieces: [[bytes]...], mode, ...}     one stream run
//   {kind: 'bulk', data, ...}                          one bulk run
//   {kind: 'split', lines, policy, delim}              csv_utils.smart_split oracle (splitting is another area's model)
//   {kind: 'file', data, ...}                          the data written to a scratch file, read through fs.createReadStream
//                                                      (default 64 KiB chunks) and through the bulk path: {stream, bulk}
// stream modes: 'from' = Readable.from(buffers, {objectMode: false}) (one chunk per tick, continuations run in between);
//               'push' = all chunks pushed before the reader starts (emitted back to back from one flow() loop);
//               'obj'  = Readable.from(buffers) in object mode (delivers empty Buffers too)
const fs = require('fs');
const os = require('os');
const path = require('path');
const {Readable} = require('stream');

let rbql_csv = null, csv_utils = null;
function load(repo) {
    if (rbql_csv === null) {
        rbql_csv = require(path.join(repo, 'rbql-js', 'rbql_csv.js'));
        csv_utils = require(path.join(repo, 'rbql-js', 'csv_utils.js'));
    }
}

const RX_FDL = /E\.g\. at line (\d+)/;
const RX_FIELDS = /record (\d+) -> (\d+) fields, record (\d+) -> (\d+) fields/;
const RX_ERR = /at record (\d+), line (\d+)/;

function canon_warnings(ws) {
    let bom = false, fdl = null, fields = null, other = [];
    for (const w of ws) {
        let m;
        if (w.indexOf('Byte Order Mark') != -1) { bom = true; continue; }
        if ((m = RX_FIELDS.exec(w)) !== null) { fields = [m[1], m[2], m[3], m[4]].map(Number); continue; }
        if ((m = RX_FDL.exec(w)) !== null) { fdl = Number(m[1]); continue; }
        other.push(w);
    }
    const r = [bom, fdl, fields];
    if (other.length) r.push(other);
    return r;
}

function canon_error(e) {
    const name = (e && e.constructor && e.constructor.name) || 'Error';
    const msg = String(e && e.message || e);
    const m = RX_ERR.exec(msg);
    if (m !== null) return ['err', name, Number(m[1]), Number(m[2])];
    if (msg.indexOf('Unable to decode') != -1) return ['err', name, 'utf8'];
    return ['err', name, msg.slice(0, 80)];
}

function make_stream(bufs, mode) {
    if (mode == 'timed') {
        // one chunk per event-loop iteration, written while the consumer is already reading
        const {PassThrough} = require('stream');
        const s = new PassThrough();
        (async () => {
            for (const b of bufs) {
                s.write(b);
                await new Promise((resolve) => setImmediate(resolve));
            }
            s.end();
        })();
        return s;
    }
    if (mode == 'from') return Readable.from(bufs, {objectMode: false});
    if (mode == 'obj') return Readable.from(bufs);
    const s = new Readable({read() {}});
    for (const b of bufs) s.push(b);
    s.push(null);
    return s;
}

// an exception thrown inside a stream event handler (e.g. the reader's internal assert) is not delivered through any promise:
// it surfaces as an uncaughtException. It is reported as the outcome of the run in progress instead of killing the driver.
let on_uncaught = null;
process.on('uncaughtException', (e) => {
    if (on_uncaught !== null) { const f = on_uncaught; on_uncaught = null; f(e); } else { console.error(e); process.exit(3); }
});

async function observe_inner(stream, csv_path, c) {
    try {
        const it = new rbql_csv.CSVRecordIterator(stream, csv_path, c.encoding, c.delim, c.policy, c.header, c.comment);
        if (c.modifier !== null && c.modifier !== undefined) it.handle_query_modifier(c.modifier ? 'header' : 'noheader');
        const header = await it.get_header();
        let recs;
        if (c.slow) {
            // a consumer that does asynchronous work between records: a backlog builds up in the reader's queue while chunks keep arriving
            recs = [];
            while (true) {
                const r = await it.get_record();
                if (r === null) break;
                recs.push(r);
                await new Promise((resolve) => setImmediate(resolve));
                if (c.slow > 1) await new Promise((resolve) => setImmediate(resolve));
            }
        } else {
            recs = await it.get_all_records();
        }
        const ws = it.get_warnings();
        return ['ok', recs, header, canon_warnings(ws), it.NL, it.NR];
    } catch (e) {
        return canon_error(e);
    }
}

function observe(stream, csv_path, c) {
    return new Promise((resolve) => {
        on_uncaught = (e) => {
            if (stream !== null) { try { stream.removeAllListeners('data'); stream.removeAllListeners('end'); stream.destroy(); } catch (e2) {} }
            const r = canon_error(e); r[1] = 'uncaught ' + r[1]; resolve(r);
        };
        observe_inner(stream, csv_path, c).then((r) => { on_uncaught = null; resolve(r); });
    });
}

function* partitions(arr) {
    const n = arr.length;
    if (n == 0) { yield []; return; }
    for (let mask = 0; mask < (1 << (n - 1)); mask++) {
        const out = [];
        let start = 0;
        for (let i = 0; i < n - 1; i++) {
            if ((mask >> i) & 1) { out.push(arr.slice(start, i + 1)); start = i + 1; }
        }
        out.push(arr.slice(start));
        yield out;
    }
}

let scratch_dir = null;
let scratch_n = 0;
function scratch_file(data) {
    if (scratch_dir === null) {
        scratch_dir = path.join(process.cwd(), 'c20_' + process.pid);   // cwd = <verif>/build/io
        fs.mkdirSync(scratch_dir, {recursive: true});
    }
    const p = path.join(scratch_dir, 'f' + (scratch_n++ % 4) + '.csv');
    fs.writeFileSync(p, Buffer.from(data));
    return p;
}
process.on('exit', () => { if (scratch_dir !== null) { try { fs.rmSync(scratch_dir, {recursive: true, force: true}); } catch (e) {} } });

async function run_all(c) {
    const seen = [], keys = new Set();
    for (const pieces of partitions(c.data)) {
        for (const mode of c.modes) {
            const o = await observe(make_stream(pieces.map(p => Buffer.from(p)), mode), null, c);
            const k = JSON.stringify(o);
            if (!keys.has(k)) { keys.add(k); seen.push([o, pieces, mode]); }
        }
    }
    const bulk = await observe(null, scratch_file(c.data), c);
    return {stream: seen, bulk: bulk};
}

// two readers alive at the same time, their chunks delivered alternately (one chunk per tick each): a reader's outcome must
// not depend on the other one (state shared between iterators - a decoder, a buffer - shows here)
function observe_pair(c) {
    const {PassThrough} = require('stream');
    const tick = () => new Promise((resolve) => setImmediate(resolve));
    return new Promise((resolve) => {
        const sa = new PassThrough(), sb = new PassThrough();
        on_uncaught = (e) => {
            for (const s of [sa, sb]) { try { s.removeAllListeners('data'); s.removeAllListeners('end'); s.destroy(); } catch (e2) {} }
            const r = canon_error(e); r[1] = 'uncaught ' + r[1]; resolve([r, r]);
        };
        const pa = observe_inner(sa, null, c), pb = observe_inner(sb, null, c);
        (async () => {
            const A = c.pieces_a.map(p => Buffer.from(p)), B = c.pieces_b.map(p => Buffer.from(p));
            for (let i = 0; i < Math.max(A.length, B.length); i++) {
                if (i < A.length) { sa.write(A[i]); await tick(); }
                if (i < B.length) { sb.write(B[i]); await tick(); }
            }
            sa.end(); sb.end();
        })();
        Promise.all([pa, pb]).then((r) => { on_uncaught = null; resolve(r); });
    });
}

module.exports.handles_uncaught = true;
module.exports.run_case = async function (c, repo) {
    load(repo);
    if (c.kind == 'pair') return await observe_pair(c);
    if (c.kind == 'all') return await run_all(c);
    if (c.kind == 'one') return await observe(make_stream(c.pieces.map(p => Buffer.from(p)), c.mode), null, c);
    if (c.kind == 'bulk') return await observe(null, scratch_file(c.data), c);
    if (c.kind == 'split') {
        if (typeof csv_utils.smart_split !== 'function') return null;
        return c.lines.map(l => { const r = csv_utils.smart_split(l, c.delim, c.policy, false); return [r[0], !!r[1]]; });
    }
    if (c.kind == 'file') {
        const data = c.data;
        const p = scratch_file(data);
        const stream_o = await observe(fs.createReadStream(p), null, c);
        const bulk_o = await observe(null, p, c);
        return {stream: stream_o, bulk: bulk_o, size: data.length};
    }
    throw new Error('unknown case kind ' + c.kind);
};
