# C01 pandas leg, implementation side: one query over typed dataframes through
#  (1) rbql.query with rbql_pandas.DataframeIterator (+ SingleDataframeRegistry for a JOIN frame) and a recording writer:
#      the written rows with their exact Python values, the error, the number of records pulled, the frames afterwards;
#  (2) rbql.query_pandas_dataframe: the output frame against the frame pandas builds from the reference rows (case['ref_rows'],
#      the model's rows): DataFrame.equals and equal dtypes.
import pandas as pd
import rbql
from rbql import rbql_pandas
import engine as EN

DTYPES = {'int': 'int64', 'float': 'float64', 'bool': 'bool', 'obj': 'object', 'str': 'str', 'mixed': 'object'}


def cell(v):
    return v['fr'][0] / v['fr'][1] if isinstance(v, dict) else v


def frame(rows, kinds, names):
    cols = {}
    for j, k in enumerate(kinds):
        try:
            cols[j] = pd.Series([cell(r[j]) for r in rows], dtype=DTYPES[k])
        except (TypeError, ValueError):
            cols[j] = pd.Series([cell(r[j]) for r in rows], dtype='object')       # (no 'str' dtype in an older pandas)
    df = pd.DataFrame(cols)
    df.columns = pd.RangeIndex(len(kinds)) if names is None else list(names)
    return df


class Counting(rbql_pandas.DataframeIterator):
    pulls = 0

    def get_record(self):
        r = rbql_pandas.DataframeIterator.get_record(self)
        if r is not None:
            self.pulls += 1
        return r


def pyval(v):
    """canonical model value -> Python value (floats travel as hex)"""
    if isinstance(v, dict) and 'f' in v:
        return float.fromhex(v['f'])
    if isinstance(v, list):
        return [pyval(x) for x in v]
    return v


def run_case(c):
    dfA = frame(c['A'], c['kindsA'], c['hdrA'])
    dfB = None if c.get('B') is None else frame(c['B'], c['kindsB'], c['hdrB'])
    snapA, snapB = dfA.copy(deep=True), None if dfB is None else dfB.copy(deep=True)
    res = {}
    it = Counting(dfA)
    wr = EN.RecWriter(None)
    reg = None if dfB is None else rbql_pandas.SingleDataframeRegistry(dfB, 'b')
    err = None
    try:
        rbql.query(c['q'], it, wr, [], reg)
    except Exception as e:
        err = EN.canon_error(e)
    res['events'] = wr.events
    res['pulls'] = it.pulls
    res['error'] = err
    res['sources_ok'] = bool(dfA.equals(snapA) and list(dfA.dtypes) == list(snapA.dtypes) and (dfB is None or (dfB.equals(snapB) and list(dfB.dtypes) == list(snapB.dtypes))))
    res['alias'] = False
    try:
        out = rbql.query_pandas_dataframe(c['q'], dfA, [], dfB)
        f = {'error': None, 'dtypes': [str(t) for t in out.dtypes], 'rows': [EN.canon_row(r) for r in out.itertuples(index=False)][:20]}
        if c.get('ref_rows') is not None:
            ref = pd.DataFrame([pyval(r) for r in c['ref_rows']], columns=None if isinstance(out.columns, pd.RangeIndex) else list(out.columns))
            f['equal'] = bool(out.equals(ref) and [str(t) for t in out.dtypes] == [str(t) for t in ref.dtypes])
            if not f['equal']:
                f['ref_dtypes'] = [str(t) for t in ref.dtypes]
        res['frame'] = f
    except Exception as e:
        res['frame'] = {'error': EN.canon_error(e)}
    return res
