// cov_jsjoin.js - rbql-js query_csv with a JOIN against a second CSV file (FileSystemCSVRegistry.get_iterator_by_table_id): the join
// file named relative to the input file's directory or by absolute path, bulk_read on / off, with / without headers.
// case = {qjs, in_lines, join_lines, join_name, join_abs, bulk, with_headers} -> {rows, header, warnings (kinds), error}
const fs = require('fs');
const os = require('os');
const path = require('path');

function canon_error(e) {
    const n = (e && e.constructor && e.constructor.name) || 'Error';
    const msg = String((e && e.message) || e);
    if (n.includes('Parsing')) return ['P', 0, null];
    if (n.includes('IOHandling')) return ['IO', 0, null];
    if (n.includes('Runtime')) {
        let m = /No "a(\d+)" field at record (\d+)/.exec(msg);
        if (m) return ['R', parseInt(m[2]), parseInt(m[1]) - 1];
        m = /No field with index (\d+) at record (\d+) in "B" table/.exec(msg);
        if (m) return ['R', parseInt(m[2]), 'B'];
        m = /[Aa]t record (\d+)/.exec(msg);
        if (m) return ['R', parseInt(m[1]), null];
        return ['R', 0, null];
    }
    return ['O', 0, n];
}

function warning_kind(w) {
    if (/JOIN file .* was also treated as header/.test(w)) return 'join_header';
    if (/null values in output/.test(w)) return 'null_output';
    if (/Number of fields .* is not consistent/.test(w)) return 'field_count';
    if (/output fields contain separator/.test(w)) return 'delim_output';
    return 'other:' + w.slice(0, 40);
}

module.exports.run_case = async function (c, repo) {
    const rbql_csv = require(path.join(repo, 'rbql-js', 'rbql_csv.js'));
    const d = fs.mkdtempSync(path.join(process.env.VERIF_SCRATCH || os.tmpdir(), 'covjj_'));
    try {
        const sub = path.join(d, 'data');
        fs.mkdirSync(sub);
        const inp = path.join(sub, 'in.csv'), outp = path.join(d, 'out.csv');
        fs.writeFileSync(inp, c.in_lines.map(l => l + '\n').join(''), 'utf-8');
        const jdir = c.join_abs ? path.join(d, 'elsewhere') : sub;      // an absolute path may point outside the input file's directory
        if (c.join_abs) fs.mkdirSync(jdir);
        const jpath = path.join(jdir, c.join_name);
        if (c.join_lines !== null) fs.writeFileSync(jpath, c.join_lines.map(l => l + '\n').join(''), 'utf-8');
        const q = c.qjs.replace('@JOIN@', c.join_abs ? jpath : c.join_name);
        const warns = [];
        let err = null;
        try {
            await rbql_csv.query_csv(q, inp, ',', 'simple', outp, ',', 'simple', 'utf-8', warns, !!c.with_headers, null, '', c.bulk ? {bulk_read: true} : null);
        } catch (e) { err = canon_error(e); }
        if (err !== null) return {rows: null, header: null, warnings: warns.map(warning_kind).sort(), error: err};
        let lines = fs.readFileSync(outp, 'utf-8').split('\n');
        lines.pop();
        let rows = lines.map(l => l.split(','));
        let header = null;
        if (c.with_headers) { header = rows.length ? rows[0] : null; rows = rows.slice(1); }
        const intact = fs.readFileSync(inp, 'utf-8') === c.in_lines.map(l => l + '\n').join('') &&
                       (c.join_lines === null || fs.readFileSync(jpath, 'utf-8') === c.join_lines.map(l => l + '\n').join(''));
        return {rows: rows, header: header, warnings: warns.map(warning_kind).sort(), error: null, sources_ok: intact};
    } finally {
        fs.rmSync(d, {recursive: true, force: true});
    }
};
