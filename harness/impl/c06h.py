# c06h.py - C06, list clause, concrete side of the heap theorem: one query over Python lists with a writer that MUTATES
# what it is handed (so that an output row aliasing a source row, or an aliased copy, shows up as a changed source).
#   writer 'mutating' : rbql.query with a user writer that overwrites every field of the row it receives and appends to it
#   writer 'csv'      : rbql.query with rbql_csv.CSVWriter (normalize_fields / quote_fields rewrite the list they are given)
#   writer 'table'    : rbql.query_table, then the caller rewrites every row of the output table
# Observed: sources deep-equal to the snapshot, same row objects in the same order, no emitted row is a source row object.
import copy
import io
import resource
import signal
import rbql
from rbql import rbql_engine as E
from rbql import rbql_csv as C
import engine as EN


class MutWriter(E.RBQLOutputWriter):
    def __init__(self):
        self.ids = []

    def write(self, fields):
        self.ids.append(id(fields))
        for i in range(len(fields)):
            fields[i] = 'MUT'
        fields.append('MUT+')
        return True

    def finish(self):
        pass

    def get_warnings(self):
        return []

    def set_header(self, header):
        pass


class IdCSVWriter(C.CSVWriter):
    def __init__(self, *a, **k):
        C.CSVWriter.__init__(self, *a, **k)
        self.ids = []

    def write(self, fields):
        self.ids.append(id(fields))
        return C.CSVWriter.write(self, fields)


# a defect that makes a query loop for ever (e.g. a helper appending to the list it iterates) must end as a failing case, not as
# a hung driver: address-space limit + per-case alarm (both surface as an exception inside the query)
try:
    resource.setrlimit(resource.RLIMIT_AS, (3 << 30, 3 << 30))
except (ValueError, OSError):
    pass


class CaseTimeout(BaseException):
    pass


def _alarm(_sig, _frm):
    raise CaseTimeout()


signal.signal(signal.SIGALRM, _alarm)


def run_case(c):
    signal.alarm(10)
    try:
        return run_case_inner(c)
    except CaseTimeout:
        return {'sources_ok': False, 'alias': False, 'error': ['TIMEOUT', 0, None], 'emitted': 0}
    finally:
        signal.alarm(0)


def run_case_inner(c):
    A = [list(r) for r in c['A']]
    B = None if c.get('B') is None else [list(r) for r in c['B']]
    snapA, snapB = copy.deepcopy(A), copy.deepcopy(B)
    rowsA = list(A)
    rowsB = None if B is None else list(B)
    src = {id(r) for r in A} | ({id(r) for r in B} if B is not None else set())
    err = None
    handed = []
    try:
        if c['writer'] == 'table':
            out, warns = [], []
            rbql.query_table(c['q'], A, out, warns, B, c.get('hdrA'), c.get('hdrB'), [])
            handed = [id(r) for r in out]
            for r in out:
                for i in range(len(r)):
                    r[i] = 'MUT'
                r.append('MUT+')
        else:
            it = EN.RecIterator(A, None, 'a')
            reg = None if B is None else EN.Registry(B, None)
            if c['writer'] == 'csv':
                wr = IdCSVWriter(io.StringIO(), False, None, ',', 'quoted')
            else:
                wr = MutWriter()
            try:
                rbql.query(c['q'], it, wr, [], reg)
            finally:
                handed = wr.ids
    except Exception as e:
        err = EN.canon_error(e)
    same_objects = len(A) == len(rowsA) and all(x is y for x, y in zip(A, rowsA)) and (B is None or (len(B) == len(rowsB) and all(x is y for x, y in zip(B, rowsB))))
    return {'sources_ok': bool(A == snapA and B == snapB and same_objects), 'alias': any(i in src for i in handed), 'error': err, 'emitted': len(handed)}
