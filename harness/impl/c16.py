# C16 implementation side: two queries in two threads under a deterministic cooperative scheduler (every get_record / write /
# finish call is a scheduling point), and sequences of queries in one interpreter.
import threading
import rbql
from rbql import rbql_engine as E
import engine as EN
import sharedmon


class Sched(object):
    def __init__(self, schedule):
        self.s = schedule
        self.pos = 0
        self.done = [False, False]
        self.cond = threading.Condition()
        self.taken = []

    def _skip_dead(self):
        while self.pos < len(self.s) and self.done[self.s[self.pos]]:
            self.pos += 1

    def point(self, tid):
        with self.cond:
            while True:
                self._skip_dead()
                if self.pos >= len(self.s) or self.s[self.pos] == tid:
                    break
                if not self.cond.wait(timeout=20):
                    raise RuntimeError('scheduler deadlock')
            if self.pos < len(self.s):
                self.pos += 1
            self.taken.append(tid)
            self.cond.notify_all()

    def finish_thread(self, tid):
        with self.cond:
            self.done[tid] = True
            self._skip_dead()
            self.cond.notify_all()


class SIter(EN.RecIterator):
    def __init__(self, table, header, prefix, sched, tid):
        EN.RecIterator.__init__(self, table, header, prefix)
        self.sched, self.tid = sched, tid

    def get_record(self):
        self.sched.point(self.tid)
        return EN.RecIterator.get_record(self)


class SWriter(EN.RecWriter):
    def __init__(self, sched, tid):
        EN.RecWriter.__init__(self, None)
        self.sched, self.tid = sched, tid

    def write(self, fields):
        self.sched.point(self.tid)
        return EN.RecWriter.write(self, fields)

    def finish(self):
        self.sched.point(self.tid)
        EN.RecWriter.finish(self)


class SRegistry(E.RBQLTableRegistry):
    def __init__(self, table, sched, tid):
        self.table, self.sched, self.tid = table, sched, tid

    def get_iterator_by_table_id(self, table_id, alias):
        if table_id.lower() != 'b':
            return None
        return SIter(self.table, None, alias, self.sched, self.tid)


class FromRegistry(E.RBQLTableRegistry):
    """a query that NAMES its input (select ... FROM T ..., the IPython-magic style): table T is the input, B the join table"""
    def __init__(self, q, sched, tid):
        self.q, self.sched, self.tid = q, sched, tid
        self.input_iterator = None

    def get_iterator_by_table_id(self, table_id, alias):
        if table_id == 'T':
            self.input_iterator = SIter([list(r) for r in self.q['A']], self.q.get('hdrA'), alias, self.sched, self.tid)
            return self.input_iterator
        if table_id.lower() == 'b' and self.q.get('B') is not None:
            return SIter([list(r) for r in self.q['B']], None, alias, self.sched, self.tid)
        return None


class NoSched:
    def point(self, tid):
        pass

    def finish_thread(self, tid):
        pass


def run_one(q, sched, tid, out):
    it = SIter([list(r) for r in q['A']], q.get('hdrA'), 'a', sched, tid)
    wr = SWriter(sched, tid)
    reg = None if q.get('B') is None else SRegistry([list(r) for r in q['B']], sched, tid)
    err = None
    if q.get('from'):
        reg = FromRegistry(q, sched, tid)
    try:
        rbql.query(q['q'], None if q.get('from') else it, wr, [], reg)
        if q.get('from'):
            it = reg.input_iterator
    except Exception as e:
        err = EN.canon_error(e)
    finally:
        sched.finish_thread(tid)
    out[tid] = {'events': wr.events, 'error': err, 'pulls': it.pulls}


def run_inter(c):
    sched = Sched(c['schedule'])
    out = [None, None]
    ts = [threading.Thread(target=run_one, args=(c['queries'][i], sched, i, out)) for i in (0, 1)]
    for t in ts:
        t.start()
    for t in ts:
        t.join(60)
    return {'results': out, 'taken': sched.taken[:40]}


def run_seq(c):
    res = []
    for q in c['queries']:
        if q.get('from'):
            out = [None]
            run_one(q, NoSched(), 0, out)
            res.append(out[0])
            continue
        r = EN.run_case(dict(q, fail_at=None))
        res.append({'events': r['events'], 'error': r['error'], 'pulls': r['pulls']})
    return {'results': res}


def run_csvseq(c):
    """consecutive rbql.query_csv runs in ONE interpreter, each with its own directory holding in.csv and a join file of the
    same relative name jt.csv (resolved relative to the input file): every run must see ITS files"""
    import os
    import shutil
    import tempfile
    root = tempfile.mkdtemp(prefix='c16_', dir=os.environ.get('VERIF_SCRATCH'))
    res = []
    try:
        for i, run in enumerate(c['runs']):
            d = os.path.join(root, 'd%d' % i)
            os.makedirs(d)
            with open(os.path.join(d, 'in.csv'), 'w', encoding='utf-8') as f:
                f.write(''.join(','.join(r) + '\n' for r in run['A']))
            if run.get('B') is not None:
                with open(os.path.join(d, 'jt.csv'), 'w', encoding='utf-8') as f:
                    f.write(''.join(','.join(r) + '\n' for r in run['B']))
            outp = os.path.join(d, 'out.csv')
            err = None
            try:
                rbql.query_csv(run['q'], os.path.join(d, 'in.csv'), ',', 'simple', outp, ',', 'simple', 'utf-8', [], False)
            except Exception as e:
                err = EN.canon_error(e)
            rows = None
            if err is None:
                with open(outp, encoding='utf-8') as f:
                    rows = [l.split(',') for l in f.read().split('\n')[:-1]]
            res.append({'rows': rows, 'error': err})
    finally:
        shutil.rmtree(root, ignore_errors=True)
    return {'results': res}


def run_case_plain(c):
    if c['mode'] == 'csvseq':
        return run_csvseq(c)
    return run_inter(c) if c['mode'] == 'inter' else run_seq(c)


def run_case(c):
    """the case, between two snapshots of every shared cell of the loaded rbql modules (cross-check of translate_shared.py: the
    check fails when a cell changed that the translator's write set does not contain)"""
    if sharedmon._state['last'] is None:
        sharedmon.begin()
    try:
        res = run_case_plain(c)
    finally:
        monitored, changed = sharedmon.delta()
    if isinstance(res, dict):
        res['shared'] = {'monitored': monitored, 'changed': changed}
    return res
