# C04 through the CSV front-end (Python): rbql.query_csv with a JOIN file, a comment prefix and comment lines in BOTH files.
# case = {'q', 'in_lines': [...], 'join_lines': [...], 'comment': '#'} -> {'rows', 'error'}
import os
import shutil
import tempfile
import rbql
import engine as EN


def run_case(c):
    d = tempfile.mkdtemp(prefix='c04csv_', dir=os.environ.get('VERIF_SCRATCH'))
    try:
        with open(os.path.join(d, 'in.csv'), 'w', encoding='utf-8') as f:
            f.write(''.join(l + '\n' for l in c['in_lines']))
        with open(os.path.join(d, 'jt.csv'), 'w', encoding='utf-8') as f:
            f.write(''.join(l + '\n' for l in c['join_lines']))
        outp = os.path.join(d, 'out.csv')
        try:
            rbql.query_csv(c['q'], os.path.join(d, 'in.csv'), ',', 'simple', outp, ',', 'simple', 'utf-8', [], False, c['comment'])
        except Exception as e:
            return {'rows': None, 'error': EN.canon_error(e)}
        with open(outp, encoding='utf-8') as f:
            return {'rows': [l.split(',') for l in f.read().split('\n')[:-1]], 'error': None}
    finally:
        shutil.rmtree(d, ignore_errors=True)
