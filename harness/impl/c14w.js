// C14 (CSV warnings) implementation side, JavaScript: rbql_csv.query_csv file to file on prescribed input BYTES.
const path = require('path');
const fs = require('fs');
const os = require('os');

function warn_kinds(ws) {
    const out = [];
    for (const w of ws) {
        const lw = w.toLowerCase();
        if (lw.includes('byte order mark') || lw.includes('bom')) out.push('bom');
        else if (lw.includes('quot')) out.push('quoting');
        else if (lw.includes('number of fields')) out.push('num_fields');
        else if (lw.includes('none values') || lw.includes('null values')) out.push('none');
        else if (lw.includes('separator')) out.push('separator');
        else out.push('other:' + w.slice(0, 60));
    }
    return out.sort();
}

function canon_error(e) {
    const n = (e && e.constructor && e.constructor.name) || 'Error';
    if (n.includes('Parsing')) return ['P', 0, null];
    if (n.includes('IOHandling')) return ['IO', 0, null];
    if (n.includes('Runtime')) return ['R', 0, null];
    return ['O', 0, n];
}

// the error class by exception type AND as the public classifier (exception_to_error_info: command line, editor
// integrations) reports it; the two must agree
const KINDS = {'query parsing': 'P', 'IO handling': 'IO', 'query execution': 'R'};
function classified(e, rbql_csv) {
    const ce = canon_error(e);
    const kind = rbql_csv.exception_to_error_info(e)[0];
    if (['P', 'IO', 'R'].includes(ce[0]) && KINDS[kind] !== ce[0])
        return ['O', 0, `exception_to_error_info says '${kind}' for a ${e.constructor.name}`];
    return ce;
}

const leftovers = [];
process.on('exit', () => { for (const d of leftovers) { try { fs.rmSync(d, {recursive: true, force: true}); } catch (e) {} } });

module.exports.run_case = async function (c, repo) {
    const rbql_csv = require(path.join(repo, 'rbql-js', 'rbql_csv.js'));
    const d = fs.mkdtempSync(path.join(process.env.VERIF_SCRATCH || os.tmpdir(), 'c14w_'));
    const inp = path.join(d, 'in.csv'), outp = path.join(d, 'out.csv');
    const enc = c.enc === 'latin-1' ? 'binary' : 'utf-8';
    try {
        fs.writeFileSync(inp, Buffer.from(c.data));
        const warns = [];
        try {
            await rbql_csv.query_csv(c.queryjs, inp, c.in_dlm, c.in_pol, outp, c.out_dlm, c.out_pol, enc, warns, false, null, '', c.bulk ? {bulk_read: true} : null);
        } catch (e) {
            return {out: null, warnings: null, error: classified(e, rbql_csv)};
        }
        const raw = fs.readFileSync(outp);
        return {out: raw.toString(enc === 'binary' ? 'latin1' : 'utf-8'), warnings: warn_kinds(warns), error: null};
    } finally {
        // the output stream of a failed query may still be creating / flushing its file: retry, and leave the rest to process exit
        let gone = false;
        for (let k = 0; k < 5 && !gone; k++) {
            try { fs.rmSync(d, {recursive: true, force: true}); gone = true; } catch (e) { await new Promise((resolve) => setTimeout(resolve, 20)); }
        }
        if (!gone) leftovers.push(d);
    }
};
