# C11 implementation side (Python): split one line under every requested mode.
#   mode = [path, policy, preserve]  path 'it' = public path rbql_csv.CSVRecordIterator over a one-line io.StringIO stream
#                                    path 'direct' = csv_utils.smart_split (additional probe, only when present)
# case = {'dlm':..., 'modes': [...], 'lines': [...]}  or  {'dlm':..., 'modes': [...], 'enum': [alphabet, length, start, count]}
# result = for every line, for every mode: [fields, warning] | 'absent' (helper not present) | ['ERR', class] (rfc reader refuses the line)
import io
from rbql import rbql_csv, rbql_engine, csv_utils


def enum_lines(alphabet, length, start, count):
    k = len(alphabet)
    out = []
    for idx in range(start, start + count):
        chars = []
        v = idx
        for _ in range(length):
            chars.append(alphabet[v % k])
            v //= k
        out.append(''.join(chars))
    return out


def via_iterator(line, dlm, policy):
    it = rbql_csv.CSVRecordIterator(io.StringIO(line), None, dlm, policy)
    recs = it.get_all_records()
    warn = any('quot' in w for w in it.get_warnings())
    return [recs, warn]


def one(line, dlm, mode):
    path, policy, preserve = mode
    if path == 'it':
        try:
            recs, warn = via_iterator(line, dlm, policy)
        except rbql_engine.RbqlIOHandlingError as e:
            return ['ERR', 'RbqlIOHandlingError']
        if len(recs) != 1:
            return ['RECORDS', recs, warn]
        return [recs[0], warn]
    if not hasattr(csv_utils, 'smart_split'):
        return 'absent'
    fields, warn = csv_utils.smart_split(line, dlm, policy, preserve)
    return [list(fields), bool(warn)]


def run_case(case):
    lines = case['lines'] if 'lines' in case else enum_lines(*case['enum'])
    dlm = case['dlm']
    return [[one(line, dlm, m) for m in case['modes']] for line in lines]
