# Variable-spelling probes (C08, VarSpelling.v), Python side.
#  kind 'map'   : {'q', 'prefix'} -> the variable map of rbql_engine.parse_basic_variables + parse_array_variables called directly
#                 (additional probe, hasattr-guarded): sorted [[key, initialize, index as decimal text]]
#  kind 'query' : {'q', 'table', 'join', 'names', 'join_names'} -> the PUBLIC path rbql.query_table: {'rows': ...} | {'error': class}
import rbql
from rbql import rbql_engine as E


def run_case(c):
    if c['kind'] == 'map':
        if not (hasattr(E, 'parse_basic_variables') and hasattr(E, 'parse_array_variables')):
            return {'missing': True}
        m = {}
        try:
            E.parse_basic_variables(c['q'], c['prefix'], m)
            E.parse_array_variables(c['q'], c['prefix'], m)
        except Exception as e:
            return {'error': type(e).__name__}
        return {'map': sorted([k, bool(v.initialize), str(v.index)] for k, v in m.items())}
    out, warn = [], []
    try:
        rbql.query_table(c['q'], c['table'], out, warn, c.get('join'), c.get('names'), c.get('join_names'), None, True)
    except Exception as e:
        return {'error': type(e).__name__}
    return {'rows': out}
