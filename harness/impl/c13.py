# C13 implementation side: the same query over the same string data through every entry point.
import io
import os
import sqlite3
import subprocess
import sys
import tempfile
import rbql
from rbql import rbql_engine as E
from rbql import rbql_csv as C
import engine as EN


def csv_bytes(header, table, delim=','):
    rows = [header] + table
    return ('\n'.join(delim.join(r) for r in rows) + '\n').encode('utf-8')


def parse_simple(text, delim=','):
    lines = [l for l in text.split('\n')]
    if lines and lines[-1] == '':
        lines.pop()
    return [l.split(delim) for l in lines]


def strs(rows):
    # a missing value is None in a list table and NaN / NA in a pandas string column (pandas >= 3 infers a string dtype whose missing value is
    # NaN): both are "no value" - the text a CSV writer would produce for them is the empty string. (The generated cells are strings: a NaN can only
    # be a missing value here.)
    return [['' if (v is None or (isinstance(v, float) and v != v) or type(v).__name__ == 'NAType') else str(v) for v in r] for r in rows]


def run_case(c):
    q, hdr, A = c['q'], c['hdr'], c['A']
    hdrB, B = c.get('hdrB'), c.get('B')
    res = {}
    d = tempfile.mkdtemp(prefix='c13_', dir=os.environ.get('VERIF_SCRATCH'))
    try:
        # 1. query_table
        out, warns, names = [], [], []
        try:
            rbql.query_table(q, [list(r) for r in A], out, warns, None if B is None else [list(r) for r in B], hdr, hdrB, names)
            res['query_table'] = {'header': names or None, 'rows': strs(out), 'error': None}
        except Exception as e:
            res['query_table'] = {'error': EN.canon_error(e)}
        # 2. query with user-supplied iterator / writer / registry
        it = EN.RecIterator([list(r) for r in A], hdr, 'a')
        wr = EN.RecWriter(None)
        reg = None if B is None else EN.Registry([list(r) for r in B], hdrB)
        try:
            rbql.query(q, it, wr, [], reg)
            h = [e[1] for e in wr.events if e[0] == 'H']
            res['query'] = {'header': h[0] if h else None, 'rows': strs(wr.rows), 'error': None}
        except Exception as e:
            res['query'] = {'error': EN.canon_error(e)}
        # files
        inp, joinp = os.path.join(d, 'in.csv'), os.path.join(d, 'jt.csv')
        in_bytes = c['csv_in'].encode('utf-8')
        with open(inp, 'wb') as f:
            f.write(in_bytes)
        if B is not None:
            with open(joinp, 'wb') as f:
                f.write(c['csv_join'].encode('utf-8'))
        qf = q.replace(' b on ', ' %s on ' % joinp)
        # 3. query_csv file to file
        outp = os.path.join(d, 'out.csv')
        try:
            w3 = []
            rbql.query_csv(qf, inp, ',', 'quoted', outp, ',', 'quoted', 'utf-8', w3, True)
            res['query_csv'] = {'text': open(outp, 'rb').read().decode('utf-8'), 'delim': ',', 'error': None}
        except Exception as e:
            res['query_csv'] = {'error': EN.canon_error(e)}
        # 4./5. command line: file -> file, stdin -> stdout, --out-format input / csv / tsv
        env = dict(os.environ)
        base = [sys.executable, '-W', 'ignore', '-m', 'rbql', '--delim', ',', '--policy', 'quoted', '--with-headers', '--query', qf]
        for name, extra, use_stdin, fmt_delim in (('cli_file', ['--input', inp, '--output', os.path.join(d, 'o2.csv')], False, ','),
                                                  ('cli_stdio', [], True, ','),
                                                  ('cli_stdio_tsv', ['--out-format', 'tsv'], True, '\t'),
                                                  ('cli_file_csv', ['--input', inp, '--out-format', 'csv'], False, ',')):
            p = subprocess.run(base + extra, input=in_bytes if use_stdin else None, stdout=subprocess.PIPE, stderr=subprocess.PIPE, env=env, cwd=d, timeout=120)
            so = p.stdout.decode('utf-8')
            se = p.stderr.decode('utf-8')
            if '--output' in extra:
                tab = open(extra[extra.index('--output') + 1], 'rb').read().decode('utf-8') if p.returncode == 0 else ''
                stdout_clean = so == ''
            else:
                tab = so
                stdout_clean = True
            se_lines = [l for l in se.split('\n') if l]
            res[name] = {'rc': p.returncode, 'text': tab, 'delim': fmt_delim, 'stdout_clean': stdout_clean,
                         'stderr_first': se_lines[0][:40] if se_lines else None,
                         'stderr_kinds': sorted(set('error' if l.startswith('Error [') else 'warning' if l.startswith('Warning: ') else 'other' for l in se_lines)),
                         'stdout_len_on_failure': len(so) if p.returncode != 0 else 0}
        # 6. pandas
        try:
            import pandas as pd
            df = pd.DataFrame(A, columns=hdr)
            dfb = None if B is None else pd.DataFrame(B, columns=hdrB)
            r = rbql.query_pandas_dataframe(q, df, [], dfb)
            res['pandas'] = {'header': [str(x) for x in r.columns] if len(r.columns) and not isinstance(r.columns, pd.RangeIndex) else None,
                             'rows': strs(r.values.tolist()), 'error': None}
        except Exception as e:
            res['pandas'] = {'error': EN.canon_error(e)}
        # 7. sqlite
        try:
            from rbql import rbql_sqlite
            dbp = os.path.join(d, 'db.sqlite')
            con = sqlite3.connect(dbp)
            con.execute('CREATE TABLE t1 (%s)' % ', '.join('%s TEXT' % h for h in hdr))
            con.executemany('INSERT INTO t1 VALUES (%s)' % ','.join('?' * len(hdr)), A)
            if B is not None:
                con.execute('CREATE TABLE b (%s)' % ', '.join('%s TEXT' % h for h in hdrB))
                con.executemany('INSERT INTO b VALUES (%s)' % ','.join('?' * len(hdrB)), B)
            con.commit()
            o7 = os.path.join(d, 'o7.csv')
            rbql_sqlite.query_sqlite_to_csv(q, con, 't1', o7, ',', 'quoted', 'utf-8', [])
            con.close()
            res['sqlite'] = {'text': open(o7, 'rb').read().decode('utf-8'), 'delim': ',', 'error': None}
        except Exception as e:
            res['sqlite'] = {'error': EN.canon_error(e)}
        return res
    finally:
        for fn in os.listdir(d):
            os.remove(os.path.join(d, fn))
        os.rmdir(d)
