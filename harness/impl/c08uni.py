# C08, non-ASCII names outside literals (Python).
#  kind 'query'    : the PUBLIC path with user init code (the functions the query calls) - rbql.query_table, or, when the JOIN table has a
#                    name of its own (case['join_id']), rbql.query with a table registry that knows this name
#  kind 'internal' : the text-layer probe of impl/c08.py
import rbql
from rbql import rbql_engine as E
import c08 as base


class NamedRegistry(E.RBQLTableRegistry):
    def __init__(self, table_id, table):
        self.table_id = table_id
        self.table = table

    def get_iterator_by_table_id(self, table_id, single_char_alias='b'):
        if table_id != self.table_id:
            raise E.RbqlIOHandlingError('Unable to find join table: "{}"'.format(table_id))
        return E.TableIterator(self.table, None, True, single_char_alias)


def run_query(case):
    table = [list(r) for r in case['table']]
    join = [list(r) for r in case['join']] if case.get('join') is not None else None
    out, warns = [], []
    try:
        if case.get('join_id') is None:
            rbql.query_table(case['q'], table, out, warns, join_table=join, user_init_code=case['init'])
        else:
            rbql.query(case['q'], E.TableIterator(table, None, True), E.TableWriter(out), warns, NamedRegistry(case['join_id'], join), user_init_code=case['init'])
    except Exception as e:
        return {'error': type(e).__name__}
    return {'rows': [base.norm_cell(r) for r in out], 'header': None}


def run_case(case):
    if case.get('kind') == 'internal':
        return base.internal(case)
    return run_query(case)
