# C15 decode clause, the table on the STANDARD INPUT (rbql-py).
#   via 'cli'    : child process `python -m rbql --query Q --delim , --policy simple` fed the bytes on its stdin, under the case's environment
#                  (what codec / error handler sys.stdin gets there is decided by the interpreter: locale, UTF-8 mode, PYTHONIOENCODING)
#   via 'inproc' : rbql.query_csv(Q, input_path=None, ...) with sys.stdin = io.TextIOWrapper(io.BytesIO(bytes), encoding, errors), the kind
#                  of object the interpreter installs as sys.stdin
# -> {'rows': [[str]] | None, 'error': [class] | None, 'stdin': [encoding, errors] (what the reading process saw), 'rc'}
import io
import os
import shutil
import subprocess
import sys
import tempfile
import rbql
import engine as EN

CLASSES = {'IO handling': 'IO', 'query execution': 'R', 'query parsing': 'P', 'syntax error': 'S', 'unexpected': 'O'}


def data_of(c):
    return bytes(c['data']) if c.get('data') is not None else bytes.fromhex(c['big']['data_hex'])


def rows_of(text):
    lines = text.split('\n')
    if lines and lines[-1] == '':
        lines.pop()
    return [l.split(',') for l in lines]


def run_cli(c):
    env = dict(os.environ)
    for k, v in (c.get('env') or {}).items():
        if v is None:
            env.pop(k, None)
        else:
            env[k] = v
    data = data_of(c)
    probe = subprocess.run([sys.executable, '-c', 'import sys; print(sys.stdin.encoding, sys.stdin.errors)'], input=b'', stdout=subprocess.PIPE, env=env, timeout=60)
    p = subprocess.run([sys.executable, '-W', 'ignore', '-m', 'rbql', '--delim', ',', '--policy', 'simple', '--query', c['q']],
                       input=data, stdout=subprocess.PIPE, stderr=subprocess.PIPE, env=env, timeout=120)
    se = p.stderr.decode('utf-8', 'replace')
    err = None
    for line in se.split('\n'):
        if line.startswith('Error ['):
            err = [CLASSES.get(line[len('Error ['):line.index(']')], 'O?')]
            break
    if err is None and p.returncode != 0:
        err = ['EXIT', p.returncode, se[-200:]]         # died without the front-end's error report (a raw traceback)
    res = {'error': err, 'rc': p.returncode, 'stdin': probe.stdout.decode().split()}
    if err is None:
        try:
            res['rows'] = rows_of(p.stdout.decode('utf-8'))
        except UnicodeDecodeError:
            res['rows'] = ['UNDECODABLE-OUTPUT', p.stdout[:80].hex()]
    else:
        res['rows'] = None
    return res


def run_inproc(c):
    d = tempfile.mkdtemp(prefix='c15stdin_', dir=os.environ.get('VERIF_SCRATCH'))
    saved = sys.stdin
    try:
        sys.stdin = io.TextIOWrapper(io.BytesIO(data_of(c)), encoding=c['stdin_encoding'], errors=c['stdin_errors'])
        res = {'stdin': [sys.stdin.encoding, sys.stdin.errors], 'rc': None}
        outp = os.path.join(d, 'out.csv')
        try:
            rbql.query_csv(c['q'], None, ',', 'simple', outp, ',', 'simple', 'utf-8', [], False)
        except Exception as e:
            res['error'] = EN.canon_error(e)[:1]
            res['rows'] = None
            return res
        with open(outp, 'rb') as f:
            res['rows'] = rows_of(f.read().decode('utf-8'))
        res['error'] = None
        return res
    finally:
        sys.stdin = saved
        shutil.rmtree(d, ignore_errors=True)


def run_case(c):
    return run_cli(c) if c['via'] == 'cli' else run_inproc(c)
