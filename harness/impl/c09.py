# C09 implementation side (Python).
#  kind 'table'   : rbql.query_table with input_column_names (normalize_column_names True/False)
#  kind 'csv'     : rbql.query over rbql_csv.CSVRecordIterator(stream, ..., has_header=flag) and a TableWriter
#  kind 'csvfile' : rbql.query_csv file -> file with with_headers=flag (optionally a JOIN with a second CSV file)
#  kind 'pandas'  : rbql.query_pandas_dataframe (column labels as header)
#  kind 'sqlite'  : rbql.query over rbql_sqlite.SqliteRecordIterator (cursor.description as header)
#  kind 'internal': additional probe of the internal functions (hasattr-guarded): escape, variable maps, init code
#  kind 'literal' : Python's own evaluation of a string literal text
import ast
import io
import os
import rbql
from rbql import rbql_engine as E
from rbql import rbql_csv


def norm(v):
    if v is None or isinstance(v, (int, str, bool)):
        return v
    if isinstance(v, (list, tuple)):
        return [norm(x) for x in v]
    return ['obj', type(v).__name__, str(v)]


def err(e):
    return {'error': type(e).__name__}


def csv_text(records):
    """every field quoted (quoted_rfc): the text of a CSV file with these records"""
    return ''.join(','.join('"' + f.replace('"', '""') + '"' for f in r) + '\n' for r in records)


def run_queries(case, runner):
    out = []
    for q in case['queries']:
        try:
            out.append(runner(q))
        except Exception as e:
            out.append(err(e))
    return out


def table_runner(case):
    def run(q):
        rows, warns, hdr = [], [], []
        rbql.query_table(q, [list(r) for r in case['records']], rows, warns, input_column_names=case.get('names'),
                         normalize_column_names=case.get('normalize', True), output_column_names=hdr)
        return {'rows': norm(rows), 'header': hdr if hdr else None}
    return run


def csv_runner(case):
    def run(q):
        stream = io.StringIO(csv_text(case['records']))
        it = rbql_csv.CSVRecordIterator(stream, None, ',', 'quoted_rfc', has_header=case['flag'])
        rows, warns = [], []
        w = E.TableWriter(rows)
        rbql.query(q, it, w, warns)
        return {'rows': norm(rows), 'header': w.header}
    return run


def csvfile_runner(case):
    d = os.path.join(os.getcwd(), 'c09_%d' % os.getpid())
    os.makedirs(d, exist_ok=True)
    a = os.path.join(d, 'a.csv')
    b = os.path.join(d, 'tb.csv')      # not 'b.csv': the path is query text and 'b.csv' would read as the variable b.csv
    o = os.path.join(d, 'out.csv')
    with open(a, 'w', encoding='utf-8', newline='') as f:
        f.write(csv_text(case['records']))
    if case.get('join_records') is not None:
        with open(b, 'w', encoding='utf-8', newline='') as f:
            f.write(csv_text(case['join_records']))

    def run(q):
        warns = []
        q = q.replace('JOINFILE_7f3a', b) if case.get('join_records') is not None else q
        rbql.query_csv(q, a, ',', 'quoted_rfc', o, ',', 'quoted_rfc', 'utf-8', warns, case['flag'])
        with open(o, encoding='utf-8', newline='') as f:
            it = rbql_csv.CSVRecordIterator(f, None, ',', 'quoted_rfc')
            recs = it.get_all_records()
        return {'out_records': norm(recs)}
    return run


def pandas_runner(case):
    import pandas
    from rbql import rbql_pandas

    def run(q):
        df = pandas.DataFrame([list(r) for r in case['records']], columns=case['names'])
        res = rbql.query_pandas_dataframe(q, df, normalize_column_names=case.get('normalize', True))
        return {'rows': norm(res.values.tolist()), 'header': [str(c) for c in res.columns]}
    return run


def sqlite_runner(case):
    import sqlite3
    from rbql import rbql_sqlite

    qi = lambda n: '"%s"' % n.replace('"', '""')           # quoted identifier

    def make_db():
        db = sqlite3.connect(':memory:')
        names, recs, schema = case['names'], [list(r) for r in case['records']], case.get('schema')
        if schema is None:
            db.execute('CREATE TABLE t (%s)' % ', '.join(qi(n) + ' TEXT' for n in names))
            db.executemany('INSERT INTO t VALUES (%s)' % ','.join('?' * len(names)), recs)
            return db
        # declared shapes: ordinary columns of several declared types, generated columns (VIRTUAL / STORED) that copy an ordinary
        # column or are a constant, and / or a view whose aliases are the column names
        view = schema['view']
        base = ['c%d' % j for j in range(len(names))] if view else names
        decl, plain = [], []
        for j, col in enumerate(schema['cols']):
            if col['role'] == 'plain':
                decl.append(qi(base[j]) + ' ' + col['type'])
                plain.append(j)
            else:
                expr = qi(base[col['src']]) if 'src' in col else "'%s'" % col['const']
                decl.append('%s TEXT GENERATED ALWAYS AS (%s) %s' % (qi(base[j]), expr, 'STORED' if col['stored'] else 'VIRTUAL'))
        tname = 'base_t' if view else 't'
        db.execute('CREATE TABLE %s (%s)' % (tname, ', '.join(decl)))
        db.executemany('INSERT INTO %s (%s) VALUES (%s)' % (tname, ', '.join(qi(base[j]) for j in plain), ','.join('?' * len(plain))),
                       [[r[j] for j in plain] for r in recs])
        if view:
            db.execute('CREATE VIEW t AS SELECT %s FROM base_t' % ', '.join('%s AS %s' % (qi(b), qi(n)) for b, n in zip(base, names)))
        return db

    # the harness-side statement of what the table holds, checked against sqlite itself
    cur = make_db().execute('SELECT * FROM t')
    truth = {'names': [d[0] for d in cur.description], 'records': [list(r) for r in cur.fetchall()]}
    spec_ok = truth == {'names': list(case['names']), 'records': [list(r) for r in case['records']]}

    def run(q):
        if not spec_ok:
            return {'harness_spec_mismatch': truth}
        db = make_db()
        it = rbql_sqlite.SqliteRecordIterator(db, 't')
        rows, warns = [], []
        w = E.TableWriter(rows)
        rbql.query(q, it, w, warns)
        return {'rows': norm(rows), 'header': w.header}
    return run


def vmap_list(m):
    return sorted([k, bool(v.initialize), v.index] for k, v in m.items())


def internal(case):
    res = {}
    q = case['query']
    names = case.get('names')
    if hasattr(E, 'python_string_escape_column_name') and names is not None:
        res['escape'] = [[E.python_string_escape_column_name(n, '"'), E.python_string_escape_column_name(n, "'")] for n in names]
    if hasattr(E, 'query_probably_has_dictionary_variable') and names is not None:
        res['prefilter'] = [bool(E.query_probably_has_dictionary_variable(q, n)) for n in names]
    src = case['src']
    try:
        if src in (0, 1):
            it = E.TableIterator([list(r) for r in case.get('records', [])], names, src == 0, case.get('prefix', 'a'))
            m = it.get_variables_map(q)
        else:
            recs = ([names] if names is not None else []) + [list(r) for r in case.get('records', [])]
            it = rbql_csv.CSVRecordIterator(io.StringIO(csv_text(recs)), None, ',', 'quoted_rfc', has_header=names is not None,
                                            variable_prefix=case.get('prefix', 'a'))
            m = it.get_variables_map(q)
        res['vmap'] = vmap_list(m)
        if hasattr(E, 'generate_init_statements') and hasattr(E, 'separate_string_literals'):
            fmt, lits = E.separate_string_literals(q)
            res['init'] = sorted(E.combine_string_literals(E.generate_init_statements(fmt, m, None), lits).split('\n'))
    except Exception as e:
        res['vmap'] = err(e)
    return res


def run_case(case):
    kind = case['kind']
    if kind == 'literal':
        try:
            v = ast.literal_eval(case['text'])
            return v if isinstance(v, str) else {'error': 'not a str'}
        except Exception as e:
            return err(e)
    if kind == 'internal':
        return internal(case)
    runner = {'table': table_runner, 'csv': csv_runner, 'csvfile': csvfile_runner, 'pandas': pandas_runner, 'sqlite': sqlite_runner}[kind](case)
    return run_queries(case, runner)
