# C13, sqlite entry points with cells that need the RFC dialect (line breaks): library call with quoted_rfc and the
# `python -m rbql sqlite` command line (default --out-format csv). case = {'q', 'hdr', 'A'} -> {'sqlite_lib': text, 'cli_sqlite': {...}}
import os
import shutil
import sqlite3
import subprocess
import sys
import tempfile
import engine as EN


def run_mono(c):
    """--policy monocolumn: every line one field; library (query_csv) and command line (file -> stdout, stdin -> stdout)"""
    import rbql
    d = tempfile.mkdtemp(prefix='c13m_', dir=os.environ.get('VERIF_SCRATCH'))
    res = {}
    try:
        inp, outp = os.path.join(d, 'in.txt'), os.path.join(d, 'out.txt')
        data = ''.join(l + '\n' for l in c['lines']).encode('utf-8')
        with open(inp, 'wb') as f:
            f.write(data)
        try:
            rbql.query_csv(c['q'], inp, '', 'monocolumn', outp, '', 'monocolumn', 'utf-8', [], False)
            res['lib'] = {'text': open(outp, 'rb').read().decode('utf-8'), 'error': None}
        except Exception as e:
            res['lib'] = {'text': None, 'error': EN.canon_error(e)}
        for name, extra, use_stdin in (('cli_file', ['--input', inp], False), ('cli_stdin', [], True)):
            p = subprocess.run([sys.executable, '-W', 'ignore', '-m', 'rbql', '--policy', 'monocolumn', '--query', c['q']] + extra,
                               input=data if use_stdin else None, stdout=subprocess.PIPE, stderr=subprocess.PIPE, env=dict(os.environ), cwd=d, timeout=120)
            se = [l for l in p.stderr.decode('utf-8').split('\n') if l]
            res[name] = {'rc': p.returncode, 'text': p.stdout.decode('utf-8'), 'stderr_first': se[0][:80] if se else None}
        return res
    finally:
        shutil.rmtree(d, ignore_errors=True)


def run_case(c):
    if c.get('part') == 'c13mono':
        return run_mono(c)
    from rbql import rbql_sqlite
    d = tempfile.mkdtemp(prefix='c13s_', dir=os.environ.get('VERIF_SCRATCH'))
    res = {}
    try:
        dbp = os.path.join(d, 'db.sqlite')
        con = sqlite3.connect(dbp)
        con.execute('CREATE TABLE t1 (%s)' % ', '.join('%s TEXT' % h for h in c['hdr']))
        con.executemany('INSERT INTO t1 VALUES (%s)' % ','.join('?' * len(c['hdr'])), c['A'])
        con.commit()
        o1 = os.path.join(d, 'o1.csv')
        try:
            rbql_sqlite.query_sqlite_to_csv(c['q'], con, 't1', o1, ',', 'quoted_rfc', 'utf-8', [])
            res['sqlite_lib'] = {'text': open(o1, 'rb').read().decode('utf-8'), 'error': None}
        except Exception as e:
            res['sqlite_lib'] = {'text': None, 'error': EN.canon_error(e)}
        con.close()
        qf = os.path.join(d, 'q.txt')
        p = subprocess.run([sys.executable, '-W', 'ignore', '-m', 'rbql', 'sqlite', dbp, '--input', 't1', '--query', c['q']],
                           stdout=subprocess.PIPE, stderr=subprocess.PIPE, env=dict(os.environ), cwd=d, timeout=120)
        se = [l for l in p.stderr.decode('utf-8').split('\n') if l]
        res['cli_sqlite'] = {'rc': p.returncode, 'text': p.stdout.decode('utf-8'), 'stderr_first': se[0][:60] if se else None}
        return res
    finally:
        shutil.rmtree(d, ignore_errors=True)
