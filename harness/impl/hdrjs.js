// hdrjs.js - probes of the header derivation of rbql-js: adhoc_parse_select_expression_to_column_infos (exported for unit
// tests), fed as shallow_parse_input_query feeds it, and select_output_header.  case.mode:
//   'sel'  : separate_string_literals(text) -> replace_star_vars_for_header_parsing -> str_strip -> adhoc_parse...   (entry 551)
//   'tsel' : separate_string_literals(text) -> translate_select_expression(...)[1] -> adhoc_parse...                 (entry 555)
//   'span' : adhoc_parse...(text, lits) as is                                                                        (entry 552)
//   'hdr'  : select_output_header(ih, jh, infos)                                                                      (entry 553)
const path = require('path');
function canon_info(q) {
    if (q === null) return null;
    return [q.table_name, q.column_index, q.column_name, q.is_star, q.alias_name];
}
function perr(e) {
    const n = (e && e.constructor && e.constructor.name) || 'Error';
    return {error: n.includes('Parsing') ? 'P' : n};
}
module.exports.run_case = async function (c, repo) {
    const rbql = require(path.join(repo, 'rbql-js', 'rbql.js'));
    try {
        if (c.mode == 'hdr') {
            const infos = c.infos.map(q => q === null ? null : {table_name: q[0], column_index: q[1], column_name: q[2], is_star: q[3], alias_name: q[4]});
            const h = rbql.select_output_header(c.ih, c.jh, infos);
            return {header: h === null ? null : h.map(x => x === undefined ? {undef: 1} : x)};
        }
        if (c.mode == 'fmtonly') {
            const [fmt, ls] = rbql.separate_string_literals(c.text);
            return {fmt: fmt, lits: ls};
        }
        let text = c.text, lits = c.lits;
        if (c.mode == 'sel' || c.mode == 'tsel') {
            [text, lits] = rbql.separate_string_literals(c.text);
            if (c.mode == 'sel')
                text = rbql.replace_star_vars_for_header_parsing(text).replace(/^ +| +$/g, '');    // str_strip is not exported
            else
                text = rbql.translate_select_expression(text)[1];
        }
        const infos = rbql.adhoc_parse_select_expression_to_column_infos(text, lits);
        return {fmt: text, lits: lits, infos: infos.map(canon_info)};
    } catch (e) {
        return perr(e);
    }
};
