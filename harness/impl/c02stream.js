// c02stream.js - C02's early-stop clause for the rbql-js STREAM reader: a bounded query without buffering over an input stream that never ends
// (a Readable producing lines for as long as it is read). After the query has resolved the engine must have stopped its input iterator:
// the stream is destroyed (or at least no longer read) - otherwise the rest of an unbounded input is read and queued for ever and the
// process can never exit (finding D26). Result: rows, whether the query resolved within the time limit, bytes produced when it resolved and
// 150 ms later, stream.destroyed.
const path = require('path');
const {Readable} = require('stream');

module.exports.run_case = async function (c, repo) {
    const rbql = require(path.join(repo, 'rbql-js', 'rbql.js'));
    const rbql_csv = require(path.join(repo, 'rbql-js', 'rbql_csv.js'));
    let produced = 0, n = 0;
    const stream = new Readable({
        read(size) {
            // one chunk of lines per read request, for ever (bounded only by the safety cap)
            if (produced > c.cap) { this.push(null); return; }
            let s = '';
            for (let i = 0; i < c.lines_per_chunk; i++) { n += 1; s += c.cells[n % c.cells.length] + ',' + n + c.sep; }
            produced += s.length;
            // delivered asynchronously, as every real source (file, pipe, socket) does: a source that pushes synchronously from read() never
            // lets a promise continuation of the consumer run before it ends
            setImmediate(() => { if (!this.destroyed) this.push(Buffer.from(s, 'utf-8')); });
        }
    });
    const it = new rbql_csv.CSVRecordIterator(stream, null, 'utf-8', ',', c.policy, c.header ? true : false);
    const out = [];
    const wr = new rbql.TableWriter(out);
    const warnings = [];
    let resolved = false, error = null;
    const q = rbql.query(c.q, it, wr, warnings, null).then(() => { resolved = true; }, (e) => { resolved = true; error = String(e && e.message || e).slice(0, 200); });
    const limit = new Promise((res) => setTimeout(res, c.time_limit_ms));
    await Promise.race([q, limit]);
    const at_resolve = produced;
    await new Promise((res) => setTimeout(res, 150));
    const later = produced;
    const destroyed = !!stream.destroyed;
    if (!stream.destroyed) stream.destroy();
    return {rows: out, resolved: resolved, error: error, stopped: destroyed || later === at_resolve, destroyed: destroyed, produced_at_resolve: at_resolve, produced_later: later, hit_cap: produced > c.cap};
};
