#!/usr/bin/env python3
# translate_fn.py <out_dir> <job> <py|js>   - the translator of harness/translate_csv.py (task csvgen11) applied to further small
# PURE helper functions of the engines: named top-level functions are cut out of the big files rbql-py/rbql/rbql_engine.py and
# rbql-js/rbql.js, translated by the same fail-closed rules (class FnTr of translate_csv.py, read its header first) plus the
# rules below, and written as Gallina definitions gen_py_<name> / gen_js_<name> followed by the committed template of the job
# (obligations gen_<name>_eq = the hand-written index model, transferred theorems).  Exit 0: written; exit 2: refused.
# translate_fn.py --print <prefix> <job> <py|js> prints the definitions under another prefix (how LikeIx.v / VarsIx.v were made).
#
# JOBS (table JOBS below): like (C17: like_to_regex, JS also regexp_escape), vars (C09 / C18: escape of a column name, the
# dictionary-variable prefilter, JS unquote_string).
#
# ADDITIONAL RULES (every construct outside translate_csv.py's rules and these => refused)
#   extraction  Python: the top-level FunctionDefs of the file; a top-level statement outside {def, class, import, NAME = value,
#               docstring} is skipped, and every name it binds (also names declared `global` anywhere) is OPAQUE: refused where a
#               translated function uses it.  `re` must be bound by a plain `import re` and by nothing else.
#               JavaScript: the text from a line `function NAME(` to the next line that is `}` in column 0, for the covered
#               functions and every top-level function they call (exactly one definition, never assigned); top-level
#               one-line `const|let|var NAME = value;` as constants (opaque when assigned anywhere else in the file).
#   counting    i = a .. while i < N: body; i += 1   (N does not mention a name assigned in the loop, i is assigned only by the
#   loops       last statement, no `continue` - which would skip the increment - unless the loop was a JavaScript
#               for (..; i < N; i++), where `continue` goes to the increment)  and  for i in range([a,] N)  ->
#               fold_left (fun state i => body) (py_range_from a N) state;  after a while / JavaScript loop i = Z.max a N,
#               after a Python for loop the loop variable is unbound (a later use is refused).  Such a loop needs no fuel and
#               does not make the function partial.  A JavaScript for loop with `continue` that is not a counting loop: refused.
#   str         s[i] (Python) -> py_str_item s i : a one-character string ('' where Python raises IndexError - trusted: the
#               index models are proved to stay in range);  s.charAt(i) -> js_charat s i;  x in [c1, .., cn] / not in ->
#               x == c1 or .. or x == cn (x is pure);  re.escape(e) -> py_re_escape e (by name; CPython >= 3.7: backslash
#               before the 24 characters of re._special_chars_map);  s.replace(/[class]/g, 'pre$&post') for a class of plain /
#               escaped punctuation characters without ranges -> escape_class [codes] pre post s (a name bound to such a literal
#               at top level may stand for it).
#   segments    re.findall(<the text DICT_RX>, s) (Python) and the exec loop over new RegExp(<DICT_RX>, 'g') (JavaScript; a match object of
#               this group-free pattern used as a string is its text) -> dict_segments s (VarsIx.v = ParserVars.segments: the maximal
#               runs of the class), keyed on the exact pattern text.  A helper that takes a compiled pattern (get_all_matches) is
#               SPECIALISED to the constant pattern of its only call site (the parameter is removed, the name stands for the pattern).
#   search      for x in l: if c: return e  (nothing else in the body, e does not mention x, no loop-carried state)  ->
#   loops       if existsb (fun x => c) l then e else <what follows>;  JavaScript for (let x of l) likewise.
#   JavaScript  assert(c); -> like Python's assert;  s.replace(/c/g, '..') also for the one-character patterns backslash, \n, \r, \t, ', `.
import ast
import json
import os
import re
import sys

HERE = os.path.dirname(os.path.abspath(__file__))
sys.path.insert(0, HERE)
import translate_csv as T          # noqa: E402
import jsparse_csv                 # noqa: E402

REPO = os.environ.get('VERIF_REPO', '/repo')
PY_SRC = 'rbql-py/rbql/rbql_engine.py'
JS_SRC = 'rbql-js/rbql.js'

JOBS = {
    'like': {
        'py': dict(src=PY_SRC, base='GenLike', tmpl='gen_like_tie.v.tmpl', imports='Like LikeIx', covered=['like_to_regex'], optional=[],
                   sigs={'like_to_regex': [('pattern', 'str', None)]}, fuel={}, result={'like_to_regex': 'str'},
                   partial={'like_to_regex': False}, mutated={}),
        'js': dict(src=JS_SRC, base='GenLikeJs', tmpl='gen_like_tie_js.v.tmpl', imports='JsStr Like LikeIx', covered=['regexp_escape', 'like_to_regex'],
                   optional=['regexp_escape'],
                   sigs={'like_to_regex': [('pattern', 'str', None)], 'regexp_escape': [('text', 'str', None)]}, fuel={},
                   result={'like_to_regex': 'str', 'regexp_escape': 'str'}, partial={'like_to_regex': False, 'regexp_escape': False}, mutated={}),
    },
}

DICT_RX = '[-a-zA-Z0-9_:;+=!.,()%^#@&* ]+'
ESC_PY = 'python_string_escape_column_name'
ESC_JS = 'js_string_escape_column_name'
PRE = 'query_probably_has_dictionary_variable'
JOBS['vars'] = {
    'py': dict(src=PY_SRC, base='GenVars', tmpl='gen_vars_tie.v.tmpl', imports='ParserVars LikeIx VarsIx', covered=[ESC_PY, PRE], optional=[],
               sigs={ESC_PY: [('column_name', 'str', None), ('quote_char', 'str', None)], PRE: [('query_text', 'str', None), ('column_name', 'str', None)]},
               fuel={}, result={ESC_PY: 'str', PRE: 'bool'}, partial={ESC_PY: True, PRE: False}, mutated={}),
    'js': dict(src=JS_SRC, base='GenVarsJs', tmpl='gen_vars_tie_js.v.tmpl', imports='JsStr ParserVars LikeIx VarsIx', covered=[ESC_JS, PRE], optional=[],
               sigs={ESC_JS: [('column_name', 'str', None), ('quote_char', 'str', None)], PRE: [('query_text', 'str', None), ('column_name', 'str', None)]},
               fuel={}, result={ESC_JS: 'str', PRE: 'bool'}, partial={ESC_JS: True, PRE: False}, mutated={}),
}
# s.replace(/c/g, ..) for these one-character patterns (beside the two of translate_csv.py): literal text -> the character it matches
JS_REPLACE_MORE = {('\\\\', 'g'): '\\', ('\\n', 'g'): '\n', ('\\r', 'g'): '\r', ('\\t', 'g'): '\t', ("'", 'g'): "'", ('`', 'g'): '`'}

RE_SPECIAL_PY = '()[]{}?*+-|^$\\.&~# \t\n\r\x0b\x0c'      # re._special_chars_map of CPython 3.7 .. 3.13

EXTRA_RESERVED = set('''py_str_item js_charat py_re_escape py_re_special escape_class py_range_from render render_tok parse_pattern parse_body
    regex_like Py Js rtok RLit RDot RStar like like_to_regex l2r rmatch SqlLike single_line Z_max existsb forallb flat_map'''.split())


class LangFn:
    def __init__(self, name, spec):
        self.name = name
        self.js = name == 'js'
        self.src_rel = spec['src']
        self.prefix = 'gen_js_' if self.js else 'gen_py_'
        self.fuel = spec['fuel']
        self.expect_partial = spec['partial']


def is_counting_loop(st):
    """syntactic: while i < N: ...; i += 1 with i assigned nowhere else in the body -> (i, N node, body without the increment)"""
    if not isinstance(st, ast.While) or st.orelse or not st.body:
        return None
    t = st.test
    if not (isinstance(t, ast.Compare) and len(t.ops) == 1):
        return None
    if isinstance(t.ops[0], ast.Lt) and isinstance(t.left, ast.Name):
        i, bound = t.left.id, t.comparators[0]
    elif isinstance(t.ops[0], ast.Gt) and isinstance(t.comparators[0], ast.Name):
        i, bound = t.comparators[0].id, t.left
    else:
        return None
    last = st.body[-1]
    ok = False
    if isinstance(last, ast.AugAssign) and isinstance(last.target, ast.Name) and last.target.id == i and isinstance(last.op, ast.Add) \
            and isinstance(last.value, ast.Constant) and last.value.value == 1 and not isinstance(last.value.value, bool):
        ok = True
    if (isinstance(last, ast.Assign) and len(last.targets) == 1 and isinstance(last.targets[0], ast.Name) and last.targets[0].id == i
            and isinstance(last.value, ast.BinOp) and isinstance(last.value.op, ast.Add) and isinstance(last.value.left, ast.Name) and last.value.left.id == i
            and isinstance(last.value.right, ast.Constant) and last.value.right.value == 1 and not isinstance(last.value.right.value, bool)):
        ok = True
    if not ok:
        return None
    body = st.body[:-1]
    assigned = T.assigned_names(body)
    if i in assigned:
        return None
    for n in ast.walk(bound):
        if isinstance(n, ast.Name) and (n.id in assigned or n.id == i):
            return None
        if isinstance(n, ast.Call) and isinstance(n.func, ast.Name) and n.func.id != 'len':
            return None                                   # a call of a module function could depend on mutated state: keep to len / methods
    has_continue = any(isinstance(n, ast.Continue) for b in body for n in ast.walk(b))
    if has_continue and not getattr(st, 'js_for', False):
        return None
    return i, bound, body


class FnTr2(T.FnTr):
    # -- expressions
    def e_Compare(self, node, env):
        if len(node.ops) == 1 and isinstance(node.ops[0], (ast.In, ast.NotIn)) and isinstance(node.comparators[0], (ast.List, ast.Tuple)):
            elts = node.comparators[0].elts
            if not elts or not all(isinstance(x, ast.Constant) and isinstance(x.value, str) for x in elts):
                T.refuse(node, '`in` on a display that is not a list of string constants')
            parts = []
            for x in elts:
                c = ast.Compare(left=node.left, ops=[ast.Eq()], comparators=[x])
                ast.copy_location(c, node)
                parts.append(c)
            new = parts[0] if len(parts) == 1 else ast.copy_location(ast.BoolOp(op=ast.Or(), values=parts), node)
            ast.fix_missing_locations(new)
            e = self.truth(new, env)
            return e if isinstance(node.ops[0], ast.In) else self.neg(e)
        return super().e_Compare(node, env)

    def e_Subscript(self, node, env):
        if not isinstance(node.slice, ast.Slice) and not T.LANG.js:
            x = self.recv(node.value, env)
            if x.ty == 'str':
                i = self.expr(node.slice, env)
                if i.ty != 'int':
                    T.refuse(node, 'string index of type %s' % T.show_type(i.ty))
                return T.E('(py_str_item %s %s)' % (x.text, i.text), 'str')
        return super().e_Subscript(node, env)

    def e_Name(self, node, env):
        if node.id not in env and node.id in getattr(self.mod, 'regex_lits', {}):
            e = T.E('<regex literal>', 'jsregex')
            e.lit = self.mod.regex_lits[node.id]
            return e
        return super().e_Name(node, env)

    def e_Constant(self, node, env):
        if isinstance(node.value, tuple) and node.value and node.value[0] == 'regex':
            e = T.E('<regex literal>', 'jsregex')
            e.lit = (node.value[1], node.value[2])
            return e
        return super().e_Constant(node, env)

    def e_Call(self, node, env):
        f = node.func
        if (not T.LANG.js and isinstance(f, ast.Attribute) and isinstance(f.value, ast.Name) and f.value.id == 're' and 're' not in env
                and f.attr == 'escape' and len(node.args) == 1 and not node.keywords):
            if not getattr(self.mod, 're_is_re', False):
                T.refuse(node, 'the name re is not (only) bound by `import re`')
            a = self.expr(node.args[0], env)
            if a.ty != 'str':
                T.refuse(node, 're.escape of a %s' % T.show_type(a.ty))
            return T.E('(py_re_escape %s)' % a.text, 'str')
        if (not T.LANG.js and isinstance(f, ast.Attribute) and isinstance(f.value, ast.Name) and f.value.id == 're' and 're' not in env
                and f.attr == 'findall' and len(node.args) == 2 and not node.keywords):
            if not getattr(self.mod, 're_is_re', False):
                T.refuse(node, 'the name re is not (only) bound by `import re`')
            txt = self.mod.const_text(node.args[0])
            if txt != DICT_RX:
                T.refuse(node, 're.findall with a pattern text outside the table: %r' % (txt,))
            a = self.expr(node.args[1], env)
            if a.ty != 'str':
                T.refuse(node, 're.findall on a %s' % T.show_type(a.ty))
            return T.E('(dict_segments %s)' % a.text, T.new_list('str'))
        return super().e_Call(node, env)

    def rx_call(self, node, r, method, env):
        if r.text == 'RxDictSeg':
            if method != 'exec_all' or len(node.args) != 1:
                T.refuse(node, 'method %s on the segment pattern' % method)
            a = self.expr(node.args[0], env)
            if a.ty != 'str':
                T.refuse(node, 'exec on a %s' % T.show_type(a.ty))
            return '(dict_segments %s)' % a.text
        return super().rx_call(node, r, method, env)

    def js_method(self, node, f, x, env):
        if x.ty == 'str' and f.attr == 'charAt' and len(node.args) == 1:
            i = self.expr(node.args[0], env)
            if i.ty != 'int':
                T.refuse(node, 'charAt of a %s' % T.show_type(i.ty))
            return T.E('(js_charat %s %s)' % (x.text, i.text), 'str')
        if x.ty == 'str' and f.attr == 'replace' and len(node.args) == 2:
            a0 = node.args[0]
            lit = None
            if isinstance(a0, ast.Constant) and isinstance(a0.value, tuple):
                lit = (a0.value[1], a0.value[2])
            elif isinstance(a0, ast.Name) and a0.id not in env and a0.id in getattr(self.mod, 'regex_lits', {}):
                lit = self.mod.regex_lits[a0.id]
            if lit is not None and lit not in T.JS_REPLACE_LITERALS:
                cls = parse_class_literal(lit[0])
                if cls is None or lit[1] != 'g':
                    T.refuse(node, 'replace with the regular expression literal /%s/%s is outside the rules' % lit)
                a1 = node.args[1]
                if not (isinstance(a1, ast.Constant) and isinstance(a1.value, str) and a1.value.count('$') == 1 and a1.value.count('$&') == 1):
                    T.refuse(node, 'replacement text must be a constant with exactly one $ in the form $&')
                pre, post = a1.value.split('$&')
                return T.E('(escape_class [%s] %s %s %s)' % ('; '.join('%d%%N' % ord(c) for c in cls), T.lit_str(pre), T.lit_str(post), x.text), 'str')
            if lit is not None and not (isinstance(a0, ast.Constant)):
                # a named literal of the plain-text table: hand the literal itself to the rule of translate_csv.py
                node = ast.copy_location(ast.Call(func=node.func, args=[ast.copy_location(ast.Constant(value=('regex', lit[0], lit[1])), a0), node.args[1]], keywords=[]), node)
        return super().js_method(node, f, x, env)

    def iterable(self, node, env):
        if isinstance(node, ast.Call) and isinstance(node.func, ast.Name) and node.func.id in ('range', '__range_from') and 1 <= len(node.args) <= 2 and not node.keywords \
                and (node.func.id == '__range_from' or 'range' not in env):
            lo = self.expr(node.args[0], env) if len(node.args) == 2 else T.E(T.lit_int(0), 'int')
            hi = self.expr(node.args[-1], env)
            if lo.ty != 'int' or hi.ty != 'int':
                T.refuse(node, 'range of %s, %s' % (T.show_type(lo.ty), T.show_type(hi.ty)))
            return '(py_range_from %s %s)' % (lo.text, hi.text), 'int'
        return super().iterable(node, env)

    # -- statements
    def search_loop(self, st, env, k):
        if not (isinstance(st.target, ast.Name) and not st.orelse and len(st.body) == 1 and isinstance(st.body[0], ast.If) and not st.body[0].orelse
                and len(st.body[0].body) == 1 and isinstance(st.body[0].body[0], ast.Return) and st.body[0].body[0].value is not None):
            return None
        if self.loop_depth:
            return None
        x = st.target.id
        ret = st.body[0].body[0]
        if any(isinstance(n, ast.Name) and n.id == x for n in ast.walk(ret.value)):
            return None
        xs, elem = self.iterable(st.iter, env)
        inner = dict(env)
        xc = T.coq_name(x)
        inner[x] = T.Var('str' if elem == 'g0' else elem, xc)
        c = self.truth(st.body[0].test, inner)
        found = self.s_Return(ret, env, None)
        after = dict(env)
        after.pop(x, None)
        return 'if (existsb (fun %s => %s) %s) then\n%s\nelse\n%s' % (xc, c.text, xs, T.indent(found), T.indent(k(after)))

    def s_For(self, st, env, k):
        sl = self.search_loop(st, env, k)
        if sl is not None:
            return sl
        if isinstance(st.target, ast.Name) and st.target.id in env and not getattr(st, 'counting', False):
            tid = st.target.id

            def k2(e2):
                e3 = dict(e2)
                e3.pop(tid, None)          # Python leaves the last element in the loop variable: a later use is refused
                return k(e3)
            return super().s_For(st, env, k2)
        return super().s_For(st, env, k)

    def s_While(self, st, env, k):
        cl = is_counting_loop(st)
        if cl is None:
            if getattr(st, 'js_for', False) and any(isinstance(n, ast.Continue) for b in st.body for n in ast.walk(b)):
                T.refuse(st, 'a JavaScript for loop with `continue` that is not a counting loop')
            fuels = T.LANG.fuel.get(self.info.name, [])
            if self.n_while < len(fuels):
                fvar = fuels[self.n_while][1]
                if fvar in [p[0] for p in self.info.params] and fvar in T.assigned_names(self.info.node.body, self.infos):
                    T.refuse(st, 'the fuel needs the unmodified parameter %s' % fvar)
            return super().s_While(st, env, k)
        i, bound, body = cl
        if i not in env or env[i].ty != 'int':
            T.refuse(st, 'counting loop over %s which is not an integer variable' % i)
        if self.loop_depth:
            T.refuse(st, 'nested loops are outside the rules')
        b = self.expr(bound, env)
        if b.ty != 'int':
            T.refuse(st, 'counting loop bound of type %s' % T.show_type(b.ty))
        it = ast.Call(func=ast.Name(id='__range_from', ctx=ast.Load()), args=[ast.Name(id=i, ctx=ast.Load()), bound], keywords=[])
        new = ast.For(target=ast.Name(id=i, ctx=ast.Store()), iter=it, body=body or [ast.Pass()], orelse=[])
        ast.copy_location(new, st)
        ast.fix_missing_locations(new)
        new.counting = True
        i_coq = env[i].coq
        i_txt = self.var_text(env[i])

        def k2(e2):
            e3 = dict(e2)
            e3[i] = T.Var('int', i_coq)
            return T.mk_let(i_coq, '(Z.max %s %s)' % (i_txt, b.text), k(e3))
        return self.s_For(new, env, k2)

    def s_Expr(self, st, env, k):
        v = st.value
        if T.LANG.js and isinstance(v, ast.Call) and isinstance(v.func, ast.Name) and v.func.id == 'assert' and 'assert' not in env and 1 <= len(v.args) <= 2:
            a = ast.Assert(test=v.args[0], msg=None)
            ast.copy_location(a, st)
            return self.s_Assert(a, env, k)
        return super().s_Expr(st, env, k)


def parse_class_literal(pat):
    """the text of a regular expression literal that is ONE character class of plain or backslash-escaped punctuation characters
    (no ranges, no negation, no class escapes) -> the characters, else None"""
    if len(pat) < 3 or pat[0] != '[' or pat[-1] != ']' or pat[1] == '^':
        return None
    body = pat[1:-1]
    out = []
    j = 0
    while j < len(body):
        c = body[j]
        if c == '\\':
            if j + 1 >= len(body):
                return None
            d = body[j + 1]
            if d.isalnum() or ord(d) > 126 or ord(d) < 33:
                return None
            out.append(d)
            j += 2
            continue
        if c in '-]' or c.isalnum() or ord(c) > 126 or ord(c) < 33:
            return None
        out.append(c)
        j += 1
    if j != len(body) or not out or len(set(out)) != len(out):
        return None
    return out


def fn_partial(node, infos, mod):
    for x in ast.walk(node):
        if isinstance(x, ast.Assert):
            return True
        if isinstance(x, ast.While) and is_counting_loop(x) is None:
            return True
        if T.LANG.js and isinstance(x, ast.Expr) and isinstance(x.value, ast.Call) and isinstance(x.value.func, ast.Name) and x.value.func.id == 'assert':
            return True
    return any(infos[c].partial for c in T.called_functions(node, mod) if c in infos)


# ------------------------------------------------------------------ JavaScript: cut functions out of the big file

class Parser2(jsparse_csv.Parser):
    def statement(self):
        t = self.peek()
        if self.at('for') and self.at('(', 1) and self.at(';', 2):
            # for (; C; i++) body
            self.i += 3
            c = self.expr()
            self.eat(';')
            nm = self.name()
            self.eat('++')
            self.eat(')')
            body = self.body()
            upd = self.loc(ast.AugAssign(target=ast.Name(id=nm, ctx=ast.Store()), op=ast.Add(), value=ast.Constant(value=1)), t)
            w = self.loc(ast.While(test=c, body=body + [upd], orelse=[]), t)
            w.js_for = True
            return [w]
        if self.at('for') and self.at('(', 1) and (self.at('let', 2) or self.at('const', 2) or self.at('var', 2)) and self.peek(3).kind == 'id' and self.at('of', 4):
            self.i += 3
            nm = self.name()
            self.eat('of')
            it = self.expr()
            self.eat(')')
            body = self.body()
            f = self.loc(ast.For(target=ast.Name(id=nm, ctx=ast.Store()), iter=it, body=body, orelse=[]), t)
            f.js_of = True
            return [f]
        out = super().statement()
        if t.kind == 'id' and t.val == 'for':
            for s in out:
                if isinstance(s, ast.While):
                    s.js_for = True        # `continue` inside goes to the increment
        return out


def js_function_index(text):
    idx = {}
    for m in re.finditer(r'^function\s+([A-Za-z_$][\w$]*)\s*\(', text, flags=re.M):
        idx.setdefault(m.group(1), []).append(m.start())
    return idx


def js_cut(text, start):
    m = re.compile(r'^\}[ \t]*(//[^\n]*)?$', flags=re.M).search(text, start)
    if m is None:
        return None
    return text[start:m.end()]


def js_parse_function(text, name, idx, fname):
    if len(idx.get(name, [])) != 1:
        raise T.Refuse('%s: %d top-level definitions `function %s(`' % (fname, len(idx.get(name, [])), name))
    if re.search(r'(?<![\w$.])%s\s*(=[^=]|\+=|-=|\+\+|--)' % re.escape(name), text):
        raise T.Refuse('%s: the function name %s is assigned somewhere in the file' % (fname, name))
    start = idx[name][0]
    body = js_cut(text, start)
    if body is None:
        raise T.Refuse('%s: the end of function %s was not found' % (fname, name))
    line0 = text.count('\n', 0, start)
    try:
        p = Parser2(jsparse_csv.tokenize('\n' * line0 + body, fname), fname)
        f = p.function()
        if p.peek().kind != 'eof':
            p.err('text after the end of function %s' % name)
    except jsparse_csv.JSRefuse as e:
        raise T.Refuse('outside the JavaScript subset: %s' % e)
    ast.fix_missing_locations(f)
    return f


def js_module(text, covered, optional, fname):
    idx = js_function_index(text)
    funcs = {}
    todo = [n for n in covered if not (n in optional and n not in idx)]
    for n in covered:
        if n not in idx and n not in optional:
            raise T.Refuse('%s: the covered function %s is gone' % (fname, n))
    while todo:
        n = todo.pop(0)
        if n in funcs:
            continue
        f = js_parse_function(text, n, idx, fname)
        funcs[n] = f
        for x in ast.walk(f):
            if isinstance(x, ast.Call) and isinstance(x.func, ast.Name) and x.func.id in idx and x.func.id not in funcs and x.func.id != 'assert':
                todo.append(x.func.id)
    # top-level one-line constants
    consts = []
    regex_lits = {}
    decls = list(re.finditer(r'^(?:const|let|var)\s+([A-Za-z_$][\w$]*)\s*=\s*(.*?);[ \t]*(?://[^\n]*)?$', text, flags=re.M))
    for m in decls:
        name, rhs = m.group(1), m.group(2)
        if sum(1 for d in decls if d.group(1) == name) > 1:
            continue                                  # declared twice at top level: not a constant (a use is refused as unbound)
        line = text.count('\n', 0, m.start()) + 1
        others = [x for x in re.finditer(r'(?<![\w$.])%s\s*(=[^=]|\+=|-=|\+\+|--)' % re.escape(name), text) if not (m.start() <= x.start() < m.end())]
        node = None
        if not others:
            try:
                p = Parser2(jsparse_csv.tokenize('\n' * (line - 1) + rhs + ';', fname), fname)
                node = p.expr()
                if not p.at(';'):
                    node = None
            except jsparse_csv.JSRefuse:
                node = None
        if node is None:
            node = ast.Constant(value=None)         # outside the rules: opaque
        if isinstance(node, ast.Constant) and isinstance(node.value, tuple) and node.value[0] == 'regex':
            regex_lits[name] = (node.value[1], node.value[2])
            continue
        consts.append((name, node, line))
    order = [n for n in covered if n in funcs] + [n for n in funcs if n not in covered]
    mod = T.Module.from_js(consts, funcs, order)
    mod.regex_lits = regex_lits
    for n in regex_lits:
        if n in funcs:
            raise T.Refuse('%s: the name %s is both a function and a constant' % (fname, n))
    return mod


# ------------------------------------------------------------------ Python: the top-level functions of the big file

def py_module(text, path, fname):
    tree = ast.parse(text, path)
    keep = []
    opaque = {}
    re_bound = []
    for st in tree.body:
        if isinstance(st, (ast.Import, ast.ImportFrom)):
            for a in st.names:
                bound = (a.asname or a.name).split('.')[0]
                if bound == 're':
                    re_bound.append(isinstance(st, ast.Import) and a.name == 're' and a.asname is None)
            keep.append(st)
            continue
        if isinstance(st, ast.Expr) and isinstance(st.value, ast.Constant) and isinstance(st.value.value, str):
            keep.append(st)
            continue
        if isinstance(st, (ast.FunctionDef, ast.ClassDef)):
            if st.name == 're':
                re_bound.append(False)
            keep.append(st)
            continue
        if isinstance(st, ast.Assign) and len(st.targets) == 1 and isinstance(st.targets[0], ast.Name):
            if st.targets[0].id == 're':
                re_bound.append(False)
            keep.append(st)
            continue
        for n in ast.walk(st):                      # any other top-level statement: the names it binds are opaque
            if isinstance(n, ast.Name) and isinstance(n.ctx, ast.Store):
                opaque[n.id] = st.lineno
            if isinstance(n, (ast.FunctionDef, ast.ClassDef)):
                opaque[n.name] = st.lineno
            if isinstance(n, ast.alias):
                opaque[(n.asname or n.name).split('.')[0]] = st.lineno
    for n in ast.walk(tree):
        if isinstance(n, (ast.Global, ast.Nonlocal)):
            for nm in n.names:
                opaque[nm] = n.lineno
    # module-level assignments to the same name twice would be refused by Module: rbql_engine.py has none among simple names we use;
    # to stay fail-closed but tolerant, a name assigned twice becomes opaque instead
    seen = {}
    keep2 = []
    for st in keep:
        if isinstance(st, ast.Assign):
            nm = st.targets[0].id
            seen[nm] = seen.get(nm, 0) + 1
    for st in keep:
        if isinstance(st, ast.Assign) and seen[st.targets[0].id] > 1:
            opaque[st.targets[0].id] = st.lineno
            continue
        if isinstance(st, ast.FunctionDef) and sum(1 for s in keep if isinstance(s, ast.FunctionDef) and s.name == st.name) > 1:
            raise T.Refuse('%s:%d: function %s defined twice' % (fname, st.lineno, st.name))
        keep2.append(st)
    mod = T.Module(ast.Module(body=[s for s in keep2 if not (isinstance(s, ast.Assign) and s.targets[0].id in opaque) and not (isinstance(s, ast.FunctionDef) and s.name in opaque)], type_ignores=[]))
    for nm, line in opaque.items():
        mod.opaque[nm] = line
        mod.consts.pop(nm, None)
        mod.rx.pop(nm, None)
        if nm in mod.funcs:
            raise T.Refuse('%s: the name %s is a function and is also bound at line %s' % (fname, nm, line))
    mod.re_is_re = (re_bound == [True]) and 're' not in opaque
    mod.regex_lits = {}
    return mod


def specialise_rx_helpers(mod, covered):
    """f(rgx, ..) where rgx is a local name bound once to new RegExp(<constants>) in a covered function and f is a helper with exactly
    this one call in the translated functions: the parameter is removed from f and its name stands for the constant pattern there"""
    for cn in covered:
        fn = mod.funcs.get(cn)
        if fn is None:
            continue
        binds = {}
        for n in ast.walk(fn):
            if isinstance(n, ast.Assign) and len(n.targets) == 1 and isinstance(n.targets[0], ast.Name):
                binds.setdefault(n.targets[0].id, []).append(n.value)
        for call in [n for n in ast.walk(fn) if isinstance(n, ast.Call) and isinstance(n.func, ast.Name) and n.func.id in mod.funcs and n.func.id not in covered]:
            h = mod.funcs[call.func.id]
            for j, a in enumerate(list(call.args)):
                if not (isinstance(a, ast.Name) and len(binds.get(a.id, [])) == 1):
                    continue
                pat = mod.compile_text(binds[a.id][0])
                if pat is None:
                    continue
                ncalls = sum(1 for c2 in covered if c2 in mod.funcs for n in ast.walk(mod.funcs[c2]) if isinstance(n, ast.Call) and isinstance(n.func, ast.Name) and n.func.id == h.name)
                if ncalls != 1 or j >= len(h.args.args) or h.args.defaults:
                    raise T.Refuse('%s: the helper %s takes a compiled pattern and has %d call sites' % (T.LANG.src_rel, h.name, ncalls))
                pn = h.args.args[j].arg
                if pn in T.assigned_names(h.body) or pn in mod.consts or pn in mod.rx or pn in mod.funcs or pn in mod.opaque:
                    raise T.Refuse('%s: the pattern parameter %s of %s is assigned or clashes with a top-level name' % (T.LANG.src_rel, pn, h.name))
                # the pattern object is created anew by the caller for this one call and touched by nothing else there (the local name occurs
                # exactly twice: its binding and this argument), so inside the helper it is a FRESH object: lastIndex = 0 at the first exec
                uses = sum(1 for n in ast.walk(fn) if isinstance(n, ast.Name) and n.id == a.id)
                if uses != 2:
                    raise T.Refuse('%s: the pattern object %s handed to %s is used elsewhere in %s' % (T.LANG.src_rel, a.id, h.name, cn))
                del h.args.args[j]
                del call.args[j]
                mod.rx[pn] = pat
                if not hasattr(mod, 'rx_fresh'):
                    mod.rx_fresh = set()
                mod.rx_fresh.add(pn)
                break


def translate(job, lang):
    spec = JOBS[job][lang]
    T.LANG = LangFn(lang, spec)
    T.SIGS = spec['sigs']
    T.OPTIONAL = spec['optional']
    T.FnTr = FnTr2
    T.RESERVED = set(T.RESERVED) | EXTRA_RESERVED
    T.JS_REPLACE_LITERALS.update(JS_REPLACE_MORE)
    T.RX_TABLE_JS[(DICT_RX, 'g')] = ('RxDictSeg', {'exec_all'})
    path = os.path.join(REPO, spec['src'])
    text = open(path, encoding='utf-8').read()
    if lang == 'js':
        mod = js_module(text, spec['covered'], spec['optional'], spec['src'])
    else:
        mod = py_module(text, path, spec['src'])
    if lang == 'js':
        specialise_rx_helpers(mod, spec['covered'])
    todo, infos = T.analyse(mod, spec['covered'])
    for n in todo:
        infos[n].partial = fn_partial(mod.funcs[n], infos, mod)
    for n in todo:
        info = infos[n]
        if info.params is None:
            continue
        FnTr2(mod, infos, info).run()
        if n in spec['result']:
            if not T.same_type(T.freeze_type(info.ret), T.freeze_type(spec['result'][n])):
                raise T.Refuse('%s: the result of %s changed its shape: %s expected, %s found' % (spec['src'], n, T.show_type(spec['result'][n]), T.show_type(info.ret)))
            if info.partial != spec['partial'][n]:
                raise T.Refuse('%s: %s %s (a non-counting while loop or an assert appeared or disappeared): the statement of its obligation no longer fits'
                               % (spec['src'], n, 'became partial' if info.partial else 'is no longer partial'))
            if [info.params[i][0] for i in info.mutated] != spec['mutated'].get(n, []):
                raise T.Refuse('%s: the set of parameters that %s mutates changed' % (spec['src'], n))
    for n in todo:
        if infos[n].text is None:
            raise T.Refuse('%s: the helper %s was never reached' % (spec['src'], n))
    return mod, list(mod.emitted), infos, spec


def main():
    args = sys.argv[1:]
    printing = args[0] == '--print'
    out_dir_or_prefix, job, lang = args[1:4] if printing else args[0:3]
    try:
        mod, todo, infos, spec = translate(job, lang)
    except T.Refuse as e:
        sys.stderr.write('translate_fn: REFUSED: %s\n' % e)
        return 2
    except SyntaxError as e:
        sys.stderr.write('translate_fn: REFUSED: %s does not parse: %s\n' % (JOBS[job][lang]['src'], e))
        return 2
    prefix = T.LANG.prefix
    defs = '\n\n'.join(infos[n].text + ('\n#[local] Hint Unfold %s%s : genhelpers.' % (prefix, n) if infos[n].helper else '') for n in todo)
    if printing:
        sys.stdout.write(defs.replace(prefix, out_dir_or_prefix) + '\n')
        return 0
    out_dir = out_dir_or_prefix
    os.makedirs(out_dir, exist_ok=True)
    base = spec['base']
    tmpl = open(os.path.join(HERE, spec['tmpl']), encoding='utf-8').read()
    tmpl = re.sub(r'\(\*@if (\w+)\*\)\n(.*?)\(\*@end\*\)\n', lambda m: m.group(2) if m.group(1) in todo else '', tmpl, flags=re.S)
    head = ('(* GENERATED by harness/translate_fn.py (job %s) from %s on every run - never committed.\n'
            '   Definitions %s<name>: the translation of the source text; then the committed obligations and the transferred theorems. *)\n'
            'From RBQL Require Import Base Csv PyStr %s.\n\n' % (job, spec['src'], prefix, spec['imports']))
    with open(os.path.join(out_dir, base + '.v'), 'w', encoding='utf-8') as f:
        f.write(head + defs + '\n\n' + tmpl)
    thms = re.findall(r'^\s*(?:Theorem|Lemma|Corollary)\s+([A-Za-z0-9_\']+)', re.sub(r'\(\*.*?\*\)', '', tmpl, flags=re.S), flags=re.M)
    with open(os.path.join(out_dir, base + '.json'), 'w', encoding='utf-8') as f:
        json.dump({'source': os.path.join(REPO, spec['src']), 'language': lang, 'job': job,
                   'functions': [{'name': n, 'partial': infos[n].partial, 'mutated': [infos[n].params[i][0] for i in infos[n].mutated], 'helper': infos[n].helper,
                                  'result': T.show_type(infos[n].ret), 'ast_nodes': infos[n].size, 'lines': infos[n].text.count('\n') + 1} for n in todo],
                   'skipped': [], 'theorems': thms, 'obligations': [t for t in thms if t.endswith('_eq')], 'patterns': []}, f, indent=1)
    return 0


if __name__ == '__main__':
    sys.exit(main())
