#!/usr/bin/env python3
# shared_variants.py - rehearsal of harness/translate_shared.py (C16) on hand-made variants of the Python implementation:
# UNSOUND variants (some query path writes a shared cell, each through a different language mechanism) must be FLAGGED with the
# expected cell in the transitive write set of an entry point; CONTROLS (behaviour that keeps queries isolated) must be ACCEPTED.
# Each variant is a textual edit of a scratch COPY of $VERIF_REPO/rbql-py (under build/gen/shared_variants, removed afterwards).
#   python3 harness/shared_variants.py [name-substring]      exit 0 iff every verdict is as expected
import json
import os
import shutil
import subprocess
import sys

HERE = os.path.dirname(os.path.abspath(__file__))
VERIF = os.path.dirname(HERE)
REPO = os.environ.get('VERIF_REPO', '/repo')
Q = "    query_context = RBQLContext(input_iterator, output_writer, user_init_code)\n"          # first statement of rbql_engine.query
DSG = "default_statement_groups = [[STRICT_LEFT_JOIN"


def after(anchor, code):
    return (anchor, anchor + code)


def before(anchor, code):
    return (anchor, code + anchor)


E = 'rbql_engine.py'
C = 'rbql_csv.py'
# (name, [(file, (old, new))..], expected cell or None)
VARIANTS = [
    ('global_counter', [(E, before(DSG, 'query_counter = 0\n')), (E, after(Q, '    global query_counter\n    query_counter += 1\n'))], 'rbql_engine.query_counter'),
    ('global_rebind_in_helper', [(E, before(DSG, 'last_query = None\n\ndef _remember(q):\n    global last_query\n    last_query = q\n\n')), (E, after(Q, '    _remember(query_text)\n'))], 'rbql_engine.last_query'),
    ('class_attr_through_instance', [(E, ('class TopWriter(object):\n', 'class TopWriter(object):\n    seen = []\n')),
                                     (E, ('        if self.NW >= self.top_count:\n            return False\n        success', '        self.seen.append(record)\n        if self.NW >= self.top_count:\n            return False\n        success'))], 'rbql_engine.TopWriter.seen'),
    ('mutable_default_argument', [(E, ("user_init_code='', user_namespace=None):\n    query_context", "user_init_code='', user_namespace=None, _history=[]):\n    _history.append(query_text)\n    query_context"))], 'rbql_engine.query.<default:_history>'),
    ('function_attribute', [(E, after(Q, "    query.calls = getattr(query, 'calls', 0) + 1\n"))], 'rbql_engine.query'),
    ('function_attribute_container', [(E, before(DSG, '')), (E, ('def like_to_regex(pattern):\n', 'def like_to_regex(pattern):\n    like_to_regex.cache[pattern] = 1\n')),
                                      (E, ('class RBQLAggregationToken(object):', 'like_to_regex.cache = {}\n\n\nclass RBQLAggregationToken(object):'))], 'rbql_engine.like_to_regex'),
    ('globals_item_store', [(E, after(Q, "    globals()['last_query'] = query_text\n"))], 'rbql_engine.__dict__'),
    ('vars_of_module', [(C, ('        input_file_dir = None if not input_path', "        vars(rbql_engine)['last_csv_query'] = query_text\n        input_file_dir = None if not input_path"))], 'rbql_engine.__dict__'),
    ('setattr_on_module', [(C, ('        input_file_dir = None if not input_path', "        setattr(rbql_engine, 'last_csv_query', query_text)\n        input_file_dir = None if not input_path"))], 'rbql_engine.__dict__'),
    ('module_attribute_store', [(C, ('        input_file_dir = None if not input_path', "        rbql_engine.debug_mode = False\n        input_file_dir = None if not input_path"))], 'rbql_engine.debug_mode'),
    ('self_class_store', [(E, ('        self.input_iterator = input_iterator\n', "        self.__class__.instances = 1\n        self.input_iterator = input_iterator\n"))], 'rbql_engine.RBQLContext'),
    ('type_self_store', [(E, ('        self.input_iterator = input_iterator\n', "        type(self).instances = 1\n        self.input_iterator = input_iterator\n"))], 'rbql_engine.RBQLContext'),
    ('class_object_store', [(E, after(Q, "    RBQLContext.last = query_text\n"))], 'rbql_engine.RBQLContext'),
    ('alias_chain', [(E, after(Q, "    groups = default_statement_groups\n    g2 = groups\n    g2.append([FROM])\n"))], 'rbql_engine.default_statement_groups'),
    ('element_of_shallow_copy', [(E, after(Q, "    for group in list(default_statement_groups):\n        group.sort()\n"))], 'rbql_engine.default_statement_groups'),
    ('element_by_index_of_copy', [(E, after(Q, "    groups = default_statement_groups[:]\n    groups[0].append('X')\n"))], 'rbql_engine.default_statement_groups'),
    ('through_helper_parameter', [(E, before(DSG, 'def _touch(x):\n    x.append(1)\n\n\n')), (E, after(Q, "    _touch(default_statement_groups)\n"))], 'rbql_engine.default_statement_groups'),
    ('through_attribute', [(E, after(Q, "    query_context.groups = default_statement_groups\n")),
                           (E, ('    if query_context.sort_key_expression is not None:\n        if not query_context.writer.write(sort_key, out_fields):', '    query_context.groups.pop()\n    if query_context.sort_key_expression is not None:\n        if not query_context.writer.write(sort_key, out_fields):'))], 'rbql_engine.default_statement_groups'),
    ('return_value_alias', [(E, before(DSG, 'def _groups():\n    return default_statement_groups\n\n\n')), (E, after(Q, "    _groups().append([])\n"))], 'rbql_engine.default_statement_groups'),
    ('del_item', [(E, after(Q, "    del default_statement_groups[0]\n"))], 'rbql_engine.default_statement_groups'),
    ('augassign_through_alias', [(E, after(Q, "    x = default_statement_groups\n    x += [[FROM]]\n"))], 'rbql_engine.default_statement_groups'),
    ('external_mutator', [(E, after(Q, "    random.shuffle(default_statement_groups)\n"))], 'rbql_engine.default_statement_groups'),
    ('lambda_mutation', [(E, after(Q, "    (lambda: default_statement_groups.append([]))()\n"))], 'rbql_engine.default_statement_groups'),
    ('closure_mutation', [(E, after(Q, "    def inner():\n        default_statement_groups.clear()\n    inner()\n"))], 'rbql_engine.default_statement_groups'),
    ('comprehension_side_effect', [(E, after(Q, "    [g.append(1) for g in default_statement_groups]\n"))], 'rbql_engine.default_statement_groups'),
    ('tuple_unpack_alias', [(E, after(Q, "    a, b = default_statement_groups[0], 1\n    a.append('x')\n"))], 'rbql_engine.default_statement_groups'),
    ('dict_get_alias', [(E, before(DSG, "KW = {'a': []}\n")), (E, after(Q, "    KW.get('a').append(1)\n"))], 'rbql_engine.KW'),
    ('dict_setdefault', [(E, before(DSG, "STATS = {}\n")), (E, after(Q, "    STATS.setdefault('n', 0)\n"))], 'rbql_engine.STATS'),
    ('sorted_key_callback', [(E, after(Q, "    sorted(default_statement_groups, key=lambda g: g.append(1))\n"))], 'rbql_engine.default_statement_groups'),
    ('generated_code_template', [(E, ("PROCESS_SELECT_COMMON = '''\n", "PROCESS_SELECT_COMMON = '''\ndefault_statement_groups.append([])\n"))], 'rbql_engine.default_statement_groups'),
    ('generated_code_global', [(E, before(DSG, 'rows_seen = 0\n')), (E, ("    NR = 0\n    NU = 0\n", "    global rows_seen\n    rows_seen = 1\n    NR = 0\n    NU = 0\n"))], 'rbql_engine.rows_seen'),
    ('exec_into_module_namespace', [(E, ("    exec(compiled_main_loop, globals(), locals())", "    ns = globals()\n    ns.update(locals())\n    exec(compiled_main_loop, ns)"))], 'rbql_engine.__dict__'),
    ('shared_instance_method', [(E, ('class AvgAggregator:', 'shared_handler = NumHandler(False)\n\n\nclass AvgAggregator:')),
                                (E, ('class AvgAggregator:\n    def __init__(self):\n        self.stats = dict()\n        self.num_handler = NumHandler(False)', 'class AvgAggregator:\n    def __init__(self):\n        self.stats = dict()\n        self.num_handler = shared_handler'))], 'rbql_engine.shared_handler'),
    ('debug_flag_initially_on', [(C, ('debug_mode = False\n', 'debug_mode = True\n'))], 'rbql_engine.debug_mode'),
    ('write_in_csv_iterator', [(C, ('ansi_reset_color_code', 'open_iterators = []\nansi_reset_color_code')),
                               (C, ('        self.encoding = encoding\n        self.stream = encode_input_stream', '        open_iterators.append(self)\n        self.encoding = encoding\n        self.stream = encode_input_stream'))], 'rbql_csv.open_iterators'),
    ('walrus_alias', [(E, after(Q, "    if (g := default_statement_groups):\n        g.pop()\n"))], 'rbql_engine.default_statement_groups'),
    ('external_module_attribute', [(E, after(Q, "    sys.stdout = sys.stderr\n"))], 'ext:sys.stdout'),
    ('lazy_global_cache', [(E, before(DSG, 'plan_cache = None\n')), (E, after(Q, "    global plan_cache\n    if plan_cache is None:\n        plan_cache = {}\n"))], 'rbql_engine.plan_cache'),
    ('rebound_elsewhere_then_mutated', [(E, before(DSG, 'plan_cache = None\n\ndef enable_plan_cache():\n    global plan_cache\n    plan_cache = {}\n\n')),
                                        (E, after(Q, "    if plan_cache is not None:\n        plan_cache[query_text] = 1\n"))], 'rbql_engine.plan_cache'),
    ('class_attr_rebound_on_class', [(E, ('class TopWriter(object):\n', 'class TopWriter(object):\n    total = 0\n')),
                                     (E, ('        if self.NW >= self.top_count:\n            return False\n        success', '        TopWriter.total += 1\n        if self.NW >= self.top_count:\n            return False\n        success'))], 'rbql_engine.TopWriter.total'),
    ('os_environ_store', [(E, after(Q, "    os.environ['RBQL_LAST'] = 'x'\n"))], 'ext:os.environ'),
    ('reflection_importlib', [(E, after(Q, "    import importlib\n    importlib.import_module('rbql.rbql_engine').query_counter = 1\n"))], 'REFUSED'),
    ('reflection_sys_modules', [(E, after(Q, "    sys.modules[__name__].query_counter = 1\n"))], 'REFUSED'),
    ('unknown_external_module', [(E, after(Q, "    import mmap\n    mmap.mmap(-1, 10)\n"))], 'REFUSED'),
    ('eval_call', [(E, after(Q, "    eval('1')\n"))], 'REFUSED'),
    ('decorator', [(E, before(DSG, 'import functools\n\n@functools.lru_cache(maxsize=None)\ndef _cached(x):\n    return x\n\n'))], 'REFUSED'),
    # ---------------- controls: must be accepted
    ('control_deepcopy', [(E, after(Q, "    import copy\n    g = copy.deepcopy(default_statement_groups)\n    g[0].append('X')\n"))], None),
    ('control_shallow_copy_outer', [(E, after(Q, "    g = list(default_statement_groups)\n    g.append([])\n    g.sort()\n"))], None),
    ('control_copy_of_inner', [(E, after(Q, "    x = default_statement_groups[0][:]\n    x.append('Y')\n"))], None),
    ('control_flatten_strings', [(E, after(Q, "    names = [s for grp in default_statement_groups for s in grp]\n    names.sort()\n    names.append('x')\n"))], None),
    ('control_per_instance_cache', [(E, ('        self.input_iterator = input_iterator\n', "        self.cache = {}\n        self.cache['q'] = user_init_code\n        self.input_iterator = input_iterator\n"))], None),
    ('control_alias_of_private_state', [(E, after(Q, "    aggs = query_context.functional_aggregators\n    aggs.append(None)\n    aggs.pop()\n"))], None),
    ('control_read_constant_dict', [(E, before(DSG, "LIMITS = {'a': 1}\n")), (E, after(Q, "    x = LIMITS.get('a')\n    y = [LIMITS['a'], x]\n    y.append(2)\n"))], None),
    ('control_write_under_debug_flag', [(E, before(DSG, "debug_log = []\n")), (E, after(Q, "    if debug_mode:\n        debug_log.append(query_text)\n"))], None),
    ('control_sorted_copy_iteration', [(E, after(Q, "    for g in sorted(default_statement_groups):\n        n = len(g)\n"))], None),
    ('control_local_list_in_closure', [(E, after(Q, "    acc = []\n    def push(x):\n        acc.append(x)\n    push(query_text)\n"))], None),
    ('control_new_helper_function', [(E, before(DSG, 'def _fresh_groups():\n    return [list(g) for g in default_statement_groups]\n\n\n')), (E, after(Q, "    gs = _fresh_groups()\n    gs[0].append('X')\n    gs.pop()\n"))], None),
    ('control_membership_and_len', [(E, after(Q, "    n = len(default_statement_groups) + (1 if [FROM] in default_statement_groups else 0)\n"))], None),
]


def run_variant(name, edits, scratch):
    d = os.path.join(scratch, name)
    shutil.rmtree(d, ignore_errors=True)
    shutil.copytree(os.path.join(REPO, 'rbql-py'), os.path.join(d, 'rbql-py'), ignore=shutil.ignore_patterns('__pycache__', '*.pyc'))
    for fname, (old, new) in edits:
        p = os.path.join(d, 'rbql-py', 'rbql', fname)
        s = open(p, encoding='utf-8').read()
        if old not in s:
            return 'ANCHOR-MISSING %s' % fname, None
        open(p, 'w', encoding='utf-8').write(s.replace(old, new, 1))
    out = os.path.join(d, 'out')
    env = dict(os.environ, VERIF_REPO=d, PYTHONDONTWRITEBYTECODE='1')
    r = subprocess.run([sys.executable, os.path.join(HERE, 'translate_shared.py'), out], capture_output=True, text=True, env=env, timeout=120)
    if r.returncode != 0:
        return 'REFUSED', r.stderr.strip()[-300:]
    facts = json.load(open(os.path.join(out, 'SharedFacts.json')))
    return 'TRANSLATED', facts['write_set_all_entries']


def main():
    sel = sys.argv[1] if len(sys.argv) > 1 else ''
    scratch = os.path.join(VERIF, 'build', 'gen', 'shared_variants_%d' % os.getpid())
    os.makedirs(scratch, exist_ok=True)
    bad = 0
    n = 0
    try:
        for name, edits, expect in VARIANTS:
            if sel not in name:
                continue
            n += 1
            st, info = run_variant(name, edits, scratch)
            if expect == 'REFUSED':
                ok = st == 'REFUSED'
                verdict = ('REFUSED: ' + (info or '')[-150:]) if ok else 'NOT REFUSED (%s)' % st
            elif st != 'TRANSLATED':
                ok = False
                verdict = '%s %s' % (st, info)
            elif expect is None:
                ok = not info
                verdict = 'ACCEPTED' if ok else 'FLAGGED %s' % sorted(info)
            else:
                ok = expect in info
                verdict = ('FLAGGED %s <- %s' % (expect, info[expect][0][:110])) if ok else 'NOT FLAGGED (write sets: %s)' % sorted(info)
            print('%-4s %-34s expected %-48s %s' % ('ok' if ok else 'BAD', name, expect or 'ACCEPTED', verdict))
            bad += 0 if ok else 1
    finally:
        shutil.rmtree(scratch, ignore_errors=True)
    print('%d / %d as expected' % (n - bad, n))
    return 1 if bad else 0


if __name__ == '__main__':
    sys.exit(main())
