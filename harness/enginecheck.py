# enginecheck.py - shared correspondence driver for the engine properties (C01-C06, C14, C15):
# model entry 300 (Engine.run over Expr.eval) vs rbql.query / rbql.query_table on the same case.
import copy
import json
import lib
import qmodel


def make_case(rng, qa, A, B=None, hdrA=None, hdrB=None, fail_at=None, also_table=False, endless=None, tags=()):
    rend = qmodel.Renderer('py', rng)
    q = rend.query(qa)
    return {'qa': qa, 'q': q, 'A': A, 'B': B, 'hdrA': hdrA, 'hdrB': hdrB, 'fail_at': fail_at,
            'also_table': also_table, 'endless': endless, 'tags': list(tags)}


def model_arg(c, hdr_out=None):
    return qmodel.enc_run(0, c['qa'], hdr_out, c.get('A_model') or c['A'], c['B'], c.get('fail_at'))


def canon_model(o):
    d = qmodel.dec_outcome(o)
    if d is None:
        return None
    for e in d['events']:
        if e[0] == 'W':
            e[1] = qmodel.frac_to_float_hex(e[1])
    return d


def floats_close(a, b, tol):
    """structural equality where {'f': hex} leaves may differ by tol"""
    if isinstance(a, dict) and isinstance(b, dict) and 'f' in a and 'f' in b:
        x, y = float.fromhex(a['f']), float.fromhex(b['f'])
        return abs(x - y) <= tol * max(1.0, abs(x), abs(y))
    if isinstance(a, list) and isinstance(b, list):
        return len(a) == len(b) and all(floats_close(x, y, tol) for x, y in zip(a, b))
    return a == b


def strip_header(events):
    return [e for e in events if e[0] != 'H']


def engine_rel(c, e, g):
    """the implementation's trace, error and pull count equal the model's (header event compared elsewhere: C07)"""
    if e is None:
        return True          # outside the modelled fragment: dropped (counted by the caller)
    if not isinstance(g, dict) or 'events' not in g:
        return False
    if g.get('sources_ok') is False or g.get('alias') is True:
        return False          # inputs modified, or an output row is an input row object ("fresh lists")
    tol = 1e-6 if 'approx' in c.get('tags', ()) else 0.0
    ev_e, ev_g = strip_header(e['events']), strip_header(g['events'])
    if tol:
        if not floats_close(ev_e, ev_g, tol):
            return False
    elif ev_e != ev_g:
        return False
    if e['error'] != g['error']:
        return False
    if 'pulls_le' in c.get('tags', ()):
        if g['pulls'] > e['pulls']:
            return False
    elif e['pulls'] != g['pulls']:
        return False
    if c.get('also_table') and 'table' in g and c.get('fail_at') is None:
        t = g['table']
        rows_e = [x[1] for x in ev_e if x[0] == 'W' and x[2]]
        if tol:
            if not floats_close(rows_e, t['rows'], tol):
                return False
        elif rows_e != t['rows']:
            return False
        if t['error'] != e['error']:
            return False
    return True


def describe(c, e, g):
    return 'query %r over A=%s B=%s fail_at=%s: model=%s implementation=%s' % (
        c['q'], json.dumps(c['A']), json.dumps(c['B']), c.get('fail_at'),
        json.dumps(e)[:400], json.dumps(g)[:400])


def shrink(c, e, g, rel=None):
    """greedy: drop rows of A and B while the disagreement persists"""
    rel = rel or engine_rel
    if c.get('_expected_warning') is not None or 'poison' in c.get('tags', ()) or 'static' in c.get('tags', ()) or 'headers' in c.get('tags', ()):
        return c, e, g      # the expectation (warning, planted record number) was computed for the whole table, or the headers were cut to the first records: do not shrink
    cur = c
    changed = True
    budget = 40
    while changed and budget > 0:
        changed = False
        for name in ('A', 'B'):
            t = cur.get(name)
            if not t:
                continue
            for i in range(len(t)):
                budget -= 1
                if budget <= 0:
                    break
                cand = dict(cur)
                cand[name] = t[:i] + t[i + 1:]
                e1, g1 = eval_one(cand)
                if e1 is not None and not rel(cand, e1, g1):
                    cur, e, g = cand, e1, g1
                    changed = True
                    break
            if changed:
                break
    return cur, e, g


def eval_one(c):
    m = lib.run_model(300, [model_arg(c)], shards=1)[0]
    g = lib.run_impl_py('engine', [c], shards=1)[0]
    return canon_model(m), g


def evaluate(ctx, cases, theorem, rel=None, nontrivial=None, vm_n=40, extra_rel=None):
    """run model and implementation on the cases and compare; returns (expected, got)"""
    rel0 = rel or engine_rel
    if extra_rel:
        relf = lambda c, e, g: rel0(c, e, g) and extra_rel(c, e, g)
    else:
        relf = rel0
    args = [model_arg(c) for c in cases]
    model = lib.run_model(300, args)
    exp = [canon_model(m) for m in model]
    got = lib.run_impl_py('engine', cases)
    ctx.compare(cases, exp, got, theorem, rel=relf, describe=describe,
                shrink=lambda c, e, g: shrink(c, e, g, relf),
                corrupt=lambda e: {'events': [['F'], ['F']], 'pulls': -1, 'error': ['CANARY', 0, None]} if e is None else dict(e, error=['CANARY', 0, None]))
    ctx.cross_check_vm(300, args, model, n=vm_n)
    for c, e, g in zip(cases, exp, got):
        ctx.count()
        if e is None:
            ctx.stat('dropped_unmodelled')
            continue
        kind = c['qa']['kind'][0]
        ctx.stat('kind_' + kind)
        ctx.stat('rowsA_%d' % min(len(c['A']), 8))
        if e['error']:
            ctx.stat('error_%s' % e['error'][0])
        else:
            ctx.stat('ok')
        nrows = sum(1 for x in e['events'] if x[0] == 'W')
        if nontrivial is None:
            nt = nrows > 0 or e['error'] is not None
        else:
            nt = nontrivial(c, e)
        if nt:
            ctx.nontriv((c['q'], json.dumps(c['A']), json.dumps(c['B']), c.get('fail_at')))
    return exp, got


def replay(ctx, case, theorem, rel=None):
    e, g = eval_one(case)
    ctx.count()
    ctx.compare([case], [e], [g], theorem, rel=rel or engine_rel, describe=describe)
