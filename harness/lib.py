# lib.py - shared machinery of the RBQL verification checks (stdlib only, runs under python3).
#
#   build            : make in coq/ (full .vo build), hygiene grep, extraction -> OCaml model binary
#   obligations      : re-run coqc on Props/<ID>.v, collect theorem names and Print Assumptions output
#   model runners    : extracted binary (volume) and `Eval vm_compute` in generated cases files (sample)
#   impl runners     : fresh /venv/bin/python processes with PYTHONPATH=<repo>/rbql-py, node for rbql-js
#   comparison       : property-shaped relation with planted canaries
#   evidence/replay  : evidence/<ID>.json, evidence/replays/<ID>-<hash>.json, VIOLATION / KNOWN-FINDING lines
import fcntl
import hashlib
import json
import os
import random
import re
import shutil
import subprocess
import sys
import time

VERIF = os.path.dirname(os.path.dirname(os.path.abspath(__file__)))
REPO = os.environ.get('VERIF_REPO', '/repo')
COQ = os.path.join(VERIF, 'coq')
BUILD = os.path.join(VERIF, 'build')
EVID = os.environ.get('VERIF_EVIDENCE_DIR') or os.path.join(VERIF, 'evidence')   # (the registered commands never set VERIF_EVIDENCE_DIR / VERIF_REPO: mutation rehearsal only)
REPLAYS = os.path.join(EVID, 'replays')
VENV_PY = '/venv/bin/python'
NCPU = min(16, os.cpu_count() or 4)

FORBIDDEN = re.compile(r'\b(Admitted|admit|Axiom|Axioms|Parameter|Parameters|Conjecture|Conjectures|Admit Obligations|bypass_check|native_compute)\b|Unset\s+Guard|Unset\s+Positivity|Unset\s+Universe|type-in-type|impredicative-set')
# standard-library axioms a theorem may depend on (none needed so far); anything else fails the check
AXIOM_ALLOW = set()

TRUSTED_BASE = [
    'Coq 8.16.1 kernel (coqc, Debian build), full .vo build; vm_compute used for witnesses, non-vacuity examples and the per-run sample cross-check; native_compute not used',
    'axioms: none (every theorem in Props/ prints "Closed under the global context"; allow-list empty)',
    'extraction: ExtrOcamlBasic only (Extract Inductive bool/option/unit/list/prod/sumbool/sumor, Extract Inlined Constant andb/orb/negb/fst/snd); N, nat, Z, positive stay inductive; ocaml/driver.ml (sexp reader/printer; decimal <-> N of any size through the extracted N.add / N.mul / N.div_eucl); ocamlfind ocamlopt',
    'hand-written model tied to /repo by the correspondence run only (sampling + bounded enumeration); regex engines, CPython/V8 evaluation, io/codecs are modelled, not verified',
    'harness: generators, drivers, canonicalisation, comparison (python3 / node), guarded by planted canaries',
]


class CheckFailure(Exception):
    pass


def sh(cmd, timeout=None, cwd=None, env=None, input=None):
    p = subprocess.run(cmd, cwd=cwd, env=env, input=input, stdout=subprocess.PIPE, stderr=subprocess.STDOUT,
                       timeout=timeout, text=True)
    return p.returncode, p.stdout


# ------------------------------------------------------------------ build

def _lock():
    os.makedirs(BUILD, exist_ok=True)
    f = open(os.path.join(BUILD, '.lock'), 'w')
    fcntl.flock(f, fcntl.LOCK_EX)
    return f


def hygiene():
    bad = []
    for root, _d, files in os.walk(os.path.join(COQ, 'theories')):
        for fn in files:
            if not fn.endswith('.v'):
                continue
            path = os.path.join(root, fn)
            depth = 0
            for ln, line in enumerate(open(path, encoding='utf-8'), 1):
                code = re.sub(r'\(\*.*?\*\)', '', line)
                if FORBIDDEN.search(code):
                    bad.append('%s:%d: %s' % (path, ln, line.strip()))
                if re.match(r'\s*Section\b', code):
                    depth += 1
                if re.match(r'\s*End\b', code) and depth > 0:
                    depth -= 1
                if re.match(r'\s*(Variable|Variables|Hypothesis|Hypotheses|Context)\b', code) and depth == 0:
                    bad.append('%s:%d: %s outside a Section' % (path, ln, line.strip()))
    return bad


def write_coqproject():
    """_CoqProject lists every theories/**/*.v (generated, so that adding a file needs no shared edit)"""
    files = []
    for root, _d, fns in os.walk(os.path.join(COQ, 'theories')):
        for fn in fns:
            if fn.endswith('.v'):
                files.append(os.path.relpath(os.path.join(root, fn), COQ))
    text = '-Q theories RBQL\n' + '\n'.join(sorted(files)) + '\n'
    p = os.path.join(COQ, '_CoqProject')
    if not os.path.exists(p) or open(p).read() != text:
        with open(p, 'w') as f:
            f.write(text)


def build(clean=False):
    """Full (incremental) .vo build + extraction + OCaml binary. Returns (ok, log)."""
    lock = _lock()
    try:
        log = []
        bad = hygiene()
        if bad:
            return False, 'hygiene check failed:\n' + '\n'.join(bad)
        if clean:
            sh(['bash', '-c', 'cd %s && [ -f Makefile ] && make clean >/dev/null 2>&1; rm -f Makefile Makefile.conf .*.d model.ml model.mli' % COQ])
        write_coqproject()
        rc, out = sh(['bash', '-c', 'cd %s && coq_makefile -f _CoqProject -o Makefile > /dev/null && ulimit -s unlimited; timeout 3000 make -j%d 2>&1' % (COQ, NCPU)], timeout=3100)
        log.append(out[-4000:])
        if rc != 0:
            return False, 'make failed (rc=%d):\n%s' % (rc, out[-6000:])
        od = os.path.join(BUILD, 'ocaml')
        os.makedirs(od, exist_ok=True)
        src_ml = os.path.join(COQ, 'model.ml')
        binp = os.path.join(od, 'modelrun')
        need = not os.path.exists(binp)
        for fn in ('model.ml', 'model.mli'):
            s = os.path.join(COQ, fn)
            d = os.path.join(od, fn)
            if not os.path.exists(s):
                return False, 'extraction output %s missing' % s
            if not os.path.exists(d) or open(s).read() != open(d).read():
                shutil.copy(s, d)
                need = True
        drv = os.path.join(VERIF, 'ocaml', 'driver.ml')
        dd = os.path.join(od, 'driver.ml')
        if not os.path.exists(dd) or open(drv).read() != open(dd).read():
            shutil.copy(drv, dd)
            need = True
        if need:
            rc, out = sh(['bash', '-c', 'cd %s && timeout 600 ocamlfind ocamlopt -w -a model.mli model.ml driver.ml -o modelrun 2>&1' % od], timeout=700)
            if rc != 0:
                return False, 'ocaml build failed:\n' + out[-4000:]
        return True, '\n'.join(log)
    finally:
        lock.close()


def obligations(pid):
    """Re-check Props/<pid>.v against the built .vo files; returns dict with theorem names and assumption status."""
    src = os.path.join(COQ, 'theories', 'Props', pid + '.v')
    res = {'file': src, 'theorems': [], 'ok': False, 'log': '', 'axioms': {}}
    if not os.path.exists(src):
        res['log'] = 'missing ' + src
        return res
    text = open(src, encoding='utf-8').read()
    code = re.sub(r'\(\*.*?\*\)', '', text, flags=re.S)
    names = re.findall(r'^\s*(?:Theorem|Lemma|Example|Corollary)\s+([A-Za-z0-9_\']+)', code, flags=re.M)
    res['theorems'] = names
    printed = re.findall(r'Print Assumptions\s+([A-Za-z0-9_\']+)', code)
    missing = [n for n in names if n not in printed]
    outdir = os.path.join(BUILD, 'props')
    os.makedirs(outdir, exist_ok=True)
    tmp = os.path.join(outdir, pid + '_recheck.v')
    shutil.copy(src, tmp)
    rc, out = sh(['bash', '-c', 'cd %s && ulimit -s unlimited; timeout 600 coqc -Q %s RBQL %s 2>&1' % (outdir, os.path.join(COQ, 'theories'), tmp)], timeout=700)
    res['log'] = out[-3000:]
    if rc != 0:
        res['log'] = 'coqc failed on Props/%s.v:\n%s' % (pid, out[-3000:])
        return res
    # split the output into one block per Print Assumptions, in order
    blocks = re.split(r'(?=Closed under the global context|Axioms:)', out)
    blocks = [b for b in blocks if b.startswith('Closed under') or b.startswith('Axioms:')]
    if len(blocks) != len(printed):
        res['log'] = 'Print Assumptions blocks (%d) != commands (%d)\n%s' % (len(blocks), len(printed), out[-2000:])
        return res
    ok = not missing
    if missing:
        res['log'] = 'theorems without Print Assumptions: %s' % missing
    for name, b in zip(printed, blocks):
        if b.startswith('Closed under'):
            res['axioms'][name] = []
        else:
            ax = re.findall(r'^([A-Za-z0-9_.\']+)\s*:', b, flags=re.M)
            ax = [a for a in ax if a != 'Axioms']
            res['axioms'][name] = ax
            if any(a not in AXIOM_ALLOW for a in ax):
                ok = False
                res['log'] += '\n%s depends on non-allowed axioms %s' % (name, ax)
    res['ok'] = ok
    return res


def coqchk(pid):
    """thorough tier: re-check the compiled closure of Props/<pid>.vo with the independent checker and list the axioms it reports"""
    rc, out = sh(['bash', '-c', 'cd %s && ulimit -s unlimited; timeout 3000 coqchk -o -silent -Q theories RBQL RBQL.Props.%s 2>&1' % (COQ, pid)], timeout=3100)
    ok = rc == 0 and 'Axioms: <none>' in out and 'type-in-type: <none>' in out and 'unsafe (co)fixpoints: <none>' in out and 'positivity is assumed: <none>' in out
    return ok, out[-1500:]


# ------------------------------------------------------------------ sx encoding

def enc(x):
    """python value -> sexp text. int -> atom; str -> list of code points; bool -> 0/1; list/tuple -> list; None -> ()"""
    if x is True:
        return '1'
    if x is False:
        return '0'
    if x is None:
        return '()'
    if isinstance(x, int):
        assert x >= 0, x
        return str(x)
    if isinstance(x, str):
        return '(' + ' '.join(str(ord(c)) for c in x) + ')'
    if isinstance(x, (list, tuple)):
        return '(' + ' '.join(enc(y) for y in x) + ')'
    if isinstance(x, Z):
        return '(%d %d)' % (1 if x.v < 0 else 0, abs(x.v))
    if isinstance(x, Opt):
        return '()' if x.v is None else '(' + enc(x.v) + ')'
    if isinstance(x, Raw):
        return x.v
    raise TypeError(repr(x))


class Z:
    def __init__(self, v):
        self.v = v


class Opt:
    def __init__(self, v):
        self.v = v


class Raw:
    def __init__(self, v):
        self.v = v


def parse_sexp(s):
    toks = re.findall(r'\(|\)|\d+', s)
    pos = 0

    def val():
        nonlocal pos
        t = toks[pos]
        pos += 1
        if t == '(':
            items = []
            while toks[pos] != ')':
                items.append(val())
            pos += 1
            return items
        return int(t)
    return val()


def to_coq(x_sexp_text):
    """sexp text -> Coq term of type sx"""
    toks = re.findall(r'\(|\)|\d+', x_sexp_text)
    pos = 0

    def val():
        nonlocal pos
        t = toks[pos]
        pos += 1
        if t == '(':
            items = []
            while toks[pos] != ')':
                items.append(val())
            pos += 1
            return 'L [' + '; '.join(items) + ']'
        return 'A ' + t
    return val()


def parse_coq_sx_list(out):
    """parse the printed result of `Eval vm_compute in map ... : list sx` into python nested lists"""
    i = out.index('=')
    j = out.rindex(': list sx')
    body = out[i + 1:j].replace('%N', '')
    toks = re.findall(r'\[|\]|;|L|A|\d+', body)
    pos = 0

    def sx():
        nonlocal pos
        t = toks[pos]
        pos += 1
        if t == 'A':
            v = int(toks[pos])
            pos += 1
            return v
        if t == 'L':
            return lst()
        raise ValueError('unexpected token %r' % t)

    def lst():
        nonlocal pos
        assert toks[pos] == '[', toks[pos]
        pos += 1
        items = []
        if toks[pos] == ']':
            pos += 1
            return items
        while True:
            items.append(sx())
            t = toks[pos]
            pos += 1
            if t == ']':
                return items
            assert t == ';', t
    return lst()


def dec_str(x):
    return ''.join(chr(c) for c in x)


def dec_Z(x):
    return -x[1] if x[0] else x[1]


# ------------------------------------------------------------------ model runners

def _shards(items, n):
    n = max(1, min(n, len(items)))
    k = (len(items) + n - 1) // n
    return [items[i:i + k] for i in range(0, len(items), k)]


def run_model(code, args, shards=NCPU):
    """args: list of sexp texts. Returns list of parsed results (nested python lists / ints)."""
    if not args:
        return []
    binp = os.path.join(BUILD, 'ocaml', 'modelrun')
    parts = _shards(args, shards)
    procs = []
    for part in parts:
        p = subprocess.Popen(['bash', '-c', 'ulimit -s unlimited; exec ' + binp], stdin=subprocess.PIPE, stdout=subprocess.PIPE, text=True)
        procs.append(p)
    # feed in threads to avoid pipe deadlocks
    import threading
    outs = [None] * len(parts)

    def feed(i):
        data = ''.join('%d %s\n' % (code, a) for a in parts[i])
        outs[i], _ = procs[i].communicate(data)
    ths = [threading.Thread(target=feed, args=(i,)) for i in range(len(parts))]
    for t in ths:
        t.start()
    for t in ths:
        t.join()
    res = []
    for i, part in enumerate(parts):
        if procs[i].returncode != 0:
            raise CheckFailure('model binary failed (rc=%s) on shard %d' % (procs[i].returncode, i))
        lines = outs[i].split('\n')
        if lines and lines[-1] == '':
            lines.pop()
        if len(lines) != len(part):
            raise CheckFailure('model binary returned %d lines for %d cases' % (len(lines), len(part)))
        res.extend(parse_sexp(l) for l in lines)
    return res


def run_model_vm(code, args, tag):
    """Evaluate the same entry point inside Coq with vm_compute (sample cross-check)."""
    if not args:
        return []
    d = os.path.join(BUILD, 'vm')
    os.makedirs(d, exist_ok=True)
    res = []
    chunk = 250
    jobs = []
    for k in range(0, len(args), chunk):
        name = 'cases_%s_%d_%d' % (tag, os.getpid(), k)
        path = os.path.join(d, name + '.v')
        with open(path, 'w') as f:
            f.write('From RBQL Require Import Base Sx Entry.\nOpen Scope N_scope.\n')
            f.write('Definition cases : list sx := [\n' + ';\n'.join(to_coq(a) for a in args[k:k + chunk]) + '].\n')
            f.write('Eval vm_compute in map (dispatch %d) cases.\n' % code)
        p = subprocess.Popen(['bash', '-c', 'cd %s && ulimit -s unlimited; timeout 900 coqc -Q %s RBQL %s 2>&1' % (d, os.path.join(COQ, 'theories'), path)],
                             stdout=subprocess.PIPE, text=True)
        jobs.append((name, p))
    for name, p in jobs:
        out, _ = p.communicate()
        for ext in ('.v', '.vo', '.vok', '.vos', '.glob'):
            try:
                os.remove(os.path.join(d, name + ext))
            except OSError:
                pass
        try:
            os.remove(os.path.join(d, '.' + name + '.aux'))
        except OSError:
            pass
        if p.returncode != 0:
            raise CheckFailure('vm_compute cases file failed:\n' + out[-2000:])
        res.extend(parse_coq_sx_list(out))
    return res


# ------------------------------------------------------------------ implementation runners

def impl_env():
    env = dict(os.environ)
    env['PYTHONPATH'] = os.path.join(REPO, 'rbql-py')
    env['PYTHONHASHSEED'] = '0'
    env['VERIF_REPO'] = REPO
    env['RBQL_VERIF'] = '1'
    env['PYTHONDONTWRITEBYTECODE'] = '1'
    env['HOME'] = os.path.join(BUILD, 'home')     # no ~/.rbql_init_source.py, no ~/.rbql_table_names
    if os.environ.get('VERIF_COVERAGE'):
        # development aid (harness/coverage_report.py; never set by the registered commands): which lines of the implementation the
        # correspondence runs execute - a line no run reaches is a place where no change can be seen
        env['PYTHONPATH'] = env['PYTHONPATH'] + os.pathsep + os.path.join(VERIF, 'harness', 'cov')
        env['NODE_V8_COVERAGE'] = os.path.join(os.environ['VERIF_COVERAGE'], 'v8')
    os.makedirs(env['HOME'], exist_ok=True)
    return env


def _run_sharded(cmd_prefix, cases, shards, timeout, extra_env=None, mem_limit=None):
    if not cases:
        return []
    parts = _shards(cases, shards)
    d = os.path.join(BUILD, 'io')
    os.makedirs(d, exist_ok=True)
    env = impl_env()
    if extra_env:
        env.update(extra_env)
    procs = []
    for i, part in enumerate(parts):
        inp = os.path.join(d, 'in_%d_%d.json' % (os.getpid(), i))
        outp = os.path.join(d, 'out_%d_%d.json' % (os.getpid(), i))
        with open(inp, 'w') as f:
            json.dump(part, f)
        p = subprocess.Popen(cmd_prefix + [inp, outp], env=env, stdout=subprocess.PIPE, stderr=subprocess.STDOUT, text=True, cwd=d,
                             preexec_fn=(lambda: _limit_memory(mem_limit)) if mem_limit else None)
        procs.append((p, inp, outp, part))
    res = []
    err = None
    for p, inp, outp, part in procs:
        try:
            out, _ = p.communicate(timeout=timeout)
        except subprocess.TimeoutExpired:
            p.kill()
            out, _ = p.communicate()
            err = 'implementation driver timed out: ' + ' '.join(cmd_prefix)
        if p.returncode != 0 and err is None:
            err = 'implementation driver failed (rc=%s): %s\n%s' % (p.returncode, ' '.join(cmd_prefix), (out or '')[-3000:])
        if err is None:
            with open(outp) as f:
                r = json.load(f)
            if len(r) != len(part):
                err = 'driver returned %d results for %d cases' % (len(r), len(part))
            res.extend(r)
        for x in (inp, outp):
            try:
                os.remove(x)
            except OSError:
                pass
    if err:
        raise CheckFailure(err)
    return res


def _limit_memory(nbytes):
    """address-space limit of a driver process (optional): a defect that makes a query grow a list for ever then ends as a
    MemoryError inside the query instead of exhausting the machine"""
    import resource
    resource.setrlimit(resource.RLIMIT_AS, (nbytes, nbytes))


def run_impl_py(module, cases, shards=NCPU, timeout=1800, extra_env=None, mem_limit=None):
    drv = os.path.join(VERIF, 'harness', 'impl', 'py_driver.py')
    return _run_sharded([VENV_PY, drv, module], cases, shards, timeout, extra_env, mem_limit)


def run_impl_js(module, cases, shards=NCPU, timeout=1800, extra_env=None):
    drv = os.path.join(VERIF, 'harness', 'impl', 'js_driver.js')
    return _run_sharded(['node', drv, module], cases, shards, timeout, extra_env)


# ------------------------------------------------------------------ context: comparison, evidence, replay

def load_known_findings():
    p = os.path.join(VERIF, 'known_findings.json')
    if not os.path.exists(p):
        return []
    return json.load(open(p)).get('findings', [])


class Ctx:
    def __init__(self, pid, tier, seed):
        self.pid = pid
        self.tier = tier
        self.seed = seed
        self.rng = random.Random(seed * 1000003 + int(hashlib.sha1(pid.encode()).hexdigest()[:8], 16))
        self.t0 = time.time()
        self.evaluations = 0
        self.nontrivial = set()
        self.samples = []
        self.violations = []          # (replay_path, summary)
        self.known_hits = {}          # finding id -> count
        self.stats = {}
        self.rule = ''
        self.canaries_planted = 0
        self.canaries_caught = 0
        self.vm_checked = 0
        self.traces = 0
        self.notes = []
        self.exhaustive = None
        self.generated_obligations = {}   # name -> True (closed under the global context) / False; theorems of a file regenerated by this run
        self.generated_checker = None
        self.known = [f for f in load_known_findings() if f.get('property') == pid]

    # -- statistics
    def stat(self, key, n=1):
        self.stats[key] = self.stats.get(key, 0) + n

    def count(self, n=1):
        self.evaluations += n

    def nontriv(self, key):
        if len(self.nontrivial) < 2000000:
            self.nontrivial.add(hashlib.sha1(repr(key).encode()).digest()[:8])

    def sample(self, obj):
        if len(self.samples) < 6:
            self.samples.append(obj)

    # -- reporting
    def violation(self, case, expected, got, theorem, what, no_input=False):
        if len(self.violations) >= 5:          # keep the first few replays; count the rest
            self.violations.append((None, what))
            return
        os.makedirs(REPLAYS, exist_ok=True)
        blob = json.dumps({'case': case}, sort_keys=True, default=str)
        h = hashlib.sha1(blob.encode()).hexdigest()[:12]
        path = os.path.join(REPLAYS, '%s-%s.json' % (self.pid, h))
        with open(path, 'w') as f:
            json.dump({'property': self.pid, 'case': case, 'expected_by_model': expected, 'implementation': got,
                       'theorem': theorem, 'what': what, 'seed': self.seed, 'tier': self.tier,
                       'no_failing_input_found': bool(no_input)}, f, indent=1, default=str)
        try:
            print('VIOLATION property=%s replay=%s%s' % (self.pid, path, ' no-failing-input-found' if no_input else ''))
            print('  # ' + what[:600].replace('\n', ' '))
            sys.stdout.flush()
        except BrokenPipeError:
            pass
        self.violations.append((path, what))

    def obligation_failed(self, names, detail, theorem, case=None):
        """a proof obligation (of Props/<ID>.v or of a file generated by this run) no longer checks and no concrete failing
        input was found: VIOLATION ... no-failing-input-found; the replay file names the obligation"""
        c = dict(case or {})
        c['broken_obligations'] = list(names)
        self.violation(c, None, None, theorem, 'proof obligations no longer check: %s: %s' % (', '.join(names), detail[-1500:]), no_input=True)

    def sample_safe(self, make):
        """an evidence sample must never turn into an alarm: index / type errors while building it are swallowed"""
        try:
            self.sample(make())
        except Exception:
            pass

    def known_finding(self, fid):
        self.known_hits[fid] = self.known_hits.get(fid, 0) + 1

    def is_known(self, fid):
        return any(f.get('id') == fid and f.get('status') == 'known' for f in self.known)

    # -- comparison with planted canaries
    def compare(self, cases, expected, got, theorem, rel=None, describe=None, classify=None, corrupt=None, shrink=None):
        """expected[i] (model) vs got[i] (implementation) under rel (default equality).
        classify(case, exp, got) may return a known-finding id for a disagreement."""
        if rel is None:
            rel = lambda c, e, g: e == g
        assert len(cases) == len(expected) == len(got), (len(cases), len(expected), len(got))
        # canary: the comparator must flag a corrupted expectation. A relation may legitimately ignore the expectation on
        # SOME cases (e.g. no header to compare when the run failed), so up to 25 cases are tried and at least one corrupted
        # expectation must be flagged per comparator call; a comparator that never looks at the expectation fails the check.
        n = len(cases)
        if n:
            self.canaries_planted += 1
            flagged = False
            for i in [self.rng.randrange(n) for _ in range(min(25, n))]:
                bad = corrupt(expected[i]) if corrupt else ['CANARY', expected[i]]
                try:
                    flagged = not rel(cases[i], bad, got[i])
                except Exception:
                    flagged = True
                if flagged:
                    break
            if flagged:
                self.canaries_caught += 1
            elif os.environ.get('VERIF_DEBUG_CANARY'):
                sys.stderr.write('CANARY MISSED theorem=%s\n' % theorem)
        for c, e, g in zip(cases, expected, got):
            if rel(c, e, g):
                continue
            fid = classify(c, e, g) if classify else None
            if fid and self.is_known(fid):
                self.known_finding(fid)
                continue
            if shrink and len(self.violations) < 5 and not os.environ.get('VERIF_NO_SHRINK'):      # (debugging aid: see the unshrunk case)
                try:
                    r = shrink(c, e, g)
                    if r is not None:
                        c, e, g = r
                except Exception:
                    pass
            what = describe(c, e, g) if describe else 'model (proved = spec) and implementation differ'
            self.violation(c, e, g, theorem, what)

    def cross_check_vm(self, code, args, native_results, n=200):
        """re-evaluate a sample inside Coq and compare with the extracted binary's results"""
        if not args:
            return
        idx = list(range(len(args)))
        self.rng.shuffle(idx)
        idx = idx[:n]
        vm = run_model_vm(code, [args[i] for i in idx], self.pid)
        for k, i in enumerate(idx):
            self.vm_checked += 1
            if vm[k] != native_results[i]:
                self.violation({'model_arg': args[i]}, vm[k], native_results[i], 'extraction cross-check',
                               'extracted OCaml model and vm_compute disagree (model tie broken)', no_input=True)
                break

    # -- finish
    def finish(self, obl, build_log=''):
        chk = None
        if self.tier == 'thorough' and obl['ok']:
            okc, outc = coqchk(self.pid)
            chk = {'cmd': 'coqchk -o -silent -Q theories RBQL RBQL.Props.%s' % self.pid, 'ok': okc, 'summary': outc[-700:]}
            if not okc:
                self.violation({'coqchk': self.pid}, None, None, 'coqchk', 'coqchk does not accept the compiled closure of Props/%s.vo or reports axioms: %s' % (self.pid, outc[-800:]), no_input=True)
        wall = time.time() - self.t0
        n_obl = len(obl['theorems']) + len(self.generated_obligations)
        discharged = (len(obl['theorems']) if obl['ok'] else 0) + sum(1 for v in self.generated_obligations.values() if v)
        if not obl['ok']:
            self.violation({'props_file': obl['file']}, None, None, 'Props/%s.v' % self.pid,
                           'proof obligations no longer check: ' + obl['log'][-1500:], no_input=True)
        if self.canaries_planted and self.canaries_caught != self.canaries_planted:
            self.violation({'canaries': [self.canaries_planted, self.canaries_caught]}, None, None, 'harness canary',
                           'comparator failed to flag a planted canary', no_input=True)
        for fid, cnt in sorted(self.known_hits.items()):
            f = [x for x in self.known if x.get('id') == fid][0]
            print('KNOWN-FINDING: property=%s %s: %s (%d cases this run)' % (self.pid, fid, f.get('what_fails', ''), cnt))
        for f in self.known:
            if f.get('status') == 'known' and f.get('id') not in self.known_hits and f.get('always_report', True):
                print('KNOWN-FINDING: property=%s %s: %s' % (self.pid, f.get('id'), f.get('what_fails', '')))
        cov = {
            'obligations': n_obl,
            'discharged': discharged,
            'checker_cmd': 'cd /verif/coq && coq_makefile -f _CoqProject -o Makefile && make -j16  (full .vo build); coqc -Q theories RBQL theories/Props/%s.v (re-run on every check, Print Assumptions parsed)' % self.pid,
            'trusted_base': TRUSTED_BASE,
            'theorems': obl['theorems'],
            'axioms_per_theorem': obl['axioms'],
            'evaluations': self.evaluations,
            'distinct_nontrivial': len(self.nontrivial),
            'rule': self.rule,
            'samples': self.samples if self.samples else [{'obligation': t} for t in obl['theorems'][:3]],
            'traces_validated_against_impl': self.traces if self.traces else self.evaluations,
            'branch_and_input_statistics': self.stats,
            'canaries_planted': self.canaries_planted,
            'canaries_caught': self.canaries_caught,
            'vm_compute_cross_checked': self.vm_checked,
            'known_findings_hit': self.known_hits,
            'notes': self.notes,
        }
        if self.generated_obligations:
            cov['generated_theorems'] = sorted(self.generated_obligations)
            cov['generated_theorems_failed'] = sorted(k for k, v in self.generated_obligations.items() if not v)
            if self.generated_checker:
                cov['checker_cmd'] += '; ' + self.generated_checker
        if chk is not None:
            cov['coqchk'] = chk
        if self.exhaustive is not None:
            cov['exhaustive'] = self.exhaustive
        ev = {
            'property_id': self.pid, 'tier': self.tier, 'seed': self.seed, 'level': 'proof',
            'coverage': cov,
            'assumptions': TRUSTED_BASE,
            'wall_s': round(wall, 2),
            'violations': len(self.violations),
        }
        os.makedirs(EVID, exist_ok=True)
        tmp = os.path.join(EVID, self.pid + '.json.tmp')
        with open(tmp, 'w') as f:
            json.dump(ev, f, indent=1, default=str)
        os.replace(tmp, os.path.join(EVID, self.pid + '.json'))
        return 1 if self.violations else 0
