#!/usr/bin/env python3
# translate_heap.py <out_dir>  - fail-closed translator from the RBQL implementation (Python and JavaScript) to the heap IR
# of coq/theories/Heap.v.  Repo root: env VERIF_REPO (default /repo).  Writes <out_dir>/HeapFacts.v (IR terms, one
# obligation  gen_<program>_safe : safe [] <program> = true  per program, one  gen_<lang>_<Class>_ok  per writer class,
# the instantiated corollaries gen_<program>_sources_unchanged) and <out_dir>/HeapFacts.json (names, variable maps).
# python3 stdlib only (plus node for the JavaScript code generator, see below).  Exit 0: files written; exit 2: translation
# refused (message names file:line).
#
# WHAT IS READ (nothing is cached; everything is re-read on every run)
#   1. The main-loop code.  For a fixed list of representative queries (PROGRAMS below: every star form, EXCEPT, UPDATE with
#      one/several assignments, inner/left/strict-left JOIN, TOP/DISTINCT/DISTINCT COUNT/ORDER BY, aggregates, UNNEST) the
#      REAL generator of the implementation is run: rbql_engine.shallow_parse_input_query + generate_main_loop_code (Python,
#      imported from $VERIF_REPO/rbql-py) and the same two functions of rbql.js (through harness/impl/heap_gen.js).  So the
#      templates MAIN_LOOP_BODY / PROCESS_SELECT_* / PROCESS_UPDATE_* are composed, and the select / update / except /
#      init-variable expressions are produced, by the implementation's own embed_code / translate_select_expression /
#      translate_update_expression / translate_except_expression / generate_init_statements.  User sub-expressions are the
#      plain names of the queries (a1, a2, NR, b2 ...): opaque scalars.
#   2. The definitions the generated code calls, from the source text: safe_get, safe_set, select_except, select_simple,
#      select_unnested, select_aggregated ... - every call of a function defined in rbql_engine.py / rbql.js is inlined.
#   3. The writer classes (write / finish and every method they call): TopWriter, UniqWriter, UniqCountWriter, SortedWriter,
#      AggregateWriter, TableWriter (rbql_engine.py, rbql.js), CSVWriter (rbql_csv.py, rbql_csv.js).
#   Python is parsed with ast, JavaScript with harness/jsmini.py (a small fail-closed parser that produces the same ast node
#   classes, so one set of rules serves both).
#
# THE RULES (what becomes which IR statement)
#   LV names ("list variables of interest") of a function: the names record_a record_b star_fields out_fields up_fields fields
#   record; every name used in a list position in that function (base of x[..], x.length, len(x), receiver of a mutating or
#   copying method, iterated, destructured, emitted, operand of list +); every name assigned from a list-valued expression
#   (LV name, copy, concatenation, display, comprehension, get_record / get_rhs call); every parameter bound to one at a call.
#   Also: every LOCAL name that is an argument of a call to untranslated code (unknown function / method / constructor) or of a
#   RESOLVED method (calls rule) - so a cell that travels through a local to such a callee is judged as a cell.
#   Never: self this query_context.  Every other name is UNTRACKED: its value is treated as an opaque cell value (it may BE a
#   source cell); an untracked value may be kept anywhere, but whatever is read back from untracked state is a CELL unless
#   element trust (below) proves the position.
#   DEPTH of an LV name (flow-insensitive MAXIMUM over its binding sites and over everything stored into it; an UPPER bound):
#   1 = a flat row (get_record(), copies / concatenations of rows, displays without LV elements, a write(..) parameter named
#   like a row), 2 = a container of rows, 3 = get_rhs(..); unknown (99) for anything read back from untracked state.  It is
#   used only to let a CELL into a flat row without a statement (store rule).
#   ELEMENT TRUST - SHAPE of a value (flow-insensitive MEET over its binding sites and store sites; a LOWER bound; greatest
#   fixpoint; see "shapes" in the code):  A = untrusted (an atom, a cell, anything that came through an untracked name or unknown
#   code);  S(pre; s1..sn) = a tracked list object: elements of shape pre, then n fixed last positions (an exact tuple / display
#   when pre is empty);  M(k, v) = a tracked map.  x[i] / x[x.length-1] / x[-1] / iteration / destructuring / x.pop() / m.get(k) is
#   classified STEP BY STEP: the result is RElem (an owned object, clean iff the container is) ONLY when that position has a
#   tracked shape, i.e. at EVERY binding site and store site it syntactically holds a tracked list object (which was SStore'd,
#   or is a new display / copy); in every other case it is RCell (never clean) - so the cells of a row, a row that was made
#   "deeper" by storing a list into it, the sort key next to the record in (key, record), a value read back from an attribute
#   that some site assigns an untracked value, are all CELLS.  (RElem also still needs DEPTH > 1.)
#   Writer state: ATTR_SHAPES[(class, X)] = the meet over ALL store sites of attribute X in ALL methods (constructors and
#   untranslated methods included) of the writer classes and of the classes of the RESOLVED methods: self.X = v, self.X.append(v),
#   self.X[k] = v, self.X.set(k, v), self.X[k].append(v), also through a local alias name = self.X; RET_SHAPES[(class, m)] = the
#   meet of what method m returns (self.m() is read with it).  A deeper store through state makes X untrusted.  `self.X` itself is
#   RLoad unless some site assigns it an untrusted value.  For query_context.writer / a writer local the class is not known: the
#   meet over all classes that have X.
#   Rule R (aliases): the shape of a NAME is only that name's view.  A name that is MUTATED (method call, x[i] = v, del, +=) must
#   see every object it may alias (binding from another name, from state, from an element, from a parameter: each alternative
#   of c ? a : b / a or b is a site of its own) at exactly the shape that source promises (same trust skeleton); if its view lost
#   a trusted position, or it is bound to the result of an inlined call, or to such a name, the mutation is translated to a
#   never-safe statement (SAssign t RSrc; SSetItem t; reason in HeapFacts.json "flags").  Hence a store of an untrusted value
#   through a name cannot invalidate what another name / the writer's state trusts.  A store into writer state from outside the
#   classes (engine code: W.X.push(v), W.X = v, W.X[k] = v) must not lower ATTR_SHAPES (else never-safe); inside the classes the
#   site is part of ATTR_SHAPES by construction.
#   ENTRY contract: a write(..) parameter that is NOT named like a row (JavaScript SortedWriter.write(stable_entry)) has the
#   declared shape ENTRY = S(A; A, FLAT) (key values .., a number, the row); every emit site whose argument has a trusted position
#   must emit a value of at least that shape (else never-safe); see ASSUMED.
#   rhs     y = x -> RVar;  x[:] x[a:b] list(x) tuple(x) sorted(x) x.slice() x.copy() Array.from(x) -> RCopy;  [..]+x+[..],
#           x.concat(..) -> RConcat (always a new object);  displays, comprehensions, x.map/filter -> RFresh;  x[i], for t in x,
#           a,b,t = x, x.pop() -> RCell x / RElem x by ELEMENT TRUST (bound only when the target is an LV name);  x.f for an
#           attribute f that no builtin container has -> RCell x (a field of a non-list object held by x);  *.get_record()
#           *.get_rhs() *.get_join_records() -> RSrc;  any other (untracked) expression bound to an LV name -> RSrc in engine
#           code; in a writer method, when rooted at self/this or a local: RLoad for self.X itself (see ATTR_SHAPES) and for a
#           position with a tracked shape, otherwise RCell of an RLoad'ed temporary (anything);  constants -> RFresh.
#   writer-owned state (any code) -> RLoad:  W.attr  or  W.attr[i]..[j]  (one attribute step, then index steps only; no call, no
#           slice) bound to an LV name, where W is query_context.writer or a WRITER LOCAL: a non-LV local name whose EVERY binding
#           in the function (closures, loop / handler / import targets, parameters included) is the plain statement
#           name = query_context.writer   or   name = [new] C(..)  with C in WRITER_CLASSES and defined as a class (and not as a
#           function) in the translated files.  It is exactly what a method of that writer gets for self.attr / self.attr[i]:
#           a list object gets into a writer's state only through a statement that is translated to SStore (store rule; the
#           arguments of the constructor call are arguments of an unknown call: SSetItem + SStore), so it was clean then, and
#           the pool never holds a source.  A name that has any other binding is not a writer local (RSrc as before).  An
#           assignment to query_context.writer whose value is not of the two forms above / a writer local is REFUSED.  No other
#           query_context.* attribute is trusted (query_context.unnest_list may hold a source cell), with ONE exception:
#   engine-owned list (Python only) -> RLoad:  name = query_context.A  where (i) EVERY binding of an attribute named A anywhere
#           in the translated Python files (whole-module scan: assignment / augmented / loop / with / del targets; class-level
#           names; any use of setattr / delattr / vars / __dict__ / __setattr__ / __slots__ disables the rule) is the statement
#           <expr>.A = []  or  <expr>.A = list(), so whatever object carries it, x.A is a list the engine allocated itself;
#           and (ii) EVERY occurrence of `name` in the function is that assignment, the receiver of a mutating method call that
#           is a statement of its own (name.append(..)), or the argument of len(name): the ELEMENTS of the list are never read
#           through the name (they may be untracked cell values); what is stored into it escapes as usual (SStore / rejected
#           cell).  Any other use of the name, or any other binding of it -> RSrc as before.
#   mutate  x[i] = v, del x[i], x += .., x.append/insert/extend/sort/reverse/pop/remove/clear/push/unshift/splice/shift/fill/
#           add/set/update/delete(..) -> SSetItem x  (x may be an expression: x[i].append(..) mutates the cell / element).
#   emit    query_context.writer.write(..), self.subwriter.write(..), this.subwriter.write(..) -> SEmit of the last argument
#           (and of any other list-valued argument);  also p.write(..) for a RECEIVER PARAMETER p (calls rule).
#   store   a value with a TRACKED shape placed in a display, stored in an attribute / subscript (also as a key), or passed to a
#           mutating method of another object -> SStore (it must be clean: that position may be trusted by a reader).  A value
#           with shape A (a cell, a name bound to one, the result of untranslated / resolved code) needs NO statement when it
#           goes (i) into a display (that position of the display has shape A), (ii) into a flat row (depth 1) or into a NAME
#           whose shape has no trusted element and that passes rule R, (iii) into untracked state (an attribute, a container
#           reached through an untracked expression): every reader of such a position gets RCell.  Into any other tracked
#           container -> SStore (rejected for a cell).
#   unknown an LV object (or an element / cell of one) passed to a function that is neither defined in the translated files nor
#           in the read-only whitelist, or receiving a method call that is unknown but has the name of a builtin container
#           method -> SSetItem + SStore (accepted only for a clean object, never for a cell).  A method that NO builtin
#           container type has (x.strip(), x.increment(..)) does nothing to the receiver x (ASSUMED: list objects are builtin
#           lists / arrays, the call raises on them); its arguments are arguments of an unknown call unless it is RESOLVED.
#   read    comparisons, truth tests, len, isinstance, str, JSON.stringify, S.join(x), x.join/indexOf/findIndex/..., x.length,
#           string formatting (S.format(..) for an untracked S), csv_utils.*(..) (the CSV string helpers), methods of self.stream /
#           this.stream / sys.stdout (I/O), methods of a string / regular expression / number LITERAL, a method with the name of a
#           read-only builtin method (get, has, index, keys ..) on an untracked receiver: no statement.
#   control if/else -> SIf; for/while -> SFor; raise/throw -> nothing (every statement may raise in the semantics);
#           return/break/continue only in tail position (an `if c: jump` in the middle of a block moves the rest of the block
#           into the branches that fall through); a return inside a loop is accepted when nothing with an effect follows the
#           loop; try/except whose handlers all re-raise and have no effect -> the body; any other try -> every statement of the
#           body optional (recursively), then the handlers optional, then finally.  A try (no else, no finally) that is FOLLOWED
#           by statements `rest` in its block and one of whose handlers may leave by return / break / continue -> the body
#           optional, then SIf(h1', SIf(h2', .. rest)): hi' is handler i - followed by `rest` when it can fall through - and
#           everything is translated in the tail position of the block (a handler's return there is a return at the end of the
#           function / loop body).  Every real run is a path: any part of the body, then either one handler (and, if it falls
#           through, the rest) or the rest.  When the try body itself ENDS with `return e` (its only jump): SIf(the whole body with
#           that return in tail position, [any part of the body with e evaluated for its effects; then the handler chain as
#           above]).  Any other jump inside the try BODY is still refused in that case.  `if` / `try` statements that contain a
#           jump on some path (not only at their end) take the rest of the block into the branches that fall through.
#   calls   a function defined in the translated files (also self.m(..), and self.attr(..) when attr is only ever assigned
#           methods of the class: one branch per candidate) is inlined with fresh variables; a recursive call is an unknown call.
#           [new] C(..) for a class C of the translated files that defines __init__ / constructor: the constructor is inlined
#           (what it keeps: store rule); the new object itself is untracked.
#           RESOLVED methods (RESOLVED_METHODS = increment, get_final, parse: the aggregators and NumHandler): x.m(..) on an
#           untracked or cell receiver is resolved BY NAME: one branch per class of the translated files that defines m, each
#           inlined as a method of that class (self.X is that class's state, ATTR_SHAPES); what it returns has shape A.  A
#           comprehension whose element contains such a call, or mentions an LV name it does not bind, is translated as the loop
#           it is (generators bind like for statements; the elements of the result have shape A: no SStore).
#           RECEIVER PARAMETER: when the argument of an inlined call is self.subwriter / this.subwriter (or a receiver parameter
#           of the caller) and the callee binds the parameter p nowhere else (closures included), p stands for that receiver:
#           p.write(..) -> SEmit, p.finish() -> nothing (finish_chain), as for self.subwriter itself.  Not for
#           query_context.writer (engine code re-assigns it).  Otherwise p is an untracked name: p.write(x) is an unknown method
#           call (SSetItem + SStore of x); a receiver parameter that is used as a list is refused.
#           LAZY PARAMETER (Python): when the argument is a generator expression (elt for T in it [if c..]) with ONE for clause,
#           whose targets T are bound nowhere else in the caller, and EVERY occurrence of the parameter p in the callee is the
#           iterable of `for U in p` (p never rebound): `it` is evaluated at the call, in the caller (Python evaluates the
#           outermost iterable when the generator is created); every such loop becomes SFor(T = an element of `it` exactly as a
#           for statement binds it; the conditions; U = the value of elt, classified IN THE CALLER'S SCOPE at that point (RVar /
#           RCopy / RConcat / RCell / RElem ... as for an assignment U = elt); the loop body).  The callee cannot touch the
#           caller's variables, so this is the generator's own order of evaluation; more steps / a second loop over the
#           exhausted generator only add paths.  Any other generator expression is a comprehension: RFresh, refused when its
#           element mentions an LV name it does not bind itself.  (Targets of comprehensions take their DEPTH from the iterable.)
#   A statement or expression outside these forms raises TranslateError naming file:line.
#   NOT OF INTEREST (no statement): a statement in which no LV name occurs and that is not one of the forms above; bodies of
#   lambdas / function expressions that mention no LV name of the enclosing function (refused if they do); the constructors of
#   the writers that exist when the query starts (their store sites ARE part of ATTR_SHAPES; the writers' state is assumed to
#   hold no source object then); set_header / get_warnings; the contents of UNTRACKED names.
#   ASSUMED: the only calls that return source objects are get_record / get_rhs / get_join_records; an unknown callee reaches
#   list objects only through its arguments; query_context.writer / self.subwriter / this.subwriter are the only ways to the
#   next writer.  For the writer-owned-state rule: query_context.writer always is a writer of the chain (checked for the
#   translated assignments, assumed for the untranslated set-up code); calling a WRITER_CLASSES name constructs that class.
#   For the engine-owned-list rule and ATTR_SHAPES: the attributes of the writer / aggregator objects are stored to only by the
#   methods of their classes and by translated engine code (checked there); no dynamic attribute store elsewhere.
#   ENTRY contract: a writer whose write parameter is an entry (JavaScript SortedWriter) HEADS the chain and is handed only the
#   entries the engine builds for it (the set-up code installs it exactly when query_context.sort_key_expression is set, and
#   select_simple emits entries exactly then); the generated theorem quantifies over arbitrary chains, it is meaningful for such a
#   writer only in that position.  What IS checked: every emitted object with a trusted position has at least the ENTRY shape, and
#   inside the writer every position other than the last (the row) is read as a cell.
#   List objects are builtin lists / arrays (Heap.v: field values are atoms, list-valued cells are list objects): a method or
#   attribute that no builtin container type has raises on them; a method with the name of a read-only builtin method, or of a
#   string / regular expression / number literal, does not change its arguments.
#   UNTRACKED values: a value held only by names that are never used in a list position and never handed to untranslated code
#   through a local (the arguments of user functions in query expressions, module constants) is not mutated in place by the
#   untranslated code that receives it.  The engine's own paths that hand cell values to untranslated callees were enumerated
#   (increment / get_final / parse and the token / aggregator constructors): those callees are now translated.
import ast
import importlib
import json
import os
import subprocess
import sys

HERE = os.path.dirname(os.path.abspath(__file__))
sys.path.insert(0, HERE)
import jsmini  # noqa: E402

REPO = os.environ.get('VERIF_REPO', '/repo')


class TranslateError(Exception):
    pass


INTEREST = {'record_a', 'record_b', 'star_fields', 'out_fields', 'up_fields', 'fields', 'record'}
NEVER_LV = {'self', 'this', 'query_context', 'super', 'None', 'True', 'False', '_hole'}
MUTATORS = {'append', 'insert', 'extend', 'sort', 'reverse', 'pop', 'remove', 'clear', 'push', 'unshift', 'splice', 'shift', 'fill',
            'add', 'set', 'update', 'delete', 'discard', 'setdefault', 'copyWithin', 'popitem', 'appendleft', 'popleft'}
COPY_METHODS = {'slice', 'copy', 'toSorted', 'toReversed', 'toSpliced'}
FRESH_METHODS = {'map', 'filter', 'flat', 'flatMap', 'split'}
READ_METHODS = {'join', 'count', 'index', 'indexOf', 'lastIndexOf', 'findIndex', 'includes', 'some', 'every', 'forEach', 'reduce', 'keys',
                'values', 'entries', 'items', 'has', 'startswith', 'endswith', 'toString', 'find', 'get', 'at', 'hasOwnProperty'}
ELEM_METHODS = {'find', 'get', 'at', 'pop', 'shift', 'popleft', 'popitem'}
ITER_METHODS = {'keys', 'values', 'entries', 'items'}
COPY_FUNCS = {'list', 'tuple', 'sorted', 'set', 'frozenset'}
ITER_WRAPPERS = {'enumerate', 'iteritems6', 'reversed', 'zip', 'iter', '__keys__'}
LISTY_FUNCS = {'len', 'list', 'tuple', 'sorted', 'enumerate', 'reversed'}
PURE_FUNCS = {'len', 'str', 'repr', 'isinstance', 'type', 'bool', 'int', 'float', 'range', 'any', 'all', 'sum', 'min', 'max', 'print', 'id', 'hash',
              'String', 'Number', 'Boolean', 'typeof', 'void', 'polymorphic_xrange', 'xrange', 'unicode', 'ord', 'chr', 'abs', 'round',
              'parseInt', 'parseFloat', 'isNaN', 'callable', 'getattr', 'hasattr', 'format', 'Symbol', 'assert'}
PURE_NAMESPACES = {'JSON', 'Math', 'Object', 'Array', 'Number', 'String', 'Date', 're', 'math', 'Symbol', 'csv_utils'}
IO_RECEIVERS = {'self.stream', 'this.stream', 'sys.stdout', 'sys.stderr', 'console'}      # their methods only read their arguments
ROW_NAMES = INTEREST                     # a write(..) parameter with one of these names is a flat row (depth 1)
SRC_METHODS = {'get_record', 'get_rhs', 'get_join_records'}
EMIT_RECEIVERS = {'query_context.writer', 'self.subwriter', 'this.subwriter'}
RESOLVED_METHODS = {'increment', 'get_final', 'parse'}   # methods of engine objects (aggregators, NumHandler) resolved by name, see calls rule
WRITER_CLASSES = ['TopWriter', 'UniqWriter', 'UniqCountWriter', 'SortedWriter', 'AggregateWriter', 'TableWriter', 'CSVWriter']

# (name, python query, javascript query, needs join table)
PROGRAMS = [
    ('select_simple', 'select a1, *, a2 + "x", a.*, NR where a2 != "z"', 'select a1, *, a2 + "x", a.*, NR where a2 != "z"', False),
    ('select_star', 'select *', 'select *', False),
    ('select_a_star', 'select a.*', 'select a.*', False),
    ('select_columns', 'select a2, a1', 'select a2, a1', False),
    ('select_top_distinct', 'select top 3 distinct *, a1', 'select top 3 distinct *, a1', False),
    ('select_distinct_count', 'select distinct count a1, *', 'select distinct count a1, *', False),
    ('select_order_by', 'select * order by a1 desc', 'select * order by a1 desc', False),
    ('select_except', 'select * except a1, a2', 'select * except a1, a2', False),
    ('select_aggregate', 'select a1, count(*), max(a3) group by a1', 'select a1, count(*), max(a3) group by a1', False),
    ('select_unnest', 'select a1, unnest(a2.split(";")), *', 'select a1, unnest(a2.split(";")), *', False),
    ('select_join', 'select a1, *, a.*, b.*, b2 join b on a1 == b1 where b2 != "q"', 'select a1, *, a.*, b.*, b2 join b on a1 == b1 where b2 != "q"', True),
    ('select_left_join', 'select *, b.* left join b on a1 == b1 order by b2', 'select *, b.* left join b on a1 == b1 order by b2', True),
    ('select_strict_left_join', 'select b.*, a.* strict left join b on a1 == b1', 'select b.*, a.* strict left join b on a1 == b1', True),
    ('update_simple', 'update a1 = a2, a3 = a1 + "x" where a2 != "y"', 'update a1 = a2, a3 = a1 + "x" where a2 != "y"', False),
    ('update_set_simple', 'update set a2 = "k"', 'update set a2 = "k"', False),
    ('update_join', 'update a2 = b2, a1 = b1 join b on a1 == b1 where b2 != "u"', 'update a2 = b2, a1 = b1 join b on a1 == b1 where b2 != "u"', True),
]


# ---------------------------------------------------------------------------------------------------- sources

def walk_shallow(nodes):
    """all nodes below `nodes` without entering lambdas, nested function or class definitions"""
    stack = list(nodes) if isinstance(nodes, list) else [nodes]
    while stack:
        n = stack.pop()
        if isinstance(n, list):
            stack.extend(n)
            continue
        if not isinstance(n, ast.AST):
            continue
        yield n
        if isinstance(n, (ast.Lambda, ast.FunctionDef, ast.AsyncFunctionDef, ast.ClassDef)):
            continue
        for _f, v in ast.iter_fields(n):
            if isinstance(v, (list, ast.AST)):
                stack.append(v)


def walk_all(nodes):
    stack = list(nodes) if isinstance(nodes, list) else [nodes]
    while stack:
        n = stack.pop()
        if isinstance(n, list):
            stack.extend(n)
            continue
        if not isinstance(n, ast.AST):
            continue
        yield n
        for _f, v in ast.iter_fields(n):
            if isinstance(v, (list, ast.AST)):
                stack.append(v)


class Source:
    """functions and classes of one implementation language (several files), found by name on demand"""

    def __init__(self, lang):
        self.lang = lang
        self.functions = {}     # name -> list of (FunctionDef, file)
        self.classes = {}       # name -> (ClassDef, file)
        self.js_items = {}      # name -> (kind, text, first_line, file)   not yet parsed
        self.trees = []         # whole-module trees (Python only), for the whole-program check of owned_attrs
        self._owned = None

    def add_python(self, path):
        text = open(path, encoding='utf-8').read()
        try:
            tree = ast.parse(text, filename=path)
        except SyntaxError as e:
            raise TranslateError('%s:%s: cannot parse: %s' % (path, e.lineno, e.msg))
        self.trees.append(tree)
        self._owned = None
        in_class = set()
        for n in ast.walk(tree):
            if isinstance(n, ast.ClassDef):
                self.classes[n.name] = (n, path)
                for m in n.body:
                    in_class.add(id(m))
        for n in ast.walk(tree):
            if isinstance(n, (ast.FunctionDef, ast.AsyncFunctionDef)) and id(n) not in in_class:
                self.functions.setdefault(n.name, []).append((n, path))

    def add_js(self, path):
        import re
        lines = open(path, encoding='utf-8').read().split('\n')
        i = 0
        while i < len(lines):
            m = re.match(r'(?:async\s+)?function\s+([A-Za-z_$][\w$]*)\s*\(|class\s+([A-Za-z_$][\w$]*)\b', lines[i])
            if not m:
                i += 1
                continue
            j = i
            while j < len(lines) and lines[j].rstrip() not in ('}', '};'):
                j += 1
            if j >= len(lines):
                raise TranslateError('%s:%d: cannot find the end of this top-level definition' % (path, i + 1))
            name = m.group(1) or m.group(2)
            self.js_items[name] = ('function' if m.group(1) else 'class', '\n'.join(lines[i:j + 1]), i + 1, path)
            i = j + 1

    def _parse_js(self, name):
        kind, text, first, path = self.js_items.pop(name)
        try:
            body = jsmini.parse(text, path, first)
        except jsmini.JSParseError as e:
            raise TranslateError(str(e))
        if len(body) != 1:
            raise TranslateError('%s:%d: expected exactly one definition' % (path, first))
        if kind == 'function':
            self.functions.setdefault(name, []).append((body[0], path))
        else:
            self.classes[name] = (body[0], path)

    def owned_attrs(self):
        """attribute names A such that EVERY binding of an attribute named A anywhere in the translated Python files is the
        statement  <expr>.A = []  or  <expr>.A = list()  (sole target): whatever object, `x.A` is a list the engine allocated
        itself, never a source object.  JavaScript: none (the files are not parsed as a whole)."""
        if self._owned is not None:
            return self._owned
        good_nodes, good, bad = set(), set(), set()
        dynamic = False
        for tree in self.trees:
            for n in ast.walk(tree):
                if isinstance(n, ast.Assign) and len(n.targets) == 1 and isinstance(n.targets[0], ast.Attribute):
                    v = n.value
                    if (isinstance(v, ast.List) and not v.elts) or (isinstance(v, ast.Call) and isinstance(v.func, ast.Name) and v.func.id == 'list'
                                                                    and not v.args and not v.keywords):
                        good_nodes.add(id(n.targets[0]))
                        good.add(n.targets[0].attr)
                elif isinstance(n, ast.ClassDef):
                    for m in n.body:                    # class-level names are attributes of the instances too
                        if isinstance(m, (ast.FunctionDef, ast.AsyncFunctionDef, ast.ClassDef)):
                            bad.add(m.name)
                        elif isinstance(m, ast.Assign):
                            for t in m.targets:
                                bad.update(target_names(t))
                        elif isinstance(m, (ast.AnnAssign, ast.AugAssign)):
                            bad.update(target_names(m.target))
                elif isinstance(n, ast.Name) and n.id in ('setattr', 'delattr', '__dict__', 'vars', '__setattr__'):
                    dynamic = True
                elif isinstance(n, ast.Attribute) and n.attr in ('__dict__', '__setattr__', '__slots__'):
                    dynamic = True
            for n in ast.walk(tree):
                if isinstance(n, ast.Attribute) and isinstance(n.ctx, (ast.Store, ast.Del)) and id(n) not in good_nodes:
                    bad.add(n.attr)
        self._owned = set() if dynamic else good - bad
        return self._owned

    def method_names(self):
        """names of the methods defined by the classes of the translated files (JavaScript classes that do not parse are skipped)"""
        if getattr(self, '_methods', None) is None:
            for name in [n for n, it in self.js_items.items() if it[0] == 'class']:
                try:
                    self._parse_js(name)
                except TranslateError:
                    pass
            self._methods = {m.name for c, _f in self.classes.values() for m in c.body if isinstance(m, (ast.FunctionDef, ast.AsyncFunctionDef))}
        return self._methods

    def methods_named(self, m):
        """[(method def, class def, file)] for every class of the translated files that defines a method m"""
        self.method_names()
        return [(d, c, f) for c, f in self.classes.values() for d in c.body if isinstance(d, (ast.FunctionDef, ast.AsyncFunctionDef)) and d.name == m]

    def function(self, name):
        if name in self.js_items and self.js_items[name][0] == 'function':
            self._parse_js(name)
        return self.functions.get(name)

    def klass(self, name):
        if name in self.js_items and self.js_items[name][0] == 'class':
            self._parse_js(name)
        return self.classes.get(name)


def load_python_engine():
    pkg_root = os.path.join(REPO, 'rbql-py')
    for k in [k for k in sys.modules if k == 'rbql' or k.startswith('rbql.')]:
        del sys.modules[k]
    sys.path.insert(0, pkg_root)
    try:
        sys.dont_write_bytecode = True
        mod = importlib.import_module('rbql.rbql_engine')
    finally:
        sys.path.remove(pkg_root)
    if not os.path.abspath(mod.__file__).startswith(os.path.abspath(pkg_root)):
        raise TranslateError('imported rbql_engine from %s, not from %s' % (mod.__file__, pkg_root))
    return mod


def generated_python():
    E = load_python_engine()
    out = []
    for name, q, _qjs, join in PROGRAMS:
        try:
            it = E.TableIterator([['1', 'x;y', '3'], ['2', 'z', '4']], None, True)
            wr = E.TableWriter([])
            reg = None
            if join:
                reg = E.ListTableRegistry([E.ListTableInfo('b', [['1', 'p'], ['2', 'q']], None)], True)
            ctx = E.RBQLContext(it, wr, '')
            E.shallow_parse_input_query(q, it, reg, ctx)
            code = E.generate_main_loop_code(ctx)
        except Exception as e:
            raise TranslateError('%s: the code generator failed for query %r: %s: %s' % (E.__file__, q, type(e).__name__, e))
        chain = []
        w = ctx.writer
        while w is not None and len(chain) < 20:
            chain.append(type(w).__name__)
            w = getattr(w, 'subwriter', None)
        out.append({'name': name, 'q': q, 'code': code, 'chain': chain})
    return out


def generated_js():
    items = [{'name': n, 'q': qjs, 'join': j} for n, _q, qjs, j in PROGRAMS]
    p = subprocess.run(['node', os.path.join(HERE, 'impl', 'heap_gen.js'), REPO], input=json.dumps(items), stdout=subprocess.PIPE,
                       stderr=subprocess.PIPE, text=True, timeout=120)
    if p.returncode != 0:
        raise TranslateError('%s: the code generator failed: %s' % (os.path.join(REPO, 'rbql-js', 'rbql.js'), p.stderr.strip()[-800:]))
    return json.loads(p.stdout)


# ---------------------------------------------------------------------------------------------------- IR

class Prog:
    """one IR term: variable numbering (0 is PARAM)"""

    def __init__(self, name):
        self.name = name
        self.vars = {}
        self.order = []

    def var(self, qual):
        if qual not in self.vars:
            self.vars[qual] = len(self.order) + 1
            self.order.append(qual)
        return self.vars[qual]

    def tmp(self, hint):
        return self.var('%s$%d' % (hint, len(self.order) + 1))


def has_effect(ir):
    for s in ir:
        if s[0] == 'assign' and len(s) == 4:
            continue                    # binding of a return-value variable: bookkeeping only
        if s[0] in ('assign', 'setitem', 'emit', 'store'):
            return True
        if s[0] == 'if' and (has_effect(s[1]) or has_effect(s[2])):
            return True
        if s[0] == 'for' and has_effect(s[1]):
            return True
    return False


def strip_assigns(ir, x):
    out = []
    for s in ir:
        if s[0] == 'assign' and s[1] == x and len(s) == 4:
            continue
        if s[0] == 'if':
            s = ('if', strip_assigns(s[1], x), strip_assigns(s[2], x))
        elif s[0] == 'for':
            s = ('for', strip_assigns(s[1], x)) + tuple(s[2:])
        out.append(s)
    return out


def check_return_in_loop(ir, label):
    """a loop that contains a return (flag 'ret') may only be followed by statements without effect; removes the flags"""
    found = False
    out = []
    for i, s in enumerate(ir):
        flagged = False
        if s[0] == 'for':
            body, f2 = check_return_in_loop(s[1], label)
            flagged = f2 or len(s) > 2
            s = ('for', body)
        elif s[0] == 'if':
            a, fa = check_return_in_loop(s[1], label)
            b, fb = check_return_in_loop(s[2], label)
            flagged = fa or fb
            s = ('if', a, b)
        if flagged:
            found = True
            if has_effect(ir[i + 1:]):
                raise TranslateError('%s: a return inside a loop is followed, after the loop, by statements with an effect on list objects' % label)
        out.append(s)
    return out, found


def optional(ir):
    """every statement may or may not run (used for try bodies whose handler resumes)"""
    out = []
    for s in ir:
        if s[0] == 'if':
            s = ('if', optional(s[1]), optional(s[2]))
        elif s[0] == 'for':
            s = ('for', optional(s[1])) + tuple(s[2:])
        if s[0] == 'skip':
            continue
        out.append(('if', [s], []))
    return out


def coq_rhs(r):
    k = r[0]
    if k == 'var':
        return 'RVar %d' % r[1]
    if k == 'copy':
        return 'RCopy %d' % r[1]
    if k == 'concat':
        return 'RConcat [%s]' % '; '.join(str(x) for x in r[1])
    if k == 'elem':
        return 'RElem %d' % r[1]
    if k == 'cell':
        return 'RCell %d' % r[1]
    return {'fresh': 'RFresh', 'src': 'RSrc', 'load': 'RLoad'}[k]


def prune(ir):
    """drop statements that do nothing: skips, if with two empty branches, loops with an empty body"""
    out = []
    for s in ir:
        if s[0] == 'skip':
            continue
        if s[0] == 'if':
            a, b = prune(s[1]), prune(s[2])
            if not a and not b:
                continue
            s = ('if', a, b)
        elif s[0] == 'for':
            b = prune(s[1])
            if not b:
                continue
            s = ('for', b)
        out.append(s)
    return out


def coq_block(ir, ind):
    items = [coq_stmt(s, ind + 2) for s in prune(ir)]
    if not items:
        return 'SSkip'
    pad = ' ' * (ind + 2)
    return 'block [\n' + pad + (';\n' + pad).join(items) + ']'


def coq_stmt(s, ind):
    k = s[0]
    if k == 'assign':
        return 'SAssign %d (%s)' % (s[1], coq_rhs(s[2]))
    if k == 'setitem':
        return 'SSetItem %d' % s[1]
    if k == 'emit':
        return 'SEmit %d' % s[1]
    if k == 'store':
        return 'SStore %d' % s[1]
    if k == 'if':
        return 'SIf (%s) (%s)' % (coq_block(s[1], ind), coq_block(s[2], ind))
    if k == 'for':
        return 'SFor (%s)' % coq_block(s[1], ind)
    raise AssertionError(s)


def count_stmts(ir):
    n = 0
    for s in prune(ir):
        if s[0] == 'if':
            n += count_stmts(s[1]) + count_stmts(s[2])
        elif s[0] == 'for':
            n += count_stmts(s[1])
        elif s[0] != 'skip':
            n += 1
    return n


# ---------------------------------------------------------------------------------------------------- translation

def expr_text(e):
    if isinstance(e, ast.Name):
        return e.id
    if isinstance(e, ast.Attribute):
        b = expr_text(e.value)
        return None if b is None else b + '.' + e.attr
    return None


def root_name(e):
    while isinstance(e, (ast.Attribute, ast.Subscript, ast.Call)):
        e = e.value if not isinstance(e, ast.Call) else e.func
    return e.id if isinstance(e, ast.Name) else None


def is_emit_receiver(e, aliases=()):
    return expr_text(e) in EMIT_RECEIVERS or (isinstance(e, ast.Name) and e.id in aliases)


def is_emit_call(node, aliases=()):
    return (isinstance(node, ast.Call) and isinstance(node.func, ast.Attribute) and node.func.attr == 'write'
            and is_emit_receiver(node.func.value, aliases))


def bound_names(body, skip=()):
    """every name bound anywhere below body (nested functions, lambdas and comprehensions included), except by the nodes in skip"""
    out = set()
    for n in walk_all(body):
        if id(n) in skip:
            continue
        if isinstance(n, ast.Assign):
            for t in n.targets:
                out.update(target_names(t))
        elif isinstance(n, (ast.AnnAssign, ast.AugAssign, ast.For, ast.AsyncFor, ast.comprehension, ast.NamedExpr)):
            out.update(target_names(n.target))
        elif isinstance(n, ast.ExceptHandler) and n.name:
            out.add(n.name)
        elif isinstance(n, (ast.With, ast.AsyncWith)):
            for it in n.items:
                if it.optional_vars is not None:
                    out.update(target_names(it.optional_vars))
        elif isinstance(n, ast.Delete):
            for t in n.targets:
                out.update(target_names(t))
        elif isinstance(n, (ast.Global, ast.Nonlocal)):
            out.update(n.names)
        elif isinstance(n, (ast.Import, ast.ImportFrom)):
            out.update((a.asname or a.name).split('.')[0] for a in n.names)
        elif isinstance(n, (ast.FunctionDef, ast.AsyncFunctionDef, ast.ClassDef)):
            out.add(n.name)
        if isinstance(n, (ast.FunctionDef, ast.AsyncFunctionDef, ast.Lambda)):
            a = n.args
            for x in getattr(a, 'posonlyargs', []) + a.args + a.kwonlyargs + [y for y in (a.vararg, a.kwarg) if y is not None]:
                out.add(x.arg)
                pat = getattr(x, 'js_pattern', None)
                if pat is not None:
                    out.update(target_names(pat))
    return out


def only_iterated(body, name):
    """every occurrence of `name` below body is the iterable of a for statement of this very function: for T in name"""
    iters = set()
    for n in walk_shallow(body):
        if isinstance(n, ast.For) and isinstance(n.iter, ast.Name) and n.iter.id == name:
            iters.add(id(n.iter))
    return bool(iters) and all(id(n) in iters for n in walk_all(body) if isinstance(n, ast.Name) and n.id == name)


class LazyArg:
    """a generator expression passed as an argument: its iterable was evaluated at the call (kind, depth, in the caller's
    scope); targets, conditions and element are evaluated by every iteration of the callee's loops over the parameter"""

    def __init__(self, gen, kind, depth, scope):
        self.gen, self.kind, self.depth, self.scope = gen, kind, depth, scope


def flatten_add(e):
    if isinstance(e, ast.BinOp) and isinstance(e.op, ast.Add):
        return flatten_add(e.left) + flatten_add(e.right)
    return [e]


def unwrap_iter(e):
    """enumerate(x), iteritems6(x), x.entries() ... -> x"""
    while True:
        if isinstance(e, ast.Call) and isinstance(e.func, ast.Name) and e.func.id in ITER_WRAPPERS and e.args:
            e = e.args[0]
        elif isinstance(e, ast.Call) and isinstance(e.func, ast.Attribute) and e.func.attr in ITER_METHODS and not e.args:
            e = e.func.value
        else:
            return e


def target_names(t):
    if isinstance(t, ast.Name):
        return [t.id]
    if isinstance(t, (ast.Tuple, ast.List)):
        return [n for x in t.elts for n in target_names(x)]
    if isinstance(t, ast.Starred):
        return target_names(t.value)
    return []


def listy(e, lv):
    """syntactically list-valued, given the LV names found so far (used for the by-flow closure)"""
    if isinstance(e, ast.Name):
        return e.id in lv
    if isinstance(e, (ast.List, ast.ListComp, ast.Tuple)):
        return True
    if isinstance(e, ast.Subscript):
        return isinstance(e.slice, ast.Slice)
    if isinstance(e, ast.BinOp):
        if isinstance(e.op, ast.Add):
            return any(listy(x, lv) and not isinstance(x, ast.Tuple) for x in flatten_add(e))
        return isinstance(e.left, ast.List) or isinstance(e.right, ast.List)
    if isinstance(e, ast.IfExp):
        return listy(e.body, lv) or listy(e.orelse, lv)
    if isinstance(e, ast.BoolOp):
        return any(listy(x, lv) for x in e.values)
    if isinstance(e, ast.Call):
        f = e.func
        if isinstance(f, ast.Name):
            return f.id in COPY_FUNCS
        if isinstance(f, ast.Attribute):
            if f.attr in SRC_METHODS:
                return True
            if f.attr in COPY_METHODS or f.attr == 'concat' or f.attr in FRESH_METHODS:
                return True
            if expr_text(f) == 'Array.from':
                return True
    return False


def compute_lv(body, init, aliases=()):
    lv = set(init)
    for n in walk_shallow(body):
        if isinstance(n, ast.Name) and n.id in INTEREST:
            lv.add(n.id)
        elif isinstance(n, ast.Subscript) and isinstance(n.value, ast.Name):
            lv.add(n.value.id)
        elif isinstance(n, ast.Attribute) and isinstance(n.value, ast.Name) and n.attr == 'length':
            lv.add(n.value.id)
        elif isinstance(n, ast.Call):
            f = n.func
            if isinstance(f, ast.Attribute) and isinstance(f.value, ast.Name) and (f.attr in MUTATORS or f.attr in COPY_METHODS or f.attr == 'concat'):
                lv.add(f.value.id)
            if isinstance(f, ast.Name) and f.id in LISTY_FUNCS:
                lv.update(a.id for a in n.args if isinstance(a, ast.Name))
            if isinstance(f, ast.Attribute) and f.attr in RESOLVED_METHODS:
                lv.update(a.id for a in n.args if isinstance(a, ast.Name))
            if is_emit_call(n, aliases) and n.args and isinstance(n.args[-1], ast.Name):
                lv.add(n.args[-1].id)
        elif isinstance(n, ast.For):
            it = unwrap_iter(n.iter)
            if isinstance(it, ast.Name):
                lv.add(it.id)
        elif isinstance(n, ast.Assign):
            if any(isinstance(t, (ast.Tuple, ast.List)) for t in n.targets) and isinstance(n.value, ast.Name):
                lv.add(n.value.id)
        elif isinstance(n, ast.Starred) and isinstance(n.value, ast.Name):
            lv.add(n.value.id)
        elif isinstance(n, ast.Delete):
            for t in n.targets:
                if isinstance(t, ast.Subscript) and isinstance(t.value, ast.Name):
                    lv.add(t.value.id)
    changed = True
    while changed:
        changed = False
        for n in walk_shallow(body):
            new = []
            if isinstance(n, ast.Assign) and listy(n.value, lv):
                new = [t.id for t in n.targets if isinstance(t, ast.Name)]
            elif isinstance(n, ast.AnnAssign) and n.value is not None and listy(n.value, lv) and isinstance(n.target, ast.Name):
                new = [n.target.id]
            elif isinstance(n, ast.BinOp) and isinstance(n.op, ast.Add):
                sides = flatten_add(n)
                if any(listy(x, lv) and not isinstance(x, ast.Tuple) for x in sides):
                    new = [x.id for x in sides if isinstance(x, ast.Name)]
            for x in new:
                if x not in lv and x not in NEVER_LV:
                    lv.add(x)
                    changed = True
    return lv - NEVER_LV


INF = 99
OWNED_ATTRS = set()         # Source.owned_attrs() of the language being translated (set by main)


def is_owned_attr(e):
    return isinstance(e, ast.Attribute) and e.attr in OWNED_ATTRS and expr_text(e.value) == 'query_context'


def owned_aliases(body, params):
    """names n whose every occurrence in the function is: the sole target of  n = query_context.A  (A an engine-owned list
    attribute), the receiver of a mutating method call that is a statement of its own ( n.append(..) ), or the argument of len(n).
    The elements of the list are never read through such a name."""
    if not OWNED_ATTRS:
        return set()
    ok_nodes, cands, skip = set(), set(), set()
    for n in walk_shallow(body):
        if isinstance(n, ast.Assign) and len(n.targets) == 1 and isinstance(n.targets[0], ast.Name) and is_owned_attr(n.value):
            cands.add(n.targets[0].id)
            ok_nodes.add(id(n.targets[0]))
            skip.add(id(n))
        elif isinstance(n, ast.Expr) and isinstance(n.value, ast.Call) and isinstance(n.value.func, ast.Attribute) \
                and isinstance(n.value.func.value, ast.Name) and n.value.func.attr in MUTATORS:
            ok_nodes.add(id(n.value.func.value))
        elif isinstance(n, ast.Call) and isinstance(n.func, ast.Name) and n.func.id == 'len' and len(n.args) == 1 and isinstance(n.args[0], ast.Name) \
                and not getattr(n, 'keywords', []):
            ok_nodes.add(id(n.args[0]))
    cands -= bound_names(body, skip) | set(params)
    for n in walk_all(body):
        if isinstance(n, ast.Name) and n.id in cands and id(n) not in ok_nodes:
            cands.discard(n.id)
    return cands


def depth_of(e, lv, env):
    """nesting depth of the value of e: 0 = atom, 1 = flat list of atoms (a record), 2 = list of records, ...; INF = unknown.
    An upper bound: it decides whether an element read x[i] can denote a list OBJECT (depth(x) > 1) or only an atom."""
    if isinstance(e, ast.Constant) or e is None:
        return 0
    if isinstance(e, ast.Name):
        return env.get(e.id, INF) if e.id in lv else 0
    if isinstance(e, (ast.List, ast.Tuple, ast.Set)):
        return min(INF, 1 + max([depth_of(x.value if isinstance(x, ast.Starred) else x, lv, env) for x in e.elts] + [0]))
    if isinstance(e, (ast.ListComp, ast.SetComp, ast.GeneratorExp)):
        return 1
    if isinstance(e, ast.Subscript):
        d = depth_of(e.value, lv, env)
        if isinstance(e.slice, ast.Slice):
            return d
        return INF if d >= INF else max(0, d - 1)
    if isinstance(e, ast.Starred):
        d = depth_of(e.value, lv, env)
        return INF if d >= INF else max(0, d - 1)
    if isinstance(e, ast.BinOp):
        return max(depth_of(e.left, lv, env), depth_of(e.right, lv, env))
    if isinstance(e, ast.IfExp):
        return max(depth_of(e.body, lv, env), depth_of(e.orelse, lv, env))
    if isinstance(e, ast.BoolOp):
        return max(depth_of(x, lv, env) for x in e.values)
    if isinstance(e, ast.Await):
        return depth_of(e.value, lv, env)
    if isinstance(e, (ast.Compare, ast.UnaryOp, ast.JoinedStr, ast.Lambda, ast.Dict)):
        return 0
    if isinstance(e, ast.Call):
        f = e.func
        if isinstance(f, ast.Name) and f.id in COPY_FUNCS and len(e.args) == 1:
            return max(1, depth_of(unwrap_iter(e.args[0]), lv, env))
        if isinstance(f, ast.Name) and (f.id in PURE_FUNCS):
            return 0
        if isinstance(f, ast.Attribute):
            if f.attr == 'get_record':
                return 1
            if f.attr in SRC_METHODS:
                return 3
            if f.attr in RESOLVED_METHODS:
                return 0                # what such a method returns is never trusted (shape A): a cell value
            if expr_text(f) == 'Array.from' and len(e.args) == 1:
                return max(1, depth_of(e.args[0], lv, env))
            if f.attr in COPY_METHODS:
                return depth_of(f.value, lv, env)
            if f.attr == 'concat':
                return max([depth_of(f.value, lv, env)] + [depth_of(a, lv, env) for a in e.args])
            if f.attr in FRESH_METHODS:
                return max(1, depth_of(f.value, lv, env))
            if f.attr in ELEM_METHODS and depth_of(f.value, lv, env) < INF and (isinstance(f.value, ast.Name) and f.value.id in lv):
                return max(0, depth_of(f.value, lv, env) - 1)
            if f.attr in ('join', 'format', 'indexOf', 'findIndex', 'count', 'index'):
                return 0
        return INF
    return INF


def compute_depth(body, lv, init):
    """flow-insensitive: the depth of an LV name is the maximum over all its binding sites and over everything stored into it"""
    env = {n: 0 for n in lv}
    bound = set(init)
    for n, d in init.items():
        env[n] = max(env.get(n, 0), d)

    def target_depths(t, d, out):
        if isinstance(t, ast.Name):
            out.append((t.id, d))
        elif isinstance(t, (ast.Tuple, ast.List)):
            for x in t.elts:
                target_depths(x.value if isinstance(x, ast.Starred) else x, INF if d >= INF else max(0, d - 1), out)

    changed = True
    rounds = 0
    while changed and rounds < 50:
        changed = False
        rounds += 1
        sites = []
        for n in walk_shallow(body):
            if isinstance(n, ast.Assign):
                if len(n.targets) == 1 and isinstance(n.targets[0], (ast.Tuple, ast.List)) and isinstance(n.value, (ast.Tuple, ast.List)) \
                        and len(n.targets[0].elts) == len(n.value.elts):
                    for t, v in zip(n.targets[0].elts, n.value.elts):
                        target_depths(t, depth_of(v, lv, env), sites)
                else:
                    d = depth_of(n.value, lv, env)
                    for t in n.targets:
                        target_depths(t, d, sites)
                        if isinstance(t, ast.Subscript) and isinstance(t.value, ast.Name):
                            sites.append((t.value.id, min(INF, d + 1)))
            elif isinstance(n, ast.AnnAssign) and n.value is not None:
                target_depths(n.target, depth_of(n.value, lv, env), sites)
            elif isinstance(n, ast.AugAssign) and isinstance(n.target, ast.Name):
                sites.append((n.target.id, depth_of(n.value, lv, env)))
            elif isinstance(n, (ast.For, ast.AsyncFor, ast.comprehension)):
                d = depth_of(unwrap_iter(n.iter), lv, env)
                target_depths(n.target, INF if d >= INF else max(0, d - 1), sites)
            elif isinstance(n, ast.Call) and isinstance(n.func, ast.Attribute) and isinstance(n.func.value, ast.Name) and n.func.attr in MUTATORS:
                ds = [depth_of(a, lv, env) for a in n.args] + [0]
                if n.func.attr in ('extend',):
                    sites.append((n.func.value.id, max(ds)))
                else:
                    sites.append((n.func.value.id, min(INF, max(ds) + 1)))
        for name, d in sites:
            bound.add(name)
            if name in lv and d > env.get(name, 0):
                env[name] = d
                changed = True
    for n in lv:
        if n not in bound:
            env[n] = INF            # never bound in this function: a free variable, nothing is known about it
    return env


# ---------------------------------------------------------------------------------------------------- shapes (element trust)
#
# SHAPE of a value (a LOWER bound: what is KNOWN about it at every binding site / store site; see THE RULES, "element trust"):
#   A                 an untrusted value: an atom, a cell, anything that came through an untracked name or unknown code.  Used in a
#                     list position it is a CELL (RCell, never clean); as a container its elements are untrusted.
#   ('S', pre, suf)   a TRACKED list object: any number of elements of shape pre, then len(suf) fixed last positions.
#                     pre = TOP: no other elements (an exact tuple / display).  S(A, ()) is a flat row.
#   ('M', k, v)       a TRACKED map object (dict / Map): keys of shape k, values of shape v.
#   TOP               nothing known yet / an empty container: the identity of meet.
# An element position is TRUSTED (read as RElem: an owned object that was SStore'd when it was put there) only when its shape is
# S or M, i.e. when at EVERY store site that position syntactically holds a tracked list object; otherwise it is read as RCell.
A, TOP = 'A', 'TOP'
FLAGS = []                  # reasons of the never-safe statements emitted by Tr.flag (reported in HeapFacts.json and on stderr)
LANG = ['py']               # language being translated (iteration of a map yields keys in Python, [key, value] in JavaScript)
RET_SHAPES = {}             # (class, method) -> meet of the shapes of the values the method returns (computed with ATTR_SHAPES)
ATTR_SHAPES = {}            # attribute name -> shape of what the writer classes keep there (all store sites, see attr_shapes)
EMPTY_CTORS = {'list', 'dict', 'set', 'tuple', 'frozenset', 'OrderedDict', 'defaultdict', 'deque', 'Map', 'Set', 'Array', 'Object', 'WeakMap'}
PAIR_WRAPPERS = {'enumerate'}
SIZE_MUTATORS = {'append', 'push', 'add', 'appendleft', 'unshift', 'insert', 'extend', 'update', 'pop', 'shift', 'remove', 'clear', 'splice',
                 'popleft', 'popitem', 'discard', 'delete', 'sort', 'reverse', 'fill', 'copyWithin'}


def S(pre, suf=()):
    return ('S', pre, tuple(suf))


FLAT = S(A)
ENTRY = S(A, (A, FLAT))     # the JavaScript sort entry  sort_key.concat([NR, out_fields]):  key values .., a number, the row
SRC3 = S(S(FLAT))           # get_rhs(..): a list of tuples whose components are rows (all of them source objects anyway)


def tracked(s):
    return isinstance(s, tuple)


def meet(s, t):
    if s == TOP:
        return t
    if t == TOP:
        return s
    if s == A or t == A or s[0] != t[0]:
        return A
    if s[0] == 'M':
        return ('M', meet(s[1], t[1]), meet(s[2], t[2]))
    f1, f2 = s[2], t[2]
    k = min(len(f1), len(f2))
    pre = meet(s[1], t[1])
    for x in list(f1[:len(f1) - k]) + list(f2[:len(f2) - k]):       # fixed in one view, somewhere in the prefix of the other
        pre = meet(pre, x)
    return ('S', pre, tuple(meet(a, b) for a, b in zip(f1[len(f1) - k:], f2[len(f2) - k:])))


def meet_all(shapes):
    r = TOP
    for x in shapes:
        r = meet(r, x)
    return r


def elem(s, idx=('any',)):
    """shape of the element of a value of shape s at index kind idx: ('const', i) | ('last', k) | ('any',)"""
    if not tracked(s):
        return s                    # A stays A; TOP (nothing known yet, or nothing there) stays TOP: not trusted either
    if s[0] == 'M':
        return s[2]
    pre, suf = s[1], s[2]
    n = len(suf)
    if idx[0] == 'last' and idx[1] <= n:
        return suf[n - idx[1]]
    if idx[0] == 'const' and pre == TOP and idx[1] < n:
        return suf[idx[1]]
    return meet_all([pre] + list(suf))


def homog(s):
    """the same elements without fixed positions (a copy that may be reordered / cut)"""
    if s == TOP:
        return TOP                  # nothing known yet (optimistic start of a fixpoint) / nothing there
    if not tracked(s):
        return FLAT
    if s[0] == 'M':
        return S(meet(s[1], s[2]))
    return S(meet_all([s[1]] + list(s[2])))


def norm(s):
    """trust skeleton: TOP positions read as A; a container without any trusted position is FLAT"""
    if s == TOP or not tracked(s):
        return A
    if s[0] == 'M':
        k, v = norm(s[1]), norm(s[2])
        return ('M', k, v)
    pre = norm(s[1])
    suf = tuple(norm(x) for x in s[2])
    if not tracked(pre) and not any(tracked(x) for x in suf):
        return FLAT
    return ('S', pre, suf)


def has_trust(s):
    """some element position of s is trusted"""
    n = norm(s)
    return tracked(n) and n != FLAT and not (n[0] == 'M' and not tracked(n[1]) and not tracked(n[2]))


def index_kind(base, sl):
    """('const', i) | ('last', k) | ('any',) for the subscript base[sl]"""
    if isinstance(sl, ast.Constant) and isinstance(sl.value, int) and not isinstance(sl.value, bool):
        if sl.value >= 0:
            return ('const', sl.value)
        return ('last', -sl.value) if LANG[0] == 'py' else ('any',)
    if isinstance(sl, ast.UnaryOp) and isinstance(sl.op, ast.USub) and isinstance(sl.operand, ast.Constant) and isinstance(sl.operand.value, int) \
            and not isinstance(sl.operand.value, bool) and sl.operand.value > 0 and LANG[0] == 'py':
        return ('last', sl.operand.value)
    if isinstance(sl, ast.BinOp) and (isinstance(sl.op, ast.Sub) or getattr(sl, 'js_op', None) == '-') and isinstance(sl.right, ast.Constant) \
            and isinstance(sl.right.value, int) and not isinstance(sl.right.value, bool) and sl.right.value > 0 and expr_text(base) is not None:
        l = sl.left
        if isinstance(l, ast.Attribute) and l.attr == 'length' and expr_text(l.value) == expr_text(base):
            return ('last', sl.right.value)
        if isinstance(l, ast.Call) and isinstance(l.func, ast.Name) and l.func.id == 'len' and len(l.args) == 1 and expr_text(l.args[0]) == expr_text(base):
            return ('last', sl.right.value)
    return ('any',)


class IterElem(ast.AST):
    """synthetic expression: an element produced by iterating `value` (wrappers enumerate / items / entries .. still on it)"""
    _fields = ('value',)


def concat_shape(a, b):
    if not tracked(a) or a[0] != 'S':
        a = FLAT
    if not tracked(b) or b[0] != 'S':
        b = FLAT
    if a[1] == TOP and b[1] == TOP:
        return S(TOP, a[2] + b[2])
    return S(meet_all([a[1]] + list(a[2]) + [b[1]]), b[2])


def cap(s, d=5):
    """shapes nested deeper than d are not followed (keeps the fixpoint finite: x = [x])"""
    if not tracked(s):
        return s
    if d == 0:
        return A
    if s[0] == 'M':
        return ('M', cap(s[1], d - 1), cap(s[2], d - 1))
    return ('S', cap(s[1], d - 1), tuple(cap(x, d - 1) for x in s[2]))


def is_fresh_expr(v, lv):
    """v evaluates to a NEW object (display, copy, concatenation ...): no other name can see it yet"""
    if v is None or isinstance(v, (ast.Constant, ast.List, ast.Tuple, ast.Set, ast.Dict, ast.ListComp, ast.SetComp, ast.GeneratorExp, ast.DictComp,
                                   ast.BinOp, ast.Compare, ast.UnaryOp, ast.JoinedStr, ast.Lambda)):
        return True
    if isinstance(v, ast.Subscript):
        return isinstance(v.slice, ast.Slice)
    if isinstance(v, ast.Call):
        f = v.func
        if isinstance(f, ast.Name):
            return f.id in COPY_FUNCS or f.id in EMPTY_CTORS
        if isinstance(f, ast.Attribute):
            return f.attr in COPY_METHODS or f.attr in FRESH_METHODS or f.attr == 'concat' or expr_text(f) == 'Array.from'
    return False


def alternatives(v):
    if isinstance(v, ast.IfExp):
        return alternatives(v.body) + alternatives(v.orelse)
    if isinstance(v, ast.BoolOp):
        return [y for x in v.values for y in alternatives(x)]
    if isinstance(v, ast.Await):
        return alternatives(v.value)
    return [v]


def apply_index_stores(b, idx):
    for k, v, ik in idx:
        if b == TOP:
            b = ('M', k, v)
        elif not tracked(b):
            pass
        elif b[0] == 'M':
            b = ('M', meet(b[1], k), meet(b[2], v))
        else:
            pre, suf = b[1], list(b[2])
            n = len(suf)
            if ik[0] == 'last' and ik[1] <= n:
                suf[n - ik[1]] = meet(suf[n - ik[1]], v)
                b = ('S', pre, tuple(suf))
            elif ik[0] == 'const' and pre == TOP and ik[1] < n:
                suf[ik[1]] = meet(suf[ik[1]], v)
                b = ('S', pre, tuple(suf))
            else:
                b = meet(b, S(v))
    return b


def mutator_site(sh, call):
    """what the mutating method call x.m(args) says about the shape of x: ('base', shape) | ('idx', k, v, kind)"""
    m, args = call.func.attr, call.args
    if m in ('set', 'setdefault') and len(args) >= 2:
        return ('idx', sh.of(args[0]), sh.of(args[1]), ('any',))
    if m in ('extend', 'update') and len(args) == 1:
        a = sh.of(args[0])
        return ('base', a if (tracked(a) and a[0] == 'M') else S(sh.iter_elem(args[0])))
    if m in ('sort', 'reverse', 'pop', 'remove', 'clear', 'shift', 'delete', 'discard', 'popitem', 'popleft', 'copyWithin'):
        return ('base', S(TOP))         # nothing is stored, positions may move
    if m == 'insert' and len(args) == 2:
        args = args[1:]
    elif m == 'splice':
        args = args[2:]
    return ('base', S(meet_all([elem(sh.of(a.value)) if isinstance(a, ast.Starred) else sh.of(a) for a in args])))


def collect_sites(body, lv, sh, base, idx, extra_target=None):
    """binding sites and store sites of the LV names below body: base[name] += (shape, is_alias, node), idx[name] += (k, v, kind).
    extra_target(target_expr) -> key or None lets the caller collect sites of other targets (writer attributes) under that key."""
    def key_of(t):
        if isinstance(t, ast.Name):
            return t.id if t.id in lv else None
        return extra_target(t) if extra_target else None

    def add_base(k, shape, alias, node):
        if k is not None:
            base.setdefault(k, []).append((cap(shape), alias, node))

    def bind(t, shape, alias, node):
        if isinstance(t, (ast.Tuple, ast.List)):
            starred = False
            for i, x in enumerate(t.elts):
                if isinstance(x, ast.Starred):
                    starred = True
                    bind(x.value, homog(shape) if tracked(shape) else shape, True, node)
                else:
                    bind(x, elem(shape, ('any',) if starred else ('const', i)), True, node)
            return
        if isinstance(t, ast.Subscript):
            k = key_of(t.value)
            if k is not None:
                if isinstance(t.slice, ast.Slice):
                    base.setdefault(k, []).append((cap(S(elem(shape))), False, node))
                else:
                    idx.setdefault(k, []).append((sh.of(t.slice), cap(shape), index_kind(t.value, t.slice)))
            return
        add_base(key_of(t), shape, alias, node)

    for n in walk_shallow(body):
        if isinstance(n, ast.Assign):
            if len(n.targets) == 1 and isinstance(n.targets[0], (ast.Tuple, ast.List)) and isinstance(n.value, (ast.Tuple, ast.List)) \
                    and len(n.targets[0].elts) == len(n.value.elts) and not any(isinstance(x, ast.Starred) for x in n.targets[0].elts + n.value.elts):
                for t, v in zip(n.targets[0].elts, n.value.elts):
                    bind(t, sh.of(v), not is_fresh_expr(v, lv), n)
            else:
                for v in alternatives(n.value):         # each alternative is a binding site of its own
                    for t in n.targets:
                        bind(t, sh.of(v), not is_fresh_expr(v, lv) or len(n.targets) > 1, n)
        elif isinstance(n, ast.AnnAssign) and n.value is not None:
            for v in alternatives(n.value):
                bind(n.target, sh.of(v), not is_fresh_expr(v, lv), n)
        elif isinstance(n, ast.AugAssign):
            t = n.target
            if isinstance(t, ast.Subscript):
                k = key_of(t.value)
                if k is not None and not isinstance(t.slice, ast.Slice):
                    idx.setdefault(k, []).append((sh.of(t.slice), A, index_kind(t.value, t.slice)))
            else:
                add_base(key_of(t), S(sh.iter_elem(n.value)), False, n)
        elif isinstance(n, (ast.For, ast.AsyncFor, ast.comprehension)):
            bind(n.target, sh.iter_elem(n.iter), True, n)
        elif isinstance(n, ast.Call) and isinstance(n.func, ast.Attribute) and n.func.attr in MUTATORS:
            k = key_of(n.func.value)
            if k is not None:
                site = mutator_site(sh, n)
                if site[0] == 'idx':
                    idx.setdefault(k, []).append((site[1], cap(site[2]), site[3]))
                else:
                    base.setdefault(k, []).append((cap(site[1]), False, n))
        elif isinstance(n, ast.Delete):
            for t in n.targets:
                if isinstance(t, ast.Subscript):
                    add_base(key_of(t.value), S(TOP), False, n)


def compute_shape(body, lv, init, state):
    """flow-insensitive greatest fixpoint of the shapes of the LV names of one function (init: parameter -> shape).
    -> (env, lossy): lossy = names that alias an object whose source promises a trusted position that this name's view lost"""
    env = {n: TOP for n in lv}
    base = idx = None
    for _round in range(40):
        sh = Shaper(lv, env, state)
        base, idx = {}, {}
        for n, s0 in init.items():
            if n in lv:
                base.setdefault(n, []).append((cap(s0), True, None))
        collect_sites(body, lv, sh, base, idx)
        new = {}
        for n in lv:
            new[n] = apply_index_stores(meet_all([x[0] for x in base.get(n, [])]), idx.get(n, []))
            if n not in base and n not in idx:
                new[n] = A                      # never bound here: a free variable, nothing is known
        if new == env:
            break
        env = new
    lossy = set()
    for n in lv:
        for shape, alias, _node in base.get(n, []):
            if alias and has_trust(shape) and norm(shape) != norm(env[n]):
                lossy.add(n)
    return env, lossy


def is_self(e):
    return isinstance(e, ast.Name) and e.id in ('self', 'this')


def state_attr_root(t, state):
    """t = <state>.X followed by further subscript / attribute / call steps -> X (a store THROUGH an element of the attribute)"""
    while isinstance(t, (ast.Subscript, ast.Attribute, ast.Call)):
        if isinstance(t, ast.Attribute) and state(t.value):
            return t.attr
        t = t.func if isinstance(t, ast.Call) else t.value
    return None


def is_store_node(node):
    return isinstance(node, (ast.Call, ast.Delete, ast.AugAssign))


def attr_shapes(source):
    """ATTR_SHAPES: for every attribute name X that a method of a writer class stores to (self.X = v, self.X.append(v),
    self.X[k] = v, self.X.set(k, v), also through a local alias  name = self.X), the meet of the shapes at ALL those sites, in
    ALL methods (constructors included) of ALL writer classes; greatest fixpoint (a method may store what it loaded).
    A store through an element (self.X[k].append(v)) makes X untrusted; a method that mutates a name whose view lost a trusted
    position makes every attribute untrusted."""
    classes = [source.klass(c) for c in WRITER_CLASSES]
    classes = [c for c in classes if c is not None]
    for m in sorted(RESOLVED_METHODS):
        for _d, c, f in source.methods_named(m):
            if not any(c is x[0] for x in classes):
                classes.append((c, f))
    ATTR_SHAPES.clear()
    methods = []
    for cdef, _f in classes:
        for m in cdef.body:
            if isinstance(m, (ast.FunctionDef, ast.AsyncFunctionDef)):
                params, pnames = [], []
                for a in m.args.args:
                    pat = getattr(a, 'js_pattern', None)
                    params.append(a.arg)
                    pnames.extend(target_names(pat) if pat is not None and not isinstance(pat, ast.Name) else [a.arg])
                if params and params[0] == 'self':
                    params, pnames = params[1:], [n for n in pnames if n != 'self']
                shapes = {}
                for n in pnames:
                    shapes[n] = FLAT if n in ROW_NAMES else A
                if m.name == 'write' and params and params[-1] not in ROW_NAMES:
                    shapes[params[-1]] = ENTRY
                init = {params[-1]} if (m.name == 'write' and params) else set()
                lv = compute_lv(m.body, init | (INTEREST & set(pnames)))
                methods.append((cdef.name, m, lv, shapes))
    RET_SHAPES.clear()
    RET_SHAPES.update({(cname, m.name): TOP for cname, m, _lv, _sh in methods})      # optimistic start of the greatest fixpoint
    for _round in range(40):
        base, idx, deep, poison = {}, {}, set(), set()
        rets = {}
        for cname, m, lv, shapes in methods:
            state = (lambda e, cname=cname: cname if is_self(e) else None)
            env, lossy = compute_shape(m.body, lv, shapes, state)
            sh = Shaper(lv, env, state)
            b, ix = {}, {}
            rv = [sh.of(n.value) for n in walk_shallow(m.body) if isinstance(n, ast.Return)]
            rets[(cname, m.name)] = cap(meet_all(rv)) if rv else A

            def extra(t):
                if isinstance(t, ast.Attribute) and is_self(t.value):
                    return ('attr', t.attr)
                if isinstance(t, ast.Subscript) and not isinstance(t.slice, ast.Slice) and isinstance(t.value, ast.Attribute) and is_self(t.value.value):
                    return ('sub', t.value.attr)        # self.X[k].append(v): the value kept at X[k] is a list that receives v
                x = state_attr_root(t, is_self)
                return ('deep', x) if x is not None else None
            collect_sites(m.body, lv, sh, b, ix, extra)
            alias = {}
            for n in walk_shallow(m.body):
                if isinstance(n, ast.Assign) and len(n.targets) == 1 and isinstance(n.targets[0], ast.Name) and n.targets[0].id in lv \
                        and isinstance(n.value, ast.Attribute) and is_self(n.value.value):
                    alias.setdefault(n.targets[0].id, set()).add(n.value.attr)
            for k in set(b) | set(ix):
                if isinstance(k, tuple) and k[0] == 'attr':
                    base.setdefault((cname, k[1]), []).extend(x[0] for x in b.get(k, []))
                    idx.setdefault((cname, k[1]), []).extend(ix.get(k, []))
                elif isinstance(k, tuple) and k[0] == 'sub' and not ix.get(k):
                    idx.setdefault((cname, k[1]), []).extend((A, x[0], ('any',)) for x in b.get(k, []))
                elif isinstance(k, tuple):
                    deep.add((cname, k[1]))
                else:
                    stores = [x[0] for x in b.get(k, []) if is_store_node(x[2])]
                    if (stores or ix.get(k)) and k in lossy:
                        poison.add(cname)
                    for x in alias.get(k, ()):
                        base.setdefault((cname, x), []).extend(stores)
                        idx.setdefault((cname, x), []).extend(ix.get(k, []))
        new = {}
        for x in set(base) | set(idx) | deep:
            new[x] = A if (x[0] in poison or x in deep) else apply_index_stores(meet_all(base.get(x, [])), idx.get(x, []))
        if new == ATTR_SHAPES and rets == RET_SHAPES:
            break
        ATTR_SHAPES.clear()
        ATTR_SHAPES.update(new)
        RET_SHAPES.clear()
        RET_SHAPES.update(rets)
    return ATTR_SHAPES


def attr_shape(key, attr, default):
    """shape kept in attribute attr of class key; key '*': of some writer of the chain (any class that has the attribute)"""
    if key == '*':
        found = [v for (c, a), v in ATTR_SHAPES.items() if a == attr]
        return meet_all(found) if found else default
    return ATTR_SHAPES.get((key, attr), default)


def _container_methods():
    """every method name of the builtin CONTAINER types of both languages (a cell that is a list object has no other method)"""
    import collections
    names = set()
    for ty in (list, dict, set, frozenset, tuple, collections.OrderedDict, collections.defaultdict, collections.deque):
        names.update(n for n in dir(ty) if not n.startswith('__'))
    names.update('''at concat copyWithin entries every fill filter find findIndex findLast findLastIndex flat flatMap forEach includes indexOf join keys
        lastIndexOf map pop push reduce reduceRight reverse shift slice some sort splice toLocaleString toReversed toSorted toSpliced toString unshift
        values with length size get set has delete clear add valueOf hasOwnProperty isPrototypeOf propertyIsEnumerable'''.split())
    return names | MUTATORS | COPY_METHODS | FRESH_METHODS | ELEM_METHODS | ITER_METHODS | (READ_METHODS - {'startswith', 'endswith'})


def _builtin_methods():
    import collections
    names = set()
    for ty in (list, dict, set, frozenset, tuple, str, bytes, bytearray, int, float, collections.OrderedDict, collections.defaultdict, collections.deque):
        names.update(n for n in dir(ty) if not n.startswith('__'))
    names.update('''at concat copyWithin entries every fill filter find findIndex findLast findLastIndex flat flatMap forEach includes indexOf join keys
        lastIndexOf map pop push reduce reduceRight reverse shift slice some sort splice toLocaleString toReversed toSorted toSpliced toString unshift
        values with length size get set has delete clear add charAt charCodeAt codePointAt endsWith localeCompare match matchAll normalize padEnd padStart
        repeat replace replaceAll search split startsWith substring substr toLowerCase toUpperCase trim trimEnd trimStart valueOf hasOwnProperty
        isPrototypeOf propertyIsEnumerable toFixed toPrecision toExponential then catch finally next return throw call apply bind'''.split())
    return names | MUTATORS | COPY_METHODS | FRESH_METHODS | READ_METHODS | ELEM_METHODS | ITER_METHODS


BUILTIN_METHODS = _builtin_methods()
CONTAINER_METHODS = _container_methods()


class Shaper:
    """shape_of for one function: lv names, their shapes (env), and state(e) -> True when attributes of e are writer state
    (self / this in a writer method, query_context.writer or a writer local)"""

    def __init__(self, lv, env, state):
        self.lv, self.env, self.state = lv, env, state

    def iter_elem(self, e):
        if isinstance(e, ast.Call) and isinstance(e.func, ast.Name) and e.args:
            f = e.func.id
            if f == 'enumerate':
                return S(TOP, (A, self.iter_elem(e.args[0])))
            if f in ('reversed', 'iter', 'sorted', 'list', 'tuple'):
                return self.iter_elem(e.args[0])
            if f == 'iteritems6':
                s = self.of(e.args[0])
                return S(TOP, (s[1], s[2])) if tracked(s) and s[0] == 'M' else A
            if f in ITER_WRAPPERS:
                return A
        if isinstance(e, ast.Call) and isinstance(e.func, ast.Attribute) and e.func.attr in ITER_METHODS and not e.args:
            s = self.of(e.func.value)
            m = e.func.attr
            if tracked(s) and s[0] == 'M':
                return {'keys': s[1], 'values': s[2]}.get(m, S(TOP, (s[1], s[2])))
            if tracked(s) and m in ('entries', 'items'):
                return S(TOP, (A, elem(s)))
            if tracked(s) and m == 'values':
                return elem(s)
            return A
        s = self.of(e)
        if tracked(s) and s[0] == 'M':
            return s[1] if LANG[0] == 'py' else S(TOP, (s[1], s[2]))
        return elem(s)

    def of(self, e):
        if e is None or isinstance(e, ast.Constant):
            return A
        if isinstance(e, IterElem):
            return self.iter_elem(e.value)
        if isinstance(e, ast.Name):
            return self.env.get(e.id, A) if e.id in self.lv else A
        if isinstance(e, (ast.List, ast.Tuple, ast.Set)):
            if any(isinstance(x, ast.Starred) for x in e.elts):
                return S(meet_all([elem(self.of(x.value)) if isinstance(x, ast.Starred) else self.of(x) for x in e.elts]))
            return S(TOP, [self.of(x) for x in e.elts])
        if isinstance(e, ast.Dict):
            if not e.keys:
                return TOP
            return ('M', meet_all([self.of(k) for k in e.keys if k is not None] or [A]), meet_all([self.of(v) for v in e.values]))
        if isinstance(e, (ast.ListComp, ast.SetComp, ast.GeneratorExp)):
            return FLAT
        if isinstance(e, ast.Subscript):
            b = self.of(e.value)
            if isinstance(e.slice, ast.Slice):
                sl = e.slice
                return b if (sl.lower is None and sl.upper is None and sl.step is None and tracked(b)) else homog(b)
            return elem(b, index_kind(e.value, e.slice))
        if isinstance(e, ast.Starred):
            return elem(self.of(e.value))
        if isinstance(e, ast.BinOp):
            if isinstance(e.op, ast.Add) and listy(e, self.lv):
                r = None
                for x in flatten_add(e):
                    sx = self.of(x)
                    r = sx if r is None else concat_shape(r, sx)
                return r if tracked(r) else FLAT
            return FLAT if listy(e, self.lv) else A
        if isinstance(e, ast.IfExp):
            return meet(self.of(e.body), self.of(e.orelse))
        if isinstance(e, ast.BoolOp):
            return meet_all([self.of(x) for x in e.values])
        if isinstance(e, ast.Await):
            return self.of(e.value)
        if isinstance(e, ast.Attribute):
            key = self.state(e.value)
            if key:
                return attr_shape(key, e.attr, A)
            return A
        if isinstance(e, ast.Call):
            f = e.func
            if isinstance(f, ast.Name):
                if f.id in EMPTY_CTORS and (not e.args or f.id == 'defaultdict'):
                    return TOP
                if f.id in COPY_FUNCS and len(e.args) == 1:
                    return S(self.iter_elem(e.args[0]))
                return A
            if isinstance(f, ast.Attribute):
                m = f.attr
                if m == 'get_record':
                    return FLAT
                if m in SRC_METHODS:
                    return SRC3
                if expr_text(f) == 'Array.from' and len(e.args) == 1:
                    return S(self.iter_elem(e.args[0]))
                if m in COPY_METHODS:
                    b = self.of(f.value)
                    return b if (not e.args and tracked(b)) else homog(b)
                if m == 'concat':
                    r = self.of(f.value)
                    for a in e.args:
                        r = concat_shape(r, self.of(a))
                    return r if tracked(r) else FLAT
                if m in FRESH_METHODS:
                    return FLAT
                if m in ELEM_METHODS:
                    return elem(self.of(f.value))
                key = self.state(f.value) if is_self(f.value) else None
                if key and key != '*':
                    return RET_SHAPES.get((key, m), A)      # a method of the same class: what it returns (every return statement)
            return A
        return A


class Scope:
    def __init__(self, prefix, lv, locals_, ctx, cls, fname, label):
        self.prefix = prefix        # qualifies variable names of this function instance
        self.lv = lv
        self.depth = {}
        self.locals = locals_       # names bound in this function (parameters, assignment / loop targets)
        self.ctx = ctx              # 'engine' | 'writer'
        self.cls = cls              # (ClassDef, file) for self.method resolution, or None
        self.fname = fname
        self.label = label
        self.ret = None             # IR variable receiving list-valued return values
        self.ret_listy = False
        self.returned_in_loop = False
        self.wlocals = set()        # locals that only ever hold a writer object (rule "writer-owned state")
        self.emit_alias = set()     # parameters that stand for self.subwriter / this.subwriter (rule "receiver parameter")
        self.shape = {}             # LV name -> shape (lower bound, see "shapes")
        self.lossy = set()          # LV names whose view lost a trusted position of an object they alias: must not be mutated
        self.opaque = set()         # LV names bound to the result of an inlined call: must not be mutated
        self.owned_alias = set()    # LV names that only ever name an engine-owned list and never read its elements
        self.lazy = {}              # parameter -> LazyArg: a generator expression argument, evaluated by the loops over it


JUMPS = (ast.Return, ast.Break, ast.Continue)


def ends_with_jump(stmts):
    if not stmts:
        return False
    s = stmts[-1]
    if isinstance(s, JUMPS):
        return True
    if isinstance(s, ast.If):
        return ends_with_jump(s.body) and ends_with_jump(s.orelse)
    if isinstance(s, ast.Try) and not s.orelse and not s.finalbody:
        return ends_with_jump(s.body) and all(ends_with_jump(h.body) or always_raises(h.body) for h in s.handlers)
    return False


def may_jump_at_tail(s):
    if isinstance(s, JUMPS):
        return True
    if isinstance(s, ast.If):
        return bool((s.body and may_jump_at_tail(s.body[-1])) or (s.orelse and may_jump_at_tail(s.orelse[-1])))
    if isinstance(s, ast.Try) and not s.orelse and not s.finalbody:
        return bool((s.body and may_jump_at_tail(s.body[-1])) or any(h.body and may_jump_at_tail(h.body[-1]) for h in s.handlers))
    return False


def has_jump(stmts):
    """some path through these statements (not entering loops or nested definitions) reaches a return / break / continue"""
    for s in stmts:
        if isinstance(s, JUMPS):
            return True
        if isinstance(s, ast.If) and (has_jump(s.body) or has_jump(s.orelse)):
            return True
        if isinstance(s, ast.Try) and (has_jump(s.body) or any(has_jump(h.body) for h in s.handlers) or has_jump(s.orelse) or has_jump(s.finalbody)):
            return True
    return False


def always_raises(stmts):
    if not stmts:
        return False
    s = stmts[-1]
    if isinstance(s, ast.Raise):
        return True
    if isinstance(s, ast.If):
        return always_raises(s.body) and always_raises(s.orelse)
    if isinstance(s, ast.Expr) and isinstance(s.value, ast.Call) and isinstance(s.value.func, ast.Name) and s.value.func.id == 'throw':
        return True
    return False


class Tr:
    def __init__(self, prog, source, gen_label=None, gen_lines=None):
        self.prog = prog
        self.src = source
        self.out = []
        self.scope = None
        self.stack = []             # names of functions being inlined
        self.ninline = 0
        self.gen_label = gen_label
        self.gen_lines = gen_lines
        self.flags = []             # reasons of the never-safe statements emitted by flag()

    # -- diagnostics
    def where(self, node):
        line = getattr(node, 'lineno', 0)
        f = getattr(node, 'js_file', None) or (self.scope.fname if self.scope else '?')
        if self.gen_label and f == self.gen_label and self.gen_lines and 0 < line <= len(self.gen_lines):
            return '%s:%d [%s]' % (f, line, self.gen_lines[line - 1].strip())
        return '%s:%d' % (f, line)

    def fail(self, node, msg):
        raise TranslateError('%s: %s (in %s)' % (self.where(node), msg, self.scope.label if self.scope else '?'))

    # -- emission
    def emit(self, *s):
        self.out.append(tuple(s))

    def sub(self, fn):
        """run fn() with a fresh output buffer; returns the IR it produced"""
        saved = self.out
        self.out = []
        try:
            fn()
            return self.out
        finally:
            self.out = saved

    def v(self, name):
        return self.prog.var(self.scope.prefix + name)

    def is_lv(self, e):
        return isinstance(e, ast.Name) and e.id in self.scope.lv

    def depth(self, e):
        return depth_of(e, self.scope.lv, self.scope.depth)

    def shape(self, e):
        sc = self.scope
        return Shaper(sc.lv, sc.shape, self.state_pred(sc)).of(e)

    def flag(self, node, why):
        """a construct that could invalidate a trusted position: a statement that is never safe (a source object is mutated)"""
        t = self.prog.tmp('flag')
        self.emit('assign', t, ('src',))
        self.emit('setitem', t)
        self.flags.append('%s: %s' % (self.where(node), why))
        FLAGS.append('%s: %s: %s' % (self.prog.name, self.where(node), why))

    def check_state_store(self, target, site, node):
        """a store into the untracked container `target` (writer state, or an element of it): it must not lower a position
        that some reader trusts (inside the writer classes the site is part of ATTR_SHAPES, so this holds by construction)"""
        cur = self.shape(target)
        if not has_trust(cur):
            return
        new = apply_index_stores(cur, [site[1:]]) if site[0] == 'idx' else meet(cur, site[1])
        if norm(new) != norm(cur):
            self.flag(node, 'a store into writer state puts an untrusted value at a trusted position')

    def unknown_rhs(self, e):
        """rhs for an expression that is not list-valued by form (an untracked expression), bound to an LV name"""
        root = False
        if self.scope.ctx == 'writer':
            r = root_name(e)
            root = r in ('self', 'this') or (r is not None and r in self.scope.locals)
        if not root and not self.writer_state(e):
            return ('src',)
        # rooted at writer state: the object is owned when it IS a writer attribute (self.attr, W.attr) or sits at a position of
        # the writer's state that holds a tracked object at every store site; anything else may be a cell that got there
        # through an untracked name
        if isinstance(e, ast.Attribute) and self.state_pred(self.scope)(e.value) and attr_shape(self.state_pred(self.scope)(e.value), e.attr, TOP) != A:
            return ('load',)            # every value a writer class stores in that attribute is a tracked (SStore'd) or new object
        if tracked(self.shape(e)):
            return ('load',)
        t = self.prog.tmp('st')
        self.emit('assign', t, ('load',))
        return ('cell', t)

    def writer_value(self, v, locals_):
        """v evaluates to a writer object of the chain: query_context.writer, or a new instance of a translated writer class"""
        if expr_text(v) == 'query_context.writer':
            return True
        return (isinstance(v, ast.Call) and isinstance(v.func, ast.Name) and v.func.id in WRITER_CLASSES and v.func.id not in locals_
                and self.src.klass(v.func.id) is not None and not self.src.function(v.func.id))

    def writer_state(self, e):
        """e is W.attr or W.attr[i]..[j] (no calls, no slices) where W is query_context.writer or a writer local: an object
        read from the state of a writer of the chain - what a writer method reaches as self.attr / self.attr[i]"""
        while isinstance(e, ast.Subscript) and not isinstance(e.slice, ast.Slice):
            e = e.value
        if not isinstance(e, ast.Attribute):
            return False
        w = e.value
        return expr_text(w) == 'query_context.writer' or (isinstance(w, ast.Name) and w.id in self.scope.wlocals)

    # -- binding an expression's value to an IR variable
    def materialize(self, kind, hint='t'):
        """kind (from classify) -> an IR variable denoting the object, or None for a scalar"""
        k = kind[0]
        if k == 'var':
            return kind[1]
        t = self.prog.tmp(hint)
        if k == 'alts':
            self.assign_alts(t, kind[1])
        else:
            self.emit('assign', t, self.rhs_of(kind))
        return t

    def rhs_of(self, kind):
        k = kind[0]
        if k in ('var', 'copy', 'elem', 'cell'):
            return (k, kind[1])
        if k == 'concat':
            return ('concat', kind[1]) if kind[1] else ('fresh',)
        if k == 'fresh' or k == 'scalar':
            return ('fresh',)
        if k == 'unknown':
            return self.unknown_rhs(kind[1])
        if k == 'src':
            return ('src',)
        raise AssertionError(kind)

    def assign_alts(self, x, thunks):
        """x = one of several alternatives (IfExp / BoolOp): nested SIf; each thunk classifies its own operand"""
        def build(i):
            if i == len(thunks) - 1:
                k = thunks[i]()
                self.assign_kind(x, k)
                return
            a = self.sub(lambda: self.assign_kind(x, thunks[i]()))
            b = self.sub(lambda: build(i + 1))
            self.emit('if', a, b)
        build(0)

    def assign_kind(self, x, kind):
        if kind[0] == 'alts':
            self.assign_alts(x, kind[1])
        else:
            self.emit('assign', x, self.rhs_of(kind))

    # -- expressions
    def read(self, e):
        """evaluate e for its effects only (its value is a scalar or is dropped)"""
        k = self.classify(e)
        if k[0] == 'alts':
            for th in k[1]:
                th()
        return k

    def escape(self, e, mutate, row_ok=False, state=False):
        """the value of e escapes (stored in a container / attribute, or handed to unknown code when mutate).
        row_ok: the destination is a flat row (its cells are never trusted), so storing a CELL there needs no statement"""
        if isinstance(e, ast.Starred):
            e = ast.Subscript(value=e.value, slice=ast.Constant(value=0), ctx=ast.Load(), lineno=getattr(e, 'lineno', 0))
        if isinstance(e, (ast.List, ast.Tuple, ast.Set)):
            inner_row = self.depth(e) <= 1
            for x in e.elts:
                if not mutate and not isinstance(x, ast.Starred) and not tracked(self.shape(x)):
                    self.read(x)        # this position of the display has shape A: whoever reads it gets a CELL
                else:
                    self.escape(x, mutate, inner_row and not mutate)
            if not mutate:
                return
            return
        if isinstance(e, ast.Dict):
            for x in list(e.keys) + list(e.values):
                if x is not None:
                    self.escape(x, mutate)
            return
        k = self.classify(e)
        if k[0] in ('scalar', 'unknown'):
            return
        if (k[0] == 'cell' or not tracked(self.shape(e))) and row_ok and not mutate:
            return                      # an untrusted value (a cell, the result of untranslated / resolved code) put into a flat row
        if state and not mutate and not tracked(self.shape(e)):
            return                      # kept in untracked state at a position that no reader trusts (shape A): it comes back as a CELL
        x = self.materialize(k, 'esc')
        if mutate:
            self.emit('setitem', x)
        self.emit('store', x)

    def concat_operands(self, e):
        """operands of a list concatenation: IR variables of the list-valued parts"""
        if isinstance(e, ast.BinOp) and isinstance(e.op, ast.Add):
            return self.concat_operands(e.left) + self.concat_operands(e.right)
        if isinstance(e, ast.Call) and isinstance(e.func, ast.Attribute) and e.func.attr == 'concat':
            ops = self.concat_operands(e.func.value)
            for a in e.args:
                if isinstance(a, ast.Starred):
                    self.fail(a, 'spread argument of concat')
                ops += self.concat_operands(a)
            return ops
        if isinstance(e, (ast.List, ast.Tuple)):
            self.classify(e)
            return []
        k = self.classify(e)
        if k[0] in ('scalar',):
            return []
        if k[0] == 'unknown':
            if self.scope.ctx == 'engine':
                x = self.materialize(k, 'cat')
                return [x]
            return []
        x = self.materialize(k, 'cat')
        return [x]

    def check_lambda(self, lam):
        params = set()
        for a in lam.args.args + lam.args.kwonlyargs + ([lam.args.vararg] if lam.args.vararg else []):
            params.add(a.arg)
            p = getattr(a, 'js_pattern', None)
            if p is not None:
                params.update(target_names(p))
        body = lam.body if isinstance(lam.body, list) else [lam.body]
        bound = set(params)
        for n in walk_all(body):
            if isinstance(n, ast.Assign):
                for t in n.targets:
                    bound.update(target_names(t))
        for n in walk_all(body):
            if isinstance(n, ast.Name) and n.id in self.scope.lv and n.id not in bound:
                self.fail(n, 'closure mentions the list variable %r of the enclosing function' % n.id)

    def classify(self, e):
        """-> ('var', x) | ('copy', x) | ('concat', [x..]) | ('fresh',) | ('elem', x) | ('scalar',) | ('unknown', expr) |
        ('src',) | ('alts', [thunk..]); emits the statements the evaluation of e performs"""
        sc = self.scope
        if isinstance(e, ast.Constant):
            return ('scalar',)
        if isinstance(e, ast.Name):
            if e.id in sc.lv:
                return ('var', self.v(e.id))
            return ('unknown', e)
        if isinstance(e, ast.JoinedStr):
            for x in e.values:
                if isinstance(x, ast.FormattedValue):
                    self.read(x.value)
            return ('scalar',)
        if isinstance(e, ast.FormattedValue):
            self.read(e.value)
            return ('scalar',)
        if isinstance(e, (ast.Compare,)):
            self.read(e.left)
            for x in e.comparators:
                self.read(x)
            return ('scalar',)
        if isinstance(e, ast.UnaryOp):
            self.read(e.operand)
            return ('scalar',)
        if isinstance(e, ast.BoolOp):
            if any(listy(x, sc.lv) for x in e.values):
                return ('alts', [(lambda x=x: self.classify(x)) for x in e.values])
            for x in e.values:
                self.read(x)
            return ('scalar',)
        if isinstance(e, ast.IfExp):
            self.read(e.test)
            if listy(e.body, sc.lv) or listy(e.orelse, sc.lv) or self.is_lv(e.body) or self.is_lv(e.orelse):
                return ('alts', [lambda: self.classify(e.body), lambda: self.classify(e.orelse)])
            ka = self.classify(e.body)
            kb = self.classify(e.orelse)
            if ka[0] == 'scalar' and kb[0] == 'scalar':
                return ('scalar',)
            if ka[0] in ('scalar', 'unknown') and kb[0] in ('scalar', 'unknown'):
                return ka if ka[0] == 'unknown' else kb
            # an element / load in one branch: keep it as alternatives (statements were already emitted once; harmless)
            return ('alts', [lambda: ka, lambda: kb])
        if isinstance(e, ast.BinOp):
            if isinstance(e.op, ast.Add) and listy(e, sc.lv):
                return ('concat', self.concat_operands(e))
            self.read(e.left)
            self.read(e.right)
            return ('fresh',) if listy(e, sc.lv) else ('scalar',)
        if isinstance(e, (ast.List, ast.Tuple, ast.Set)):
            row = self.depth(e) <= 1
            for x in e.elts:
                if isinstance(x, ast.Starred) or not tracked(self.shape(x)):
                    self.read(x.value if isinstance(x, ast.Starred) else x)     # a position of shape A: read back as a CELL
                else:
                    self.escape(x, False, row)
            return ('fresh',)
        if isinstance(e, ast.Dict):
            for x in list(e.keys) + list(e.values):
                if x is not None:
                    self.escape(x, False)
            return ('scalar',)
        if isinstance(e, (ast.ListComp, ast.SetComp, ast.GeneratorExp, ast.DictComp)):
            bound = set()
            for g in e.generators:
                bound.update(target_names(g.target))
            parts = [e.elt] if not isinstance(e, ast.DictComp) else [e.key, e.value]
            outer = any(isinstance(n, ast.Name) and n.id in sc.lv and n.id not in bound for n in walk_all(parts))
            resolved = any(isinstance(n, ast.Call) and isinstance(n.func, ast.Attribute) and n.func.attr in RESOLVED_METHODS for n in walk_all(parts))
            if (outer or resolved) and not any(g.is_async for g in e.generators) and not (bound & sc.locals):
                # the comprehension as the loop it is: every generator binds its targets like a for statement, the element is
                # evaluated per step and ESCAPES into the new list (SStore for a tracked object; the elements of the result are
                # never trusted, so a cell needs no statement)
                def gen(i):
                    if i == len(e.generators):
                        for x in parts:
                            self.read(x)        # no SStore: the elements of the result are never read back as owned objects
                        return
                    g = e.generators[i]
                    it = unwrap_iter(g.iter)
                    k = self.classify(it)
                    if k[0] not in ('scalar', 'unknown', 'src', 'var'):
                        k = ('var', self.materialize(k, 'it'))
                    d = self.depth(it)
                    es = self.shape(IterElem(value=g.iter))

                    def body():
                        self.bind_iter(g.target, k, d, g, es)
                        for c in g.ifs:
                            self.read(c)
                        gen(i + 1)
                    self.emit('for', self.sub(body))
                gen(0)
                return ('fresh',)
            for g in e.generators:
                self.read(unwrap_iter(g.iter))
                for c in g.ifs:
                    self.read(c)
            for n in walk_all(parts):
                if isinstance(n, ast.Name) and n.id in sc.lv and n.id not in bound:
                    self.fail(n, 'list variable %r inside a comprehension element' % n.id)
            return ('fresh',)
        if isinstance(e, ast.Lambda):
            self.check_lambda(e)
            return ('scalar',)
        if isinstance(e, ast.Await):
            return self.classify(e.value)
        if isinstance(e, ast.Starred):
            return self.classify(ast.Subscript(value=e.value, slice=ast.Constant(value=0), ctx=ast.Load(), lineno=getattr(e, 'lineno', 0)))
        if isinstance(e, ast.Subscript):
            if isinstance(e.slice, ast.Slice):
                for x in (e.slice.lower, e.slice.upper, e.slice.step):
                    if x is not None:
                        self.read(x)
                kb = self.classify(e.value)
                if kb[0] == 'var':
                    return ('copy', kb[1])
                if kb[0] in ('scalar', 'unknown'):
                    return ('fresh',)
                return ('copy', self.materialize(kb, 'sl'))
            self.read(e.slice)
            kb = self.classify(e.value)
            if kb[0] in ('scalar',):
                return ('scalar',)
            if kb[0] == 'unknown':
                return ('unknown', e)
            if self.depth(e.value) <= 1 or not tracked(self.shape(e)):
                # a cell of a flat record (rows are copied shallowly), or a position that is not known to hold a tracked
                # object at every binding / store site: never owned
                return ('cell', self.materialize(kb, 'row'))
            return ('elem', self.materialize(kb, 'el'))
        if isinstance(e, ast.Attribute):
            if self.is_lv(e.value):
                if e.attr in ('length', 'size'):
                    return ('scalar',)
                if e.attr not in BUILTIN_METHODS:
                    # not an attribute of a builtin list (reading it raises there): the variable holds some other object (a
                    # cell value such as an aggregation token); what its field holds is never trusted
                    return ('cell', self.v(e.value.id))
                self.fail(e, 'attribute %r of list variable %r outside a call' % (e.attr, e.value.id))
            kb = self.classify(e.value)
            if kb[0] in ('scalar', 'unknown'):
                return ('unknown', e)
            if e.attr in ('length', 'size'):
                return ('scalar',)
            self.fail(e, 'attribute %r of a list-valued expression' % e.attr)
        if isinstance(e, ast.Call):
            return self.call(e)
        self.fail(e, 'expression form %s is outside the translated subset' % type(e).__name__)

    # -- calls
    def call(self, c):
        sc = self.scope
        f = c.func
        kwvals = [k.value for k in getattr(c, 'keywords', [])]
        # 1. emit
        if is_emit_call(c, sc.emit_alias):
            if not c.args:
                self.fail(c, 'write() without a record argument')
            for i, a in enumerate(c.args):
                last = i == len(c.args) - 1
                k = self.classify(a)
                if k[0] in ('scalar', 'unknown') and not last:
                    continue
                x = self.materialize(k, 'out')
                sa = self.shape(a)
                if last and has_trust(sa) and norm(meet(sa, ENTRY)) != norm(ENTRY):
                    self.flag(c, 'the emitted object has trusted positions but is not an entry (key values.., number, row)')
                self.emit('emit', x)
            return ('scalar',)
        ftext = expr_text(f)
        if isinstance(f, ast.Attribute) and f.attr == 'finish' and is_emit_receiver(f.value, sc.emit_alias) and not c.args:
            return ('scalar',)          # finish of the next writer: run by finish_chain in the model
        # 2. sources
        if isinstance(f, ast.Attribute) and f.attr in SRC_METHODS:
            for a in c.args + kwvals:
                self.read(a)
            self.read(f.value)
            return ('src',)
        # 3. functions defined in the translated files
        if isinstance(f, ast.Name) and f.id not in sc.lv:
            cands = self.src.function(f.id)
            if cands:
                if len(cands) > 1:
                    self.fail(c, 'call of %r: %d definitions with that name' % (f.id, len(cands)))
                return self.inline(cands[0][0], cands[0][1], c.args, c, None)
            ctor = self.constructor_of(f.id)
            if ctor is not None and f.id not in sc.locals:
                # [new] C(..) for a class of the translated files: its constructor runs (what it keeps in attributes: store rule)
                self.inline(ctor[0], ctor[2], c.args, c, (ctor[1], ctor[2]), 'writer')
                return ('unknown', c)
        # 4. methods of the current class
        if isinstance(f, ast.Attribute) and isinstance(f.value, ast.Name) and f.value.id in ('self', 'this') and sc.cls is not None:
            targets = self.resolve_method(f.attr)
            if targets:
                if len(targets) == 1:
                    return self.inline(targets[0], sc.cls[1], c.args, c, sc.cls)
                kinds = []
                res = self.prog.tmp('poly')

                def build(i):
                    def one(m):
                        k = self.inline(m, sc.cls[1], c.args, c, sc.cls)
                        kinds.append(k)
                        if k[0] in ('scalar', 'unknown'):
                            self.emit('assign', res, ('fresh',), 'ret')
                        else:
                            self.assign_kind(res, k)
                    if i == len(targets) - 1:
                        one(targets[i])
                        return
                    a = self.sub(lambda: one(targets[i]))
                    b = self.sub(lambda: build(i + 1))
                    self.emit('if', a, b)
                build(0)
                if all(k[0] in ('scalar', 'unknown') for k in kinds):
                    self.out[:] = strip_assigns(self.out, res)
                    return ('scalar',)
                return ('var', res)
        # 5. whitelisted pure functions
        if isinstance(f, ast.Name) and f.id in COPY_FUNCS:
            if len(c.args) == 1 and not kwvals:
                k = self.classify(unwrap_iter(c.args[0]) if f.id != 'sorted' else c.args[0])
                if k[0] in ('scalar', 'unknown'):
                    return ('fresh',)
                return ('copy', self.materialize(k, 'cp'))
            for a in c.args + kwvals:
                self.read(a)
            return ('fresh',)
        if isinstance(f, ast.Name) and (f.id in PURE_FUNCS or f.id in ITER_WRAPPERS):
            for a in c.args + kwvals:
                self.read(a)
            return ('scalar',)
        if isinstance(f, ast.Attribute) and isinstance(f.value, ast.Name) and f.value.id in PURE_NAMESPACES and f.value.id not in sc.lv:
            if ftext == 'Array.from' and len(c.args) == 1:
                k = self.classify(c.args[0])
                if k[0] in ('scalar', 'unknown'):
                    return ('fresh',)
                return ('copy', self.materialize(k, 'cp'))
            for a in c.args + kwvals:
                self.read(a)
            return ('scalar',)
        # 6./7. methods
        if isinstance(f, ast.Attribute):
            m = f.attr
            if m == 'concat':
                return ('concat', self.concat_operands(c))
            if m == 'join' and not self.is_lv(f.value) and not listy(f.value, sc.lv):
                self.read(f.value)
                for a in c.args:
                    self.read(a)
                return ('scalar',)
            if m == 'format' and (isinstance(f.value, ast.Constant) or (expr_text(f.value) is not None and root_name(f.value) not in sc.lv)):
                for a in c.args + kwvals:
                    self.read(a)
                return ('scalar',)
            if expr_text(f.value) in IO_RECEIVERS or isinstance(f.value, ast.Constant):
                for a in c.args + kwvals:
                    self.read(a)            # I/O; a method of a string / regular expression / number LITERAL only reads its arguments
                return ('scalar',)
            kr = self.classify(f.value)
            if kr[0] in ('cell', 'unknown') and m in RESOLVED_METHODS and not kwvals and not any(isinstance(a, ast.Starred) for a in c.args):
                # an engine-object method that is resolved BY NAME: the receiver is an atom / builtin list (the call raises) or
                # an instance of one of the classes of the translated files that define m: one branch per definition
                cands = self.src.methods_named(m)
                if cands:
                    res = self.prog.tmp('poly')
                    kinds = []

                    def build(i):
                        def one(cand):
                            k = self.inline(cand[0], cand[2], c.args, c, (cand[1], cand[2]), 'writer')
                            kinds.append(k)
                            if k[0] in ('scalar', 'unknown'):
                                self.emit('assign', res, ('fresh',), 'ret')
                            else:
                                self.assign_kind(res, k)
                        if i == len(cands) - 1:
                            one(cands[i])
                            return
                        a = self.sub(lambda: one(cands[i]))
                        b = self.sub(lambda: build(i + 1))
                        self.emit('if', a, b)
                    build(0)
                    if all(k[0] in ('scalar', 'unknown') for k in kinds):
                        self.out[:] = strip_assigns(self.out, res)
                        return ('unknown', c)
                    return ('var', res)
            if kr[0] not in ('scalar', 'unknown') and m not in CONTAINER_METHODS:
                # a method that no builtin container has (a string method, a method of an engine object): the list objects of
                # the model are builtin lists / arrays (ASSUMED), so the call raises or the receiver is no list object at all
                for a in c.args + kwvals:
                    self.escape_arg_unknown(a)
                return ('unknown', c)
            if kr[0] not in ('scalar', 'unknown'):
                x = self.materialize(kr, 'rcv')
                if m in MUTATORS:
                    if isinstance(f.value, ast.Name) and f.value.id in (sc.lossy | sc.opaque):
                        self.flag(c, 'mutation through %r, whose view of the object may differ from that of another name' % f.value.id)
                    # an untrusted value needs no SStore when nobody trusts the elements of the receiver: a flat row (depth), or a
                    # NAME whose shape - equal to the shape every object it aliases promises (else flagged above) - has
                    # untrusted elements
                    flat = self.depth(f.value) <= 1 or (isinstance(f.value, ast.Name) and f.value.id not in (sc.lossy | sc.opaque)
                                                        and not tracked(elem(self.shape(f.value))) and not has_trust(self.shape(f.value)))
                    for a in c.args + kwvals:
                        self.escape(a, False, flat)
                    self.emit('setitem', x)
                    if m in ELEM_METHODS:
                        return ('elem', x) if (self.depth(f.value) > 1 and tracked(self.shape(c))) else ('cell', x)
                    return ('scalar',)
                if m in COPY_METHODS:
                    for a in c.args + kwvals:
                        self.read(a)
                    return ('copy', x)
                if m in FRESH_METHODS:
                    for a in c.args + kwvals:
                        self.read(a)
                    return ('fresh',)
                if m in READ_METHODS:
                    for a in c.args + kwvals:
                        self.read(a)
                    if m in ELEM_METHODS:
                        return ('elem', x) if (self.depth(f.value) > 1 and tracked(self.shape(c))) else ('cell', x)
                    return ('scalar',)
                # unknown method of a list object
                self.emit('setitem', x)
                self.emit('store', x)
                for a in c.args + kwvals:
                    self.escape(a, True)
                return ('unknown', c)
            # receiver is not a list object of interest
            if m in MUTATORS:
                self.check_state_store(f.value, mutator_site(Shaper(sc.lv, sc.shape, self.state_pred(sc)), c), c)
                for a in c.args + kwvals:
                    self.escape(a, False, True, True)   # untracked container: an untrusted value stored there comes back as a CELL (shapes)
                return ('unknown', c)
            if m in READ_METHODS or m in COPY_METHODS or m in FRESH_METHODS:
                for a in c.args + kwvals:
                    self.read(a)            # ASSUMED: a method with the name of a read-only builtin method does not change its arguments
                return ('unknown', c)
            for a in c.args + kwvals:
                self.escape_arg_unknown(a)
            return ('unknown', c)
        # 8. unknown plain call
        if isinstance(f, ast.Name) and f.id in sc.lv:
            self.fail(c, 'call of the list variable %r' % f.id)
        if not isinstance(f, ast.Name):
            self.read(f)
        for a in c.args + kwvals:
            self.escape_arg_unknown(a)
        return ('unknown', c)

    def escape_arg_unknown(self, a):
        """argument of a call whose callee is not known: list objects among the arguments may be changed and kept"""
        if isinstance(a, ast.Lambda):
            self.check_lambda(a)
            return
        self.escape(a, True)

    def resolve_method(self, name):
        cls = self.scope.cls[0]
        for m in cls.body:
            if isinstance(m, (ast.FunctionDef, ast.AsyncFunctionDef)) and m.name == name:
                return [m]
        # attribute holding one of several methods:  self.name = self.m1 / this.name = this.m2
        found = []
        for n in walk_all(cls.body):
            if isinstance(n, ast.Assign) and len(n.targets) == 1 and expr_text(n.targets[0]) in ('self.' + name, 'this.' + name):
                v = n.value
                if isinstance(v, ast.Constant) and v.value is None:
                    continue
                t = expr_text(v)
                if t and (t.startswith('self.') or t.startswith('this.')):
                    ms = [m for m in cls.body if isinstance(m, (ast.FunctionDef, ast.AsyncFunctionDef)) and m.name == t.split('.', 1)[1]]
                    if ms:
                        if ms[0] not in found:
                            found.append(ms[0])
                        continue
                return []          # assigned something else: treat the call as unknown
        return found

    def inline(self, fdef, ffile, args, callnode, cls, ctx=None):
        name = fdef.name
        if name in self.stack or len(self.stack) > 12:
            # recursion: the arguments may be changed / kept by the callee
            for a in args:
                self.escape_arg_unknown(a)
            return ('unknown', callnode)
        params = [a for a in fdef.args.args]
        if params and params[0].arg in ('self',) and cls is not None:
            params = params[1:]
        if any(isinstance(a, ast.Starred) for a in args) or getattr(callnode, 'keywords', []):
            for a in args + [k.value for k in getattr(callnode, 'keywords', [])]:
                self.escape_arg_unknown(a)
            return ('unknown', callnode)
        if len(args) > len(params) and fdef.args.vararg is None:
            self.fail(callnode, 'call of %s with %d arguments for %d parameters' % (name, len(args), len(params)))
        pnames = []
        for p in params:
            pat = getattr(p, 'js_pattern', None)
            pnames.append(target_names(pat) if pat is not None and not isinstance(pat, ast.Name) else [p.arg])
        # receiver parameters (the argument is self.subwriter / this.subwriter, or such a parameter of the caller) and lazy
        # parameters (the argument is a generator expression that the callee only iterates); neither may be rebound
        rebound = bound_names(fdef.body)
        emit_alias, lazy = set(), {}
        for i, a in enumerate(args):
            if i >= len(pnames) or len(pnames[i]) != 1 or pnames[i][0] in rebound or [n for ns in pnames for n in ns].count(pnames[i][0]) != 1:
                continue
            if expr_text(a) in ('self.subwriter', 'this.subwriter') or (isinstance(a, ast.Name) and a.id in self.scope.emit_alias):
                emit_alias.add(pnames[i][0])
            elif isinstance(a, ast.GeneratorExp) and len(a.generators) == 1 and not a.generators[0].is_async \
                    and only_iterated(fdef.body, pnames[i][0]) and not (set(target_names(a.generators[0].target)) & self.scope.locals):
                lazy[pnames[i][0]] = i
        # classify the arguments in the caller's scope
        kinds = []
        for i, a in enumerate(args):
            if i < len(pnames) and len(pnames[i]) == 1 and pnames[i][0] in lazy:
                g = a.generators[0]
                it = unwrap_iter(g.iter)
                k = self.classify(it)                   # the outermost iterable is evaluated when the generator is created
                if k[0] not in ('scalar', 'unknown', 'src', 'var'):
                    k = ('var', self.materialize(k, 'it'))
                lazy[pnames[i][0]] = LazyArg(a, k, self.depth(it), self.scope)
                kinds.append(('scalar',))
            else:
                kinds.append(self.classify(a))
        self.ninline += 1
        prefix = '%s#%d.' % (name, self.ninline)
        init = set()
        for i, k in enumerate(kinds):
            if i < len(pnames) and k[0] not in ('scalar', 'unknown') and len(pnames[i]) == 1:
                init.add(pnames[i][0])
        pdepth = {}
        for i, ns in enumerate(pnames):
            if len(ns) == 1:
                pdepth[ns[0]] = self.depth(args[i]) if i < len(args) else 0
                if ns[0] in lazy:
                    de = self.depth(args[i].elt)        # the loop variable of `for T in <parameter>` has the depth of the element
                    pdepth[ns[0]] = INF if de >= INF else de + 1
        pshape = {}
        for i, ns in enumerate(pnames):
            if i < len(args):
                sa = S(self.shape(args[i].elt)) if (len(ns) == 1 and ns[0] in lazy) else self.shape(args[i])
                for n in ns:
                    pshape[n] = sa if len(ns) == 1 else elem(sa)
        new = self.make_scope(fdef.body, [n for ns in pnames for n in ns], init, prefix, ctx or self.scope.ctx,
                              cls, ffile, '%s (%s:%d)' % (name, ffile, getattr(fdef, 'lineno', 0)), pdepth, emit_alias, pshape,
                              [ns[0] for i, ns in enumerate(pnames) if len(ns) == 1 and i < len(args) and isinstance(args[i], ast.Name)
                               and args[i].id in (self.scope.lossy | self.scope.opaque)])
        new.lazy = lazy
        if emit_alias & new.lv:
            self.fail(callnode, 'the receiver parameter %s of %s is used as a list' % (sorted(emit_alias & new.lv), name))
        caller = self.scope
        # bind parameters
        binds = []
        for i, ns in enumerate(pnames):
            k = kinds[i] if i < len(kinds) else ('scalar',)
            if len(ns) != 1:
                if k[0] not in ('scalar', 'unknown') and self.depth(args[i]) > 1:
                    src = self.materialize(k, 'arg')
                    for n in ns:
                        if n in new.lv:
                            binds.append((n, ('elem', src) if tracked(elem(self.shape(args[i]))) else ('cell', src)))
                continue
            n = ns[0]
            if n in new.lv:
                if k[0] == 'unknown':
                    binds.append((n, self.unknown_rhs(k[1])))
                elif k[0] == 'scalar':
                    binds.append((n, ('fresh',)))
                elif k[0] == 'alts':
                    t = self.materialize(k, 'arg')
                    binds.append((n, ('var', t)))
                else:
                    binds.append((n, self.rhs_of(k)))
        self.scope = new
        self.stack.append(name)
        try:
            def body():
                for n, r in binds:
                    self.emit('assign', self.v(n), r)
                new.ret = self.prog.var(prefix + '<return>')
                self.block(fdef.body, tail='func')
            ir = self.sub(body)
        finally:
            self.stack.pop()
            self.scope = caller
        ir, _ = check_return_in_loop(ir, new.label)
        if not new.ret_listy:
            ir = strip_assigns(ir, new.ret)
        self.out.extend(ir)
        if new.ret_listy:
            return ('var', new.ret)
        return ('scalar',)

    def make_scope(self, body, params, init_lv, prefix, ctx, cls, fname, label, param_depth=None, emit_alias=(), param_shape=None, opaque_params=()):
        locals_ = set(params)
        for n in walk_shallow(body):
            if isinstance(n, ast.Assign):
                for t in n.targets:
                    locals_.update(target_names(t))
            elif isinstance(n, (ast.For,)):
                locals_.update(target_names(n.target))
            elif isinstance(n, ast.AnnAssign):
                locals_.update(target_names(n.target))
            elif isinstance(n, ast.ExceptHandler) and n.name:
                locals_.add(n.name)
        lv = compute_lv(body, set(init_lv) | (INTEREST & set(params)), emit_alias)
        probe = Scope(prefix, lv, locals_, ctx, cls, fname, label)
        probe.emit_alias = set(emit_alias)
        for n in walk_shallow(body):
            # a local name handed to untranslated code is tracked: if it holds a cell (or a source), the call is judged as such
            if isinstance(n, ast.Call) and self.unknown_callee(n, probe):
                lv |= ({a.id for a in n.args + [k.value for k in getattr(n, 'keywords', [])] if isinstance(a, ast.Name)} & locals_) - NEVER_LV - set(emit_alias)
        sc = Scope(prefix, lv, locals_, ctx, cls, fname, label)
        sc.emit_alias = set(emit_alias)
        sc.owned_alias = owned_aliases(body, params) & lv
        sc.wlocals = self.writer_locals(body, params, locals_) - lv - NEVER_LV
        pd = dict(param_depth or {})
        for p in params:
            if p in lv and p not in pd:
                pd[p] = INF
        sc.depth = compute_depth(body, lv, pd)
        ps = dict(param_shape or {})
        for p in params:
            if p in lv and p not in ps:
                ps[p] = A
        sc.shape, sc.lossy = compute_shape(body, lv, ps, self.state_pred(sc))
        for n in walk_shallow(body):
            if isinstance(n, ast.Assign) and isinstance(n.value, ast.Call) and self.is_inlined_call(n.value, sc):
                sc.opaque.update(x for t in n.targets for x in target_names(t) if x in lv)
        sc.opaque.update(set(opaque_params) & lv)
        changed = True
        while changed:                  # whatever is bound (not to a new object) from such a name inherits the doubt
            changed = False
            bad = sc.lossy | sc.opaque
            for n in walk_shallow(body):
                v, ts = None, []
                if isinstance(n, ast.Assign):
                    v, ts = n.value, n.targets
                elif isinstance(n, ast.AnnAssign) and n.value is not None:
                    v, ts = n.value, [n.target]
                elif isinstance(n, (ast.For, ast.AsyncFor, ast.comprehension)):
                    v, ts = n.iter, [n.target]
                if v is None or (is_fresh_expr(v, lv) and not isinstance(n, (ast.For, ast.AsyncFor, ast.comprehension))):
                    continue
                if any(isinstance(x, ast.Name) and x.id in bad for x in walk_all(v)):
                    new = {x for t in ts for x in target_names(t) if x in lv} - bad
                    if new:
                        sc.opaque.update(new)
                        changed = True
        return sc

    def state_pred(self, sc):
        """e -> the class whose state the attributes of e are (self / this in a method of that class), '*' for a writer of the
        chain whose class is not known (query_context.writer, a writer local), None when e is not writer state"""
        def pred(e):
            if sc.ctx == 'writer' and is_self(e):
                return sc.cls[0].name if sc.cls is not None else '*'
            if expr_text(e) == 'query_context.writer' or (isinstance(e, ast.Name) and e.id in sc.wlocals):
                return '*'
            return None
        return pred

    def constructor_of(self, cname):
        got = self.src.klass(cname) if not self.src.function(cname) else None
        if got is None:
            return None
        for m in got[0].body:
            if isinstance(m, (ast.FunctionDef, ast.AsyncFunctionDef)) and m.name in ('__init__', 'constructor'):
                return (m, got[0], got[1])
        return None

    def unknown_callee(self, c, sc):
        """the call c goes to code that is neither translated nor one of the known read-only / container operations"""
        f = c.func
        if isinstance(f, ast.Name):
            if f.id in PURE_FUNCS or f.id in COPY_FUNCS or f.id in ITER_WRAPPERS or f.id in LISTY_FUNCS or f.id in EMPTY_CTORS or f.id == 'throw':
                return False
            return not (self.src.function(f.id) or self.constructor_of(f.id))
        if isinstance(f, ast.Attribute):
            m = f.attr
            if m in MUTATORS or m in COPY_METHODS or m in FRESH_METHODS or m in READ_METHODS or m in ELEM_METHODS or m in ITER_METHODS \
                    or m in SRC_METHODS or m in RESOLVED_METHODS or m in ('format', 'join', 'concat'):
                return False
            if m in ('write', 'finish') and is_emit_receiver(f.value, sc.emit_alias if sc else ()):
                return False
            if expr_text(f.value) in IO_RECEIVERS or (isinstance(f.value, ast.Name) and f.value.id in PURE_NAMESPACES):
                return False
            if is_self(f.value) and sc is not None and sc.cls is not None and any(
                    isinstance(d, (ast.FunctionDef, ast.AsyncFunctionDef)) and d.name == m for d in sc.cls[0].body):
                return False
            return True
        return True

    def is_inlined_call(self, c, sc):
        f = c.func
        if isinstance(f, ast.Name) and f.id not in sc.lv:
            return bool(self.src.function(f.id))
        return isinstance(f, ast.Attribute) and is_self(f.value) and sc.cls is not None and any(
            isinstance(m, (ast.FunctionDef, ast.AsyncFunctionDef)) and m.name == f.attr for m in sc.cls[0].body)

    def writer_locals(self, body, params, locals_):
        """names whose EVERY binding site in this function (nested closures included) is a plain  name = <writer value>"""
        good, skip = set(), set()
        for n in walk_all(body):
            if isinstance(n, ast.Assign) and len(n.targets) == 1 and isinstance(n.targets[0], ast.Name) and self.writer_value(n.value, locals_):
                good.add(n.targets[0].id)
                skip.add(id(n))
        return good - bound_names(body, skip) - set(params)

    # -- statements
    def block(self, stmts, tail):
        """tail: 'func' (end of the function body), 'loop' (end of a loop body), None (something follows)"""
        stmts = list(stmts)
        i = 0
        while i < len(stmts):
            s = stmts[i]
            rest = stmts[i + 1:]
            last = not rest
            if isinstance(s, JUMPS):
                self.jump(s, tail)
                return                  # anything after a jump is dead code
            if isinstance(s, ast.If) and rest and has_jump([s]):
                # some path through this `if` ends with return / break / continue: move the rest of the block into every
                # branch that can fall through (recursively, when the branch is translated)
                body, orelse = list(s.body), list(s.orelse)
                if not ends_with_jump(body):
                    body = body + rest
                if not ends_with_jump(orelse):
                    orelse = orelse + rest
                s2 = ast.If(test=s.test, body=body, orelse=orelse)
                ast.copy_location(s2, s)
                for attr in ('js_file',):
                    if hasattr(s, attr):
                        setattr(s2, attr, getattr(s, attr))
                self.stmt(s2, tail)
                return
            body_returns = isinstance(s, ast.Try) and bool(s.body) and isinstance(s.body[-1], ast.Return) \
                and not any(isinstance(n, JUMPS) for n in walk_shallow(s.body[:-1]))
            if isinstance(s, ast.Try) and rest and not s.orelse and not s.finalbody and s.handlers \
                    and (body_returns or any(has_jump(h.body) for h in s.handlers)):
                # a handler leaves by return / break / continue while statements follow the try: the body runs (any part
                # of it), then EITHER one handler runs - followed by the rest of the block if it can fall through - OR the
                # rest of the block runs.  When the body itself ends with `return e` (its only jump): EITHER the whole body
                # runs and returns, OR any part of it (e evaluated for its effects) and then a handler / the rest as above.
                if body_returns:
                    ret = s.body[-1]
                    wo = list(s.body[:-1]) + ([ast.copy_location(ast.Expr(value=ret.value), ret)] if ret.value is not None else [])
                    whole = self.sub(lambda: self.block(s.body, tail))
                    part = self.sub(lambda: self.block(wo, None))
                else:
                    whole = None
                    part = self.sub(lambda: self.block(s.body, None))
                outer = self.out
                if whole is not None:
                    self.out = []
                self.out.extend(optional(part))

                def chain(j):
                    if j == len(s.handlers):
                        self.block(rest, tail)
                        return
                    h = s.handlers[j]
                    hb = list(h.body) if (ends_with_jump(h.body) or always_raises(h.body)) else list(h.body) + rest
                    a = self.sub(lambda: self.block(hb, tail))
                    b = self.sub(lambda: chain(j + 1))
                    self.emit('if', a, b)
                chain(0)
                if whole is not None:
                    alt = self.out
                    self.out = outer
                    self.emit('if', whole, alt)
                return
            self.stmt(s, tail if last else None)
            i += 1

    def jump(self, s, tail):
        sc = self.scope
        if isinstance(s, ast.Return):
            if sc.ret is not None:
                k = self.classify(s.value) if s.value is not None else ('scalar',)
                if k[0] in ('scalar', 'unknown'):
                    # an untracked value: keep the return variable bound on every path (a dummy non-source object)
                    self.emit('assign', sc.ret, ('fresh',), 'ret')
                elif k[0] == 'alts':
                    sc.ret_listy = True
                    t = self.materialize(k, 'ret')
                    self.emit('assign', sc.ret, ('var', t), 'ret')
                else:
                    sc.ret_listy = True
                    self.emit('assign', sc.ret, self.rhs_of(k), 'ret')
            elif s.value is not None:
                self.read(s.value)
            if tail == 'func':
                return
            if tail == 'loop':
                sc.returned_in_loop = True
                return
            self.fail(s, 'return in a position that is not the end of the function or of a loop body')
        if tail == 'loop':
            return                      # break / continue at the end of a loop body: the iteration simply ends
        self.fail(s, '%s in a position that is not the end of a loop body' % type(s).__name__.lower())

    def bind_target(self, t, kind, node, depth=INF, shape=A):
        """assignment of a classified value (of nesting depth `depth` and shape `shape`) to a target"""
        sc = self.scope
        if isinstance(t, ast.Name):
            if t.id in NEVER_LV:
                return
            if t.id in sc.lv:
                if t.id in sc.owned_alias and kind[0] == 'unknown' and is_owned_attr(kind[1]):
                    self.emit('assign', self.v(t.id), ('load',))
                elif kind[0] == 'alts':
                    self.assign_alts(self.v(t.id), kind[1])
                else:
                    self.emit('assign', self.v(t.id), self.rhs_of(kind))
            elif kind[0] == 'alts':
                for th in kind[1]:
                    th()
            elif kind[0] == 'src':
                self.fail(node, 'a source object is bound to the untracked name %r' % t.id)
            return
        if isinstance(t, (ast.Tuple, ast.List)):
            if kind[0] == 'alts' or (kind[0] == 'unknown' and depth > 1):
                kind = ('var', self.materialize(kind, 'un'))        # for an untracked expression: the object itself (unknown_rhs)
            src = None
            if kind[0] in ('var', 'copy', 'elem', 'concat', 'fresh', 'cell'):
                src = self.materialize(kind, 'row' if depth <= 1 else 'un')
            starred = False
            for i, x in enumerate(t.elts):
                cs = elem(shape, ('any',) if starred else ('const', i))
                if isinstance(x, ast.Starred):
                    x = x.value
                    starred = True
                    cs = homog(shape) if tracked(shape) else A
                if src is not None and kind[0] != 'cell' and depth > 1 and tracked(cs):
                    sub = ('elem', src)
                elif src is not None:
                    sub = ('cell', src)         # a component of a flat record, or a position not known to hold a tracked object
                elif kind[0] == 'src' and depth > 1:
                    sub = kind
                else:
                    sub = ('scalar',)
                if sub[0] == 'src' and isinstance(x, ast.Name) and x.id not in sc.lv:
                    continue            # a component of a source tuple bound to an untracked name (bNR, bNF): a scalar
                self.bind_target(x, sub, node, INF if depth >= INF else depth - 1, cs if sub[0] in ('elem', 'src') else A)
            return
        if isinstance(t, ast.Subscript):
            self.store_into(t.value, node)
            untracked = self.classify_quiet(t.value) in ('scalar', 'unknown')
            if untracked:
                self.check_state_store(t.value, ('base', S(elem(shape))) if isinstance(t.slice, ast.Slice)
                                       else ('idx', self.shape(t.slice), shape, index_kind(t.value, t.slice)), node)
            if isinstance(t.slice, ast.Slice):
                for x in (t.slice.lower, t.slice.upper, t.slice.step):
                    if x is not None:
                        self.read(x)
            else:
                self.escape(t.slice, False, untracked, untracked)        # an object used as a key is kept by the container
            self.escape_kind(kind, untracked or self.depth(t.value) <= 1, untracked and not tracked(shape))
            return
        if isinstance(t, ast.Attribute):
            kb = self.classify(t.value)
            if kb[0] not in ('scalar', 'unknown'):
                self.fail(t, 'attribute store on a list-valued expression')
            cur = attr_shape(self.state_pred(sc)(t.value), t.attr, A) if self.state_pred(sc)(t.value) else A
            if has_trust(cur) and norm(meet(cur, shape)) != norm(cur):
                self.flag(node, 'a writer attribute with trusted positions is assigned a value that does not have them')
            if expr_text(t) == 'query_context.writer':
                v = getattr(node, 'value', None)
                if not (isinstance(node, ast.Assign) and (self.writer_value(v, sc.locals) or (isinstance(v, ast.Name) and v.id in sc.wlocals))):
                    self.fail(node, 'query_context.writer is assigned something that is not a writer of the chain')
            self.escape_kind(kind, True, not tracked(shape))    # untracked state: an untrusted value kept there comes back as a CELL
            return
        self.fail(node, 'assignment target form %s' % type(t).__name__)

    def bind_iter(self, target, k, d, node, es=A):
        """target = an element of the iterable of kind k (normalised: var / src / unknown / scalar), nesting depth d; es = the
        shape of the element (trusted as an owned object only when it is tracked)"""
        de = INF if d >= INF else max(0, d - 1)
        if k[0] == 'unknown' and d > 1 and not any(n in self.scope.lv for n in target_names(target)):
            k = ('scalar',)                                     # no tracked name is bound: nothing to say
        if k[0] == 'unknown' and d > 1:
            k = ('var', self.materialize(k, 'cont'))            # the untracked container object itself (unknown_rhs), then its element
        if d <= 1 and k[0] == 'var':
            self.bind_target(target, ('cell', k[1]), node, 0, A)    # iterating a flat record: its cells
        elif d <= 1:
            self.bind_target(target, ('scalar',), node, 0, A)
        elif k[0] == 'var':
            self.bind_target(target, ('elem', k[1]) if tracked(es) else ('cell', k[1]), node, de, es)
        elif k[0] == 'src':
            self.bind_target(target, ('src',), node, de, es)
        else:
            self.bind_target(target, ('scalar',), node, 0, A)

    def classify_quiet(self, e):
        """the kind tag of e without emitting anything"""
        return self.sub_kind(e)

    def sub_kind(self, e):
        box = []
        self.sub(lambda: box.append(self.classify(e)[0]))
        return box[0]

    def escape_kind(self, kind, row_ok=False, silent=False):
        if kind[0] in ('scalar', 'unknown') or silent:
            return
        if kind[0] == 'cell' and row_ok:
            return
        if kind[0] == 'src':
            x = self.prog.tmp('esc')
            self.emit('assign', x, ('src',))
        else:
            x = self.materialize(kind, 'esc')
        self.emit('store', x)

    def store_into(self, base, node):
        """in-place change of the object denoted by base (x[i] = .., del x[i])"""
        kb = self.classify(base)
        if kb[0] in ('scalar', 'unknown'):
            return
        if isinstance(base, ast.Name) and base.id in (self.scope.lossy | self.scope.opaque):
            self.flag(node, 'mutation through %r, whose view of the object may differ from that of another name' % base.id)
        if kb[0] == 'src':
            x = self.prog.tmp('m')
            self.emit('assign', x, ('src',))
        else:
            x = self.materialize(kb, 'm')
        self.emit('setitem', x)

    def stmt(self, s, tail):
        sc = self.scope
        if isinstance(s, ast.Pass) or isinstance(s, (ast.Import, ast.ImportFrom)):
            return
        if isinstance(s, ast.Expr):
            if isinstance(s.value, ast.Constant):
                return
            self.read(s.value)
            return
        if isinstance(s, ast.Assign):
            if len(s.targets) == 1 and isinstance(s.targets[0], (ast.Tuple, ast.List)) and isinstance(s.value, (ast.Tuple, ast.List)) \
                    and len(s.targets[0].elts) == len(s.value.elts) and not any(isinstance(x, ast.Starred) for x in s.targets[0].elts + s.value.elts):
                kinds = [self.classify(v) for v in s.value.elts]
                tmps = []
                for k in kinds:
                    if k[0] in ('scalar', 'unknown'):
                        tmps.append(k)
                    else:
                        tmps.append(('var', self.materialize(k, 'par')))
                for t, k, v in zip(s.targets[0].elts, tmps, s.value.elts):
                    self.bind_target(t, k, s, self.depth(v), self.shape(v))
                return
            kind = self.classify(s.value)
            if len(s.targets) > 1 and kind[0] not in ('scalar', 'unknown', 'var'):
                kind = ('var', self.materialize(kind, 'multi'))
            for t in s.targets:
                self.bind_target(t, kind, s, self.depth(s.value), self.shape(s.value))
            return
        if isinstance(s, ast.AnnAssign):
            if s.value is not None:
                self.bind_target(s.target, self.classify(s.value), s, self.depth(s.value), self.shape(s.value))
            return
        if isinstance(s, ast.AugAssign):
            t = s.target
            if isinstance(t, ast.Name):
                if t.id in sc.lv:
                    self.read(s.value)
                    if t.id in (sc.lossy | sc.opaque):
                        self.flag(s, 'mutation through %r, whose view of the object may differ from that of another name' % t.id)
                    self.emit('setitem', self.v(t.id))
                else:
                    self.read(s.value)
                return
            if isinstance(t, ast.Subscript):
                self.store_into(t.value, s)
                if not isinstance(t.slice, ast.Slice):
                    un = self.classify_quiet(t.value) in ('scalar', 'unknown')
                    self.escape(t.slice, False, un, un)
                self.read(s.value)
                return
            if isinstance(t, ast.Attribute):
                if expr_text(t) == 'query_context.writer':
                    self.fail(s, 'query_context.writer is assigned something that is not a writer of the chain')
                self.read(t.value)
                self.read(s.value)
                return
            self.fail(s, 'augmented assignment target')
        if isinstance(s, ast.Delete):
            for t in s.targets:
                if isinstance(t, ast.Subscript):
                    self.store_into(t.value, s)
                    if not isinstance(t.slice, ast.Slice):
                        self.read(t.slice)
                elif isinstance(t, ast.Name):
                    if t.id in sc.lv:
                        self.emit('assign', self.v(t.id), ('fresh',))
                elif isinstance(t, ast.Attribute):
                    self.read(t.value)
                else:
                    self.fail(s, 'del target')
            return
        if isinstance(s, ast.Assert):
            self.read(s.test)
            return
        if isinstance(s, ast.Raise):
            if getattr(s, 'exc', None) is not None:
                self.read(s.exc)
            return
        if isinstance(s, (ast.Global, ast.Nonlocal)):
            if set(s.names) & sc.lv:
                self.fail(s, 'global / nonlocal list variable')
            return
        if isinstance(s, ast.If):
            self.read(s.test)
            a = self.sub(lambda: self.block(s.body, tail))
            b = self.sub(lambda: self.block(s.orelse, tail))
            self.emit('if', a, b)
            return
        if isinstance(s, (ast.For, ast.AsyncFor)):
            if s.orelse:
                self.fail(s, 'for ... else')
            if isinstance(s.iter, ast.Name) and s.iter.id in sc.lazy:
                la = sc.lazy[s.iter.id]

                def body():
                    # one step of the generator, in the scope it was written in: bind its targets to an element of its
                    # iterable, evaluate the conditions and the element expression; the loop variable denotes that value
                    self.scope = la.scope
                    try:
                        g = la.gen.generators[0]
                        self.bind_iter(g.target, la.kind, la.depth, g, self.shape(IterElem(value=g.iter)))
                        for c in g.ifs:
                            self.read(c)
                        ek = self.classify(la.gen.elt)
                        de = self.depth(la.gen.elt)
                        esh = self.shape(la.gen.elt)
                        if ek[0] != 'scalar':
                            ek = ('var', self.materialize(ek, 'gen'))
                    finally:
                        self.scope = sc
                    self.bind_target(s.target, ek, s, de, esh)
                    self.block(s.body, 'loop')
                self.loop(body, s, tail)
                return
            it = unwrap_iter(s.iter)
            k = self.classify(it)
            if k[0] not in ('scalar', 'unknown', 'src', 'var'):
                k = ('var', self.materialize(k, 'it'))
            d = self.depth(it)

            es = self.shape(IterElem(value=s.iter))

            def body():
                self.bind_iter(s.target, k, d, s, es)
                self.block(s.body, 'loop')
            self.loop(body, s, tail)
            return
        if isinstance(s, ast.While):
            if s.orelse:
                self.fail(s, 'while ... else')

            def body():
                self.read(s.test)
                self.block(s.body, 'loop')
            self.loop(body, s, tail)
            self.read(s.test)
            return
        if isinstance(s, ast.Try):
            self.try_stmt(s, tail)
            return
        if isinstance(s, (ast.FunctionDef, ast.AsyncFunctionDef, ast.ClassDef)):
            for n in walk_all(s.body):
                if isinstance(n, ast.Name) and n.id in sc.lv:
                    self.fail(n, 'nested definition mentions the list variable %r' % n.id)
            return
        self.fail(s, 'statement form %s is outside the translated subset' % type(s).__name__)

    def loop(self, body_fn, node, tail):
        sc = self.scope
        before = sc.returned_in_loop
        sc.returned_in_loop = False
        ir = self.sub(body_fn)
        if sc.returned_in_loop:
            # a return inside the loop = leaving the loop, provided nothing with an effect follows in this function
            self.emit('for', ir, 'ret')
        else:
            self.emit('for', ir)
        sc.returned_in_loop = before

    def try_stmt(self, s, tail):
        if s.orelse:
            self.fail(s, 'try ... else')
        reraise = bool(s.handlers) and all(always_raises(h.body) for h in s.handlers) and not s.finalbody
        if reraise:
            for h in s.handlers:
                ir = self.sub(lambda h=h: self.block(h.body, None))
                if has_effect(ir):
                    self.fail(h, 'exception handler with an effect on list objects')
            self.block(s.body, tail)
            return
        inner_tail = tail if not s.finalbody else None
        ir = self.sub(lambda: self.block(s.body, inner_tail))
        self.out.extend(optional(ir))
        for h in s.handlers:
            hir = self.sub(lambda h=h: self.block(h.body, inner_tail))
            self.emit('if', hir, [])
        if s.finalbody:
            self.block(s.finalbody, tail)


# ---------------------------------------------------------------------------------------------------- programs and writers

def find_main_body(lang, tree, label):
    if lang == 'py':
        fs = [n for n in tree if isinstance(n, ast.FunctionDef)]
        if len(fs) != 1:
            raise TranslateError('%s: expected exactly one function definition in the generated code, found %d' % (label, len(fs)))
        for n in tree:
            if n is fs[0]:
                continue
            if not (isinstance(n, ast.Expr) and isinstance(n.value, ast.Call) and isinstance(n.value.func, ast.Name) and n.value.func.id == fs[0].name):
                raise TranslateError('%s:%d: unexpected top-level statement in the generated code' % (label, n.lineno))
        return fs[0].body, [a.arg for a in fs[0].args.args]
    if len(tree) == 1 and isinstance(tree[0], ast.Expr):
        c = tree[0].value
        if isinstance(c, ast.Call) and not c.args and isinstance(c.func, ast.Lambda) and getattr(c.func, 'js_block', False):
            return c.func.body, []
    raise TranslateError('%s: the generated code is not of the form (async () => { ... })()' % label)


def translate_program(lang, source, item):
    label = '<code generated by rbql-%s for %r>' % (lang, item['q'])
    code = item['code']
    lines = code.split('\n')
    if lang == 'py':
        try:
            tree = ast.parse(code).body
        except SyntaxError as e:
            raise TranslateError('%s:%s: generated code does not parse: %s' % (label, e.lineno, e.msg))
    else:
        try:
            tree = jsmini.parse(code, label, 1)
        except jsmini.JSParseError as e:
            raise TranslateError(str(e))
    body, params = find_main_body(lang, tree, label)
    prog = Prog('%s_%s' % (lang, item['name']))
    tr = Tr(prog, source, label, lines)
    tr.scope = tr.make_scope(body, params, set(), '', 'engine', None, label, 'main loop of %r' % item['q'])
    tr.block(body, 'func')
    ir, _ = check_return_in_loop(tr.out, tr.scope.label)
    return prog, ir


def translate_writer(lang, source, cname):
    got = source.klass(cname)
    if got is None:
        raise TranslateError('%s: writer class %s not found' % ({'py': 'rbql-py', 'js': 'rbql-js'}[lang], cname))
    cdef, cfile = got
    prog = Prog('%s_%s' % (lang, cname))
    res = {}
    for mname in ('write', 'finish'):
        ms = [m for m in cdef.body if isinstance(m, (ast.FunctionDef, ast.AsyncFunctionDef)) and m.name == mname]
        if not ms:
            res[mname] = []
            continue
        m = ms[0]
        params = [a.arg for a in m.args.args]
        if params and params[0] == 'self':
            params = params[1:]
        tr = Tr(prog, source)
        init = set()
        if mname == 'write':
            if not params:
                raise TranslateError('%s:%d: %s.write has no record parameter' % (cfile, m.lineno, cname))
            init = {params[-1]}
        pdepth = {p: (1 if p in ROW_NAMES else INF) for p in params}
        pshape = {p: (FLAT if p in ROW_NAMES else A) for p in params}
        if mname == 'write' and params[-1] not in ROW_NAMES:
            pshape[params[-1]] = ENTRY          # see ASSUMED: an entry writer heads the chain
        tr.scope = tr.make_scope(m.body, params, init, mname + '.', 'writer', (cdef, cfile), cfile, '%s.%s (%s:%d)' % (cname, mname, cfile, m.lineno), pdepth,
                                 (), pshape)
        if mname == 'write':
            # the record parameter is PARAM (variable 0)
            prog.vars[tr.scope.prefix + params[-1]] = 0
        tr.block(m.body, 'func')
        res[mname], _ = check_return_in_loop(tr.out, tr.scope.label)
    return prog, res


def var_comment(prog):
    items = ['%d = %s' % (prog.vars[q], q) for q in prog.order]
    zero = [q for q, n in prog.vars.items() if n == 0]
    if zero:
        items.insert(0, '0 = %s (PARAM)' % zero[0])
    text = ', '.join(items).replace('(*', '( *').replace('*)', '* )')
    return text


def main():
    if len(sys.argv) != 2:
        print('usage: translate_heap.py <out_dir>', file=sys.stderr)
        return 2
    outdir = sys.argv[1]
    os.makedirs(outdir, exist_ok=True)
    facts = {'repo': REPO, 'programs': [], 'writers': [], 'obligations': [], 'theorems': []}
    v = ['(* HeapFacts.v - GENERATED by harness/translate_heap.py from %s on every check run.  Not committed. *)' % REPO,
         'From Coq Require Import List.', 'Import ListNotations.', 'From RBQL Require Import Heap Heap_Proofs.', '']
    evals, thms = [], []
    try:
        for lang in ('py', 'js'):
            source = Source(lang)
            OWNED_ATTRS.clear()
            if lang == 'py':
                source.add_python(os.path.join(REPO, 'rbql-py', 'rbql', 'rbql_engine.py'))
                source.add_python(os.path.join(REPO, 'rbql-py', 'rbql', 'rbql_csv.py'))
                OWNED_ATTRS.update(source.owned_attrs())
                items = generated_python()
            else:
                source.add_js(os.path.join(REPO, 'rbql-js', 'rbql.js'))
                source.add_js(os.path.join(REPO, 'rbql-js', 'rbql_csv.js'))
                items = generated_js()
            LANG[0] = lang
            attr_shapes(source)
            wnames = []
            for cname in WRITER_CLASSES:
                prog, res = translate_writer(lang, source, cname)
                wn = '%s_%s' % (lang, cname)
                wnames.append(wn)
                v.append('(* %s.write / finish;  variables: %s *)' % (cname, var_comment(prog)))
                v.append('Definition %s : writer := mkW\n  (%s)\n  (%s).' % (wn, coq_block(res['write'], 2), coq_block(res['finish'], 2)))
                v.append('')
                evals.append(('gen_%s_ok' % wn, 'writer_ok %s' % wn))
                thms.append('Theorem gen_%s_ok : writer_ok %s = true.\nProof. vm_compute. reflexivity. Qed.\nPrint Assumptions gen_%s_ok.' % (wn, wn, wn))
                facts['writers'].append({'name': wn, 'class': cname, 'lang': lang, 'statements': count_stmts(res['write']) + count_stmts(res['finish'])})
            v.append('Definition %s_writers : list writer := [%s; w_any].' % (lang, '; '.join(wnames)))
            v.append('')
            evals.append(('gen_%s_writers_ok' % lang, 'forallb writer_ok %s_writers' % lang))
            thms.append('Theorem gen_%s_writers_ok : forallb writer_ok %s_writers = true.\nProof. vm_compute. reflexivity. Qed.\nPrint Assumptions gen_%s_writers_ok.' % (lang, lang, lang))
            seen = {}
            for item in items:
                prog, ir = translate_program(lang, source, item)
                pn = prog.name
                v.append('(* %s: main loop generated for  %s   (writer chain at start: %s)' % (pn, item['q'].replace('*)', '* )').replace('(*', '( *'), ' > '.join(item['chain'])))
                v.append('   variables: %s *)' % var_comment(prog))
                v.append('Definition %s : stmt :=\n  %s.' % (pn, coq_block(ir, 2)))
                v.append('')
                evals.append(('gen_%s_safe' % pn, 'safe [] %s' % pn))
                thms.append('Theorem gen_%s_safe : safe [] %s = true.\nProof. vm_compute. reflexivity. Qed.\nPrint Assumptions gen_%s_safe.' % (pn, pn, pn))
                thms.append('Theorem gen_%s_sources_unchanged : forall srcs ws e0 g g\',\n  incl ws %s_writers -> wf srcs g -> run_query srcs %s ws e0 g g\' ->\n'
                            '  (forall i, In i srcs -> g_heap g\' i = g_heap g i) /\\ (forall i, In i (g_log g\') -> ~ In i srcs).\n'
                            'Proof. exact (program_sources_unchanged %s_writers %s gen_%s_safe gen_%s_writers_ok). Qed.\nPrint Assumptions gen_%s_sources_unchanged.'
                            % (pn, lang, pn, lang, pn, pn, lang, pn))
                facts['programs'].append({'name': pn, 'lang': lang, 'query': item['q'], 'chain': item['chain'], 'statements': count_stmts(ir),
                                          'variables': len(prog.order), 'duplicate_of': seen.get(coq_block(ir, 2))})
                seen.setdefault(coq_block(ir, 2), pn)
    except TranslateError as e:
        print('translate_heap: REFUSED: %s' % e, file=sys.stderr)
        return 2
    v.append('(* ---- the value of every obligation, in the order of HeapFacts.json (all must be true) *)')
    for name, term in evals:
        v.append('Eval vm_compute in (%s).' % term)
        facts['obligations'].append(name)
    v.append('')
    v.append('(* ---- the obligations as theorems, and the instantiated corollaries *)')
    v.extend(thms)
    import re
    facts['theorems'] = re.findall(r'^Theorem (\w+)', '\n'.join(thms), flags=re.M)
    facts['flags'] = sorted(set(FLAGS))
    for x in facts['flags']:
        print('translate_heap: never-safe statement emitted: %s' % x, file=sys.stderr)
    with open(os.path.join(outdir, 'HeapFacts.v'), 'w') as f:
        f.write('\n'.join(v) + '\n')
    with open(os.path.join(outdir, 'HeapFacts.json'), 'w') as f:
        json.dump(facts, f, indent=1)
    return 0


if __name__ == '__main__':
    sys.exit(main())
