#!/usr/bin/env python3
# translate_csv.py <out_dir> [py|js]  - fail-closed translator from $VERIF_REPO/rbql-py/rbql/csv_utils.py (Python `ast`) and from
# $VERIF_REPO/rbql-js/csv_utils.js (harness/jsparse_csv.py, same node classes) to Gallina definitions over
# coq/theories/PyStr.v / JsStr.v (language-level primitives defined over Base.v).  Writes <out_dir>/GenCsv.v (definitions
# gen_py_<name>, then the committed obligations / corollaries of harness/gen_csv_tie.v.tmpl) or GenCsvJs.v (gen_js_<name>,
# gen_csv_tie_js.v.tmpl), and the matching .json (names, sizes, what was skipped).  Exit 0: files written; exit 2: translation
# refused (the message names file:line and the construct).  python3 stdlib only.  Nothing is cached.
# translate_csv.py --print <prefix> [py|js] prints the definitions under another prefix (this is how CsvIx.v / CsvIxJs.v were made).
#
# WHAT IS TRANSLATED: the functions COVERED below (those the hand model Csv.v covers) and every HELPER they call (a
# module-level function outside SIGS: translated at its first call site with the argument types found there, and unfolded
# in the obligations).  Other functions of the file (extract_line_from_data, unquote_field(s), split_lines, the class
# MultilineRecordAggregator) are listed as skipped.  A top-level name whose value is outside the rules is refused only
# where a translated function uses it.
#
# THE RULES (every construct outside them => refused)
#   values      int -> Z;  str -> str (list of code points; a literal is spelled [34%N; ..]);  bool -> bool;  list of str ->
#               list str;  tuple -> pair;  a match object -> pymatch (option pymatch while it may be None);  a compiled
#               pattern -> a constructor of PyStr.rx.
#   regex       NOT translated.  re.compile(<constant text>) (module level or inline; the text may be spelled with + over
#               constants) is looked up in RX_TABLE by its EXACT text; rgx.match(s[, pos]) -> re_match, [m.group() for m in
#               rgx.finditer(s)] / for m in rgx.finditer(s) / rgx.findall(s) -> re_finditer_g0, each admitted only for the
#               patterns listed for it in RX_TABLE.  m.span()[i] / m.start() / m.end() / m.group() / m.group(0|1) -> fields.
#   str         s.find(p[, start]) -> py_find;  s.find(p) != -1, s.find(p) >= 0, p in s -> py_contains s p (and the negations);
#               s.startswith(p[, start]) -> py_startswith;  s.split(d) -> py_split;  s.replace(a, b) -> py_replace;
#               s[a:b] -> py_slice;  len -> zlen;  + -> ++;  '..{}..'.format(x) -> concatenation;  == / != -> str_eqb.
#   truth       `not s`, `len(s) == 0` -> (zlen s =? 0);  `s`, `len(s) != 0`, `len(s) > 0` -> negb of it;  and / or over
#               booleans -> && / ||;  `x is None` / `x is not None` / `x` / `not x` on a match result: as an `if` test it
#               becomes `match x with Some x => .. | None => .. end` and inside each branch (and in the statements that follow,
#               which are copied into both branches) the test is the constant it is known to be.
#   statements  x = e -> let;  a, b = e -> let '(a, b);  x += e;  l.append(e) -> l := l ++ [e];  l[i] = e -> py_setitem;
#               l[:k] = e -> e ++ l[k:];  if / elif / else with early return: the statements after an `if` are copied into
#               every branch that falls through (continuation passing), so `return` needs no encoding (`continue` in a
#               loop body likewise: it yields the loop state as it is);  assert c -> the
#               function becomes partial (option; None = AssertionError or out of fuel);  while c: body -> while_fuel FUEL
#               (fun state => c) (fun state => body) state, with FUEL from the table FUEL (the fuel of the hand model) and
#               state = the variables bound before the loop and assigned in it, in alphabetical order;  for x in range(n) /
#               for m in rgx.finditer(s) / for x in <list> -> fold_left;  [e for x in l] -> map.
#               A Boolean constant assigned to a variable is propagated (the let is not emitted).
#   calls       f(args) for a translated function f, defaults filled in.  A parameter that f mutates (append / item assignment)
#               is threaded: f returns (param', result) and the call must be a statement `x = f(..)`, `a, b = f(..)`, `f(..)`
#               or `return f(..)` with a plain name in that position.  A list that is mutated anywhere in a function may not
#               be aliased, stored in a display or handed to a non-mutating position (only `return` may mention it).
#   signatures  the parameter names, order and defaults of the COVERED functions are fixed (SIGS); a change => refused.
import ast
import json
import os
import sys

REPO = os.environ.get('VERIF_REPO', '/repo')
HERE = os.path.dirname(os.path.abspath(__file__))
SRC_REL = 'rbql-py/rbql/csv_utils.py'

FIELD_RX = '"((?:[^"]*"")*[^"]*)"'
RX_TABLE = {
    FIELD_RX: ('RxField', {'match'}),
    ' *' + FIELD_RX + ' *': ('RxFieldExt', {'match'}),
    '[^ ]+': ('RxWs', {'finditer', 'findall'}),
    ' *[^ ]+ *': ('RxWsPreserve', {'finditer', 'findall'}),
}
RX_ALLOWED = {v[0]: v[1] for v in RX_TABLE.values()}

# covered functions: parameter (name, type, default) - the signature is part of the contract with CsvIx.v
SIGS = {
    'extract_next_field': [('src', 'str', None), ('dlm', 'str', None), ('preserve_quotes_and_whitespaces', 'bool', None),
                           ('allow_external_whitespaces', 'bool', None), ('cidx', 'int', None), ('result', ('list', ['str']), None)],
    'split_quoted_str': [('src', 'str', None), ('dlm', 'str', None), ('preserve_quotes_and_whitespaces', 'bool', False)],
    'split_whitespace_separated_str': [('src', 'str', None), ('preserve_whitespaces', 'bool', False)],
    'smart_split': [('src', 'str', None), ('dlm', 'str', None), ('policy', 'str', None), ('preserve_quotes_and_whitespaces', 'bool', None)],
    'quote_field': [('src', 'str', None), ('delim', 'str', None)],
    'rfc_quote_field': [('src', 'str', None), ('delim', 'str', None)],
}
COVERED = list(SIGS)
OPTIONAL = ['extract_next_field']      # internal: a source may inline it into split_quoted_str (its obligation is then dropped)
# the fuel of a while loop, per function (the fuel the hand model uses: Csv.split_quoted_tagged passes S (length src))
FUEL = {'split_quoted_str': 'S (length src)'}
# expected results (checked after translation: a changed result shape => refused)
RESULT = {
    'extract_next_field': ('tuple', ('int', 'bool')),
    'split_quoted_str': ('tuple', (('list', ['str']), 'bool')),
    'split_whitespace_separated_str': ('list', ['str']),
    'smart_split': ('tuple', (('list', ['str']), 'bool')),
    'quote_field': 'str',
    'rfc_quote_field': 'str',
}
EXPECT_PARTIAL = {'extract_next_field': False, 'split_quoted_str': True, 'split_whitespace_separated_str': False, 'smart_split': True,
                  'quote_field': False, 'rfc_quote_field': False}
EXPECT_MUTATED = {'extract_next_field': ['result']}

# ---- rbql-js/csv_utils.js (parsed by harness/jsparse_csv.py into the same ast node classes)
#   additional rules: s.length -> zlen;  s.substring(a[, b]) -> js_substring;  s.indexOf(p[, from]) -> js_indexof (and the tests
#   against -1 -> py_contains);  s.startsWith(p, pos) -> js_startswith;  s.slice(a, b) -> py_slice;  s.replace(/text/g, '..') for a
#   pattern of plain characters and a replacement without $ -> py_replace;  l.push(e) -> append;  `..${x}..` -> concatenation;
#   an array display with components of different types -> a tuple;  new RegExp(<constant text>[, flags]) -> PyStr.rx by the
#   table RX_TABLE_JS keyed on (text, flags);  rgx.exec(s) for an anchored (^) pattern without the g flag -> re_match rgx s 0;
#   while ((m = rgx.exec(s)) !== null) for a pattern with the g flag -> fold_left over re_finditer_g0 (m[0] -> the element);
#   m[0] / m[1] -> m_group0 / m_group1;  for (let i = a; c; i++) body -> i := a; while_fuel .. (body; i := i + 1);  x = null.
#   Strings are sequences of UTF-16 code units on this side (indices and lengths count units).
#   exec loop and lastIndex (soundness): `while ((m = R.exec(s)) !== null)` enumerates ALL matches of s only if R.lastIndex is 0
#   when the loop starts.  It is admitted when R is a NEW object (new RegExp(..) evaluated in this function, directly or through a
#   local name / a conditional of two such), or when R is a local name and `R.lastIndex = 0;` (the constant) is the statement
#   before the loop (one-shot: any statement that uses R in between forgets it).  A shared (module-level) pattern without that
#   reset is refused: another user of the object may have left lastIndex anywhere.  The loop always runs to completion (no break /
#   return inside loops), which leaves lastIndex = 0 again.
#   nested call of a MUTATING function (f(.., result)[0], g(f(.., result))): bound first as tmp = f(..) - see FnTr.hoist for
#   the two side conditions that make the evaluation order unobservable.
JS_SRC_REL = 'rbql-js/csv_utils.js'
RX_TABLE_JS = {
    ('^' + FIELD_RX, ''): ('RxField', {'exec'}),
    ('^ *' + FIELD_RX + ' *', ''): ('RxFieldExt', {'exec'}),
    (FIELD_RX, 'y'): ('RxField', {'exec_sticky'}),                  # sticky: rgx.lastIndex = pos; rgx.exec(s) -> re_match rgx s pos
    (' *' + FIELD_RX + ' *', 'y'): ('RxFieldExt', {'exec_sticky'}),
    ('[^ ]+', 'g'): ('RxWs', {'exec_all'}),
    (' *[^ ]+ *', 'g'): ('RxWsPreserve', {'exec_all'}),
}
RX_ALLOWED_JS = {}
for _v in RX_TABLE_JS.values():
    RX_ALLOWED_JS.setdefault(_v[0], set()).update(_v[1])
JS_REPLACE_LITERALS = {('""', 'g'): '""', ('"', 'g'): '"'}       # regex literal (pattern, flags) -> the plain text it matches
FUEL_JS = {'split_quoted_str': [('S (length %s)', 'src')], 'split_whitespace_separated_str': [('S (length %s)', 'result')]}
EXPECT_PARTIAL_JS = dict(EXPECT_PARTIAL, split_whitespace_separated_str=True)


class Lang:
    def __init__(self, name):
        self.name = name
        self.js = name == 'js'
        self.src_rel = JS_SRC_REL if self.js else SRC_REL
        self.prefix = 'gen_js_' if self.js else 'gen_py_'
        self.fuel = FUEL_JS if self.js else {k: [(v.replace('src', '%s'), 'src')] for k, v in FUEL.items()}
        self.expect_partial = EXPECT_PARTIAL_JS if self.js else EXPECT_PARTIAL


LANG = Lang('py')

RESERVED = set('''fix match end in fun let if then else return at as with Type Set Prop forall exists where using for
    find split replace count join length map fold_left fst snd nth seq app rev firstn skipn negb orb andb true false Some None
    str ch has contains starts_with strip_prefix str_eqb zlen py_find py_contains py_startswith py_slice py_getitem py_setitem
    py_range py_replace py_split py_norm py_bound while_fuel re_match re_finditer_g0 rx pymatch mk_match m_start m_end m_group0
    m_group1 RxField RxFieldExt RxWs RxWsPreserve S O nat Z N list option bool pair nil cons'''.split())


class Refuse(Exception):
    pass


def refuse(node, msg):
    line = getattr(node, 'lineno', '?')
    raise Refuse('%s:%s: %s' % (LANG.src_rel, line, msg))


# ------------------------------------------------------------------ types

def is_list(t):
    return isinstance(t, tuple) and t[0] == 'list'


def is_tuple(t):
    return isinstance(t, tuple) and t[0] == 'tuple'


def new_list(elem=None):
    return ('list', [elem])


def same_type(a, b):
    """structural equality; an undetermined list element type unifies"""
    if is_list(a) and is_list(b):
        if a[1][0] is None and b[1][0] is not None:
            a[1][0] = b[1][0]
        elif b[1][0] is None and a[1][0] is not None:
            b[1][0] = a[1][0]
        if a[1][0] is None and b[1][0] is None:
            return True
        return same_type(a[1][0], b[1][0])
    if is_tuple(a) and is_tuple(b):
        return len(a[1]) == len(b[1]) and all(same_type(x, y) for x, y in zip(a[1], b[1]))
    if isinstance(a, tuple) or isinstance(b, tuple):
        return False
    return a == b


def show_type(t):
    if is_list(t):
        return 'list[%s]' % show_type(t[1][0])
    if is_tuple(t):
        return '(' + ', '.join(show_type(x) for x in t[1]) + ')'
    return str(t)


def freeze_type(t):
    if is_list(t):
        return ('list', [freeze_type(t[1][0])])
    if is_tuple(t):
        return ('tuple', tuple(freeze_type(x) for x in t[1]))
    return t


def coq_type(t):
    if t == 'int':
        return 'Z'
    if t == 'str':
        return 'str'
    if t == 'bool':
        return 'bool'
    if is_list(t) and t[1][0] is not None:
        return 'list ' + coq_type(t[1][0])
    raise Refuse('no Coq type for %s' % show_type(t))


class E:
    """a translated expression"""

    def __init__(self, text, ty, parts=None, rxs=None, const=None, fresh=False):
        self.fresh = fresh        # a pattern object created by this very expression (new RegExp inside the function): lastIndex = 0
        self.text = text
        self.ty = ty
        self.parts = parts        # tuple display: the component expressions
        self.rxs = rxs            # compiled pattern: the constructors it may be
        self.const = const        # known Boolean constant


class Var:
    def __init__(self, ty, coq, known=None, rxs=None, const=None, lastindex=None, fresh=False):
        self.fresh = fresh
        self.lastindex = lastindex    # a sticky pattern whose lastIndex was just assigned: the position (text)
        self.ty = ty
        self.coq = coq
        self.known = known        # for optmatch: None / 'some' / 'none'
        self.rxs = rxs
        self.const = const


def lit_str(s):
    if s == '':
        return '(@nil ch)'
    return '[' + '; '.join('%d%%N' % ord(c) for c in s) + ']'


def lit_int(n):
    return '%d%%Z' % n if n >= 0 else '(%d)%%Z' % n


def coq_name(py):
    return py + '_v' if (py in RESERVED or py.startswith('gen_') or py.startswith('ix_') or py.startswith('jsix_')) else py


def mk_let(name, value, body):
    """let name := value in body   (let x := v in x  is spelled v)"""
    if body.strip() == name:
        return value
    return 'let %s := %s in\n%s' % (name, value, body)


def tuple_pat(names):
    if len(names) == 1:
        return names[0]
    return '(' + ', '.join(names) + ')'


# ------------------------------------------------------------------ module level

class Module:
    def __init__(self, tree):
        self.consts = {}          # name -> str text
        self.rx = {}              # name -> pattern text
        self.funcs = {}           # name -> ast.FunctionDef
        self.order = []
        self.opaque = {}          # top-level names whose value is outside the rules -> line (refused only where a translated function uses them)
        self.emitted = []         # translated functions in order of completion
        for st in tree.body:
            if isinstance(st, (ast.Import, ast.ImportFrom)):
                continue
            if isinstance(st, ast.Expr) and isinstance(st.value, ast.Constant) and isinstance(st.value.value, str):
                continue
            if isinstance(st, ast.FunctionDef):
                if st.name in self.funcs:
                    refuse(st, 'function %s defined twice' % st.name)
                self.funcs[st.name] = st
                self.order.append(st.name)
                continue
            if isinstance(st, ast.Assign) and len(st.targets) == 1 and isinstance(st.targets[0], ast.Name):
                name = st.targets[0].id
                if name in self.consts or name in self.rx or name in self.opaque:
                    refuse(st, 'module constant %s assigned twice' % name)
                txt = self.const_text(st.value)
                if txt is not None:
                    self.consts[name] = txt
                    continue
                pat = self.compile_text(st.value)
                if pat is not None:
                    self.rx[name] = pat
                    continue
                self.opaque[name] = st.lineno
                continue
            if isinstance(st, ast.ClassDef):
                self.opaque[st.name] = st.lineno
                continue
            refuse(st, 'module-level statement outside the rules: %s' % ast.dump(st)[:120])
        self.check_names()

    def check_names(self):
        for name in list(self.consts) + list(self.rx) + list(self.opaque):
            if name in self.funcs:
                raise Refuse('%s: the name %s is both a function and a top-level variable' % (LANG.src_rel, name))

    @classmethod
    def from_js(cls, consts, funcs, order):
        self = cls(ast.Module(body=[], type_ignores=[]))
        self.funcs = dict(funcs)
        self.order = list(order)
        for name, e, line in consts:
            e.lineno = line
            if name in self.consts or name in self.rx or name in self.opaque:
                refuse(e, 'module constant %s assigned twice' % name)
            txt = self.const_text(e)
            if txt is not None:
                self.consts[name] = txt
                continue
            pat = self.compile_text(e)
            if pat is not None:
                self.rx[name] = pat
                continue
            self.opaque[name] = line
        self.check_names()
        return self

    def const_text(self, node):
        if isinstance(node, ast.Constant) and isinstance(node.value, str):
            return node.value
        if isinstance(node, ast.Name) and node.id in self.consts:
            return self.consts[node.id]
        if isinstance(node, ast.BinOp) and isinstance(node.op, ast.Add):
            a = self.const_text(node.left)
            b = self.const_text(node.right)
            if a is not None and b is not None:
                return a + b
        return None

    def compile_text(self, node):
        """re.compile(<constant text>) -> the text;  new RegExp(<constant text>[, <flags>]) -> (text, flags)"""
        if LANG.js:
            if (isinstance(node, ast.Call) and isinstance(node.func, ast.Name) and node.func.id == 'RegExp' and 1 <= len(node.args) <= 2 and not node.keywords):
                t = self.const_text(node.args[0])
                fl = self.const_text(node.args[1]) if len(node.args) == 2 else ''
                if t is not None and fl is not None:
                    return (t, fl)
            return None
        if (isinstance(node, ast.Call) and isinstance(node.func, ast.Attribute) and node.func.attr == 'compile'
                and isinstance(node.func.value, ast.Name) and node.func.value.id == 're' and len(node.args) == 1 and not node.keywords):
            return self.const_text(node.args[0])
        return None


def called_functions(fn, mod):
    out = []
    for n in ast.walk(fn):
        if isinstance(n, ast.Call) and isinstance(n.func, ast.Name) and n.func.id in mod.funcs and n.func.id not in out:
            out.append(n.func.id)
    return out


def assigned_names(stmts, infos=None):
    """names bound or mutated by the statements (targets, augmented targets, receivers of append / item assignment, arguments
    in a position that the callee mutates)"""
    out = set()
    for st in stmts:
        for n in ast.walk(st):
            if infos and isinstance(n, ast.Call) and isinstance(n.func, ast.Name) and n.func.id in infos:
                for i in infos[n.func.id].mutated:
                    if i < len(n.args) and isinstance(n.args[i], ast.Name):
                        out.add(n.args[i].id)
            if isinstance(n, ast.Name) and isinstance(n.ctx, ast.Store):
                out.add(n.id)
            if isinstance(n, ast.Subscript) and isinstance(n.ctx, ast.Store) and isinstance(n.value, ast.Name):
                out.add(n.value.id)
            if (isinstance(n, ast.Call) and isinstance(n.func, ast.Attribute) and n.func.attr in ('append', 'push', 'extend', 'insert', 'pop', 'clear', 'sort', 'reverse', 'remove', 'shift', 'unshift', 'splice')
                    and isinstance(n.func.value, ast.Name)):
                out.add(n.func.value.id)
    return out


class FnInfo:
    def __init__(self, name, node):
        self.name = name
        self.node = node
        self.params = []          # (py name, type, default)
        self.mutated = []         # indexes of mutated parameters
        self.partial = False
        self.ret = None
        self.text = None
        self.size = 0
        self.busy = False
        self.helper = False


# ------------------------------------------------------------------ function translation

class FnTr:
    def __init__(self, mod, infos, info):
        self.mod = mod
        self.infos = infos
        self.info = info
        self.mut_lists = set()    # names of lists mutated anywhere in this function
        self.nodes = 0

    # -- expressions
    def expr(self, node, env):
        self.nodes += 1
        m = getattr(self, 'e_' + type(node).__name__, None)
        if m is None:
            refuse(node, 'expression form %s is outside the rules' % type(node).__name__)
        return m(node, env)

    def e_Constant(self, node, env):
        v = node.value
        if isinstance(v, bool):
            return E('true' if v else 'false', 'bool', const=v)
        if isinstance(v, int):
            return E(lit_int(v), 'int')
        if isinstance(v, str):
            return E(lit_str(v), 'str')
        if v is None and LANG.js:
            return E('None', 'none')
        refuse(node, 'constant %r is outside the rules' % (v,))

    def e_Name(self, node, env):
        if node.id in env:
            v = env[node.id]
            if is_list(v.ty) and node.id in self.mut_lists and not getattr(self, '_in_return', False) and not getattr(self, '_receiver_ok', False):
                refuse(node, 'the mutated list %s is used where it could be aliased' % node.id)
            if v.const is not None:
                return E('true' if v.const else 'false', 'bool', const=v.const)
            return E(v.coq, v.ty, rxs=v.rxs, fresh=v.fresh)
        if node.id in self.mod.consts:
            return E(lit_str(self.mod.consts[node.id]), 'str')
        if node.id in self.mod.rx:
            r = self.rx_of_text(node, self.mod.rx[node.id])
            if node.id in getattr(self.mod, 'rx_fresh', ()):
                # (translate_fn.specialise_rx_helpers: the name stands for a pattern object that the ONE caller creates anew for each call and
                #  uses for nothing else: its lastIndex is 0 when the helper starts)
                r.fresh = True
            return r
        if node.id in self.mod.opaque:
            refuse(node, 'the top-level name %s (line %s) has a value outside the rules' % (node.id, self.mod.opaque[node.id]))
        refuse(node, 'name %s is not bound here' % node.id)

    def rx_of_text(self, node, text):
        table = RX_TABLE_JS if LANG.js else RX_TABLE
        if text not in table:
            refuse(node, 'regular expression with an unknown pattern text %r (the table of hand-written scanners is keyed on the exact text)' % (text,))
        c, methods = table[text]
        return E(c, 'rx', rxs={(c, frozenset(methods))})

    def recv(self, node, env):
        """an expression in receiver position (len, index, slice, iteration): a mutated list may stand here"""
        old = getattr(self, '_receiver_ok', False)
        self._receiver_ok = isinstance(node, ast.Name)
        try:
            return self.expr(node, env)
        finally:
            self._receiver_ok = old

    def e_Attribute(self, node, env):
        if LANG.js and node.attr == 'length':
            x = self.recv(node.value, env)
            if x.ty == 'str' or is_list(x.ty):
                return E('(zlen %s)' % x.text, 'int')
        refuse(node, 'attribute %s is outside the rules' % node.attr)

    def e_JoinedStr(self, node, env):
        out = []
        for v in node.values:
            if isinstance(v, ast.Constant) and isinstance(v.value, str):
                out.append(lit_str(v.value))
            elif isinstance(v, ast.FormattedValue):
                a = self.expr(v.value, env)
                if a.ty != 'str':
                    refuse(node, 'template substitution of type %s' % show_type(a.ty))
                out.append(a.text)
            else:
                refuse(node, 'template string outside the rules')
        if not out:
            return E(lit_str(''), 'str')
        return E('(' + ' ++ '.join(out) + ')' if len(out) > 1 else out[0], 'str')

    def e_Tuple(self, node, env):
        parts = [self.expr(x, env) for x in node.elts]
        if len(parts) < 2:
            refuse(node, 'tuple display with fewer than two components')
        return E('(' + ', '.join(p.text for p in parts) + ')', ('tuple', tuple(p.ty for p in parts)), parts=parts)

    def e_List(self, node, env):
        parts = [self.expr(x, env) for x in node.elts]
        if not parts:
            return E('[]', new_list())
        if LANG.js and len(parts) >= 2 and any(not same_type(p.ty, parts[0].ty) for p in parts[1:]):
            # a JavaScript array used as a tuple: [fields, warning]
            return E('(' + ', '.join(p.text for p in parts) + ')', ('tuple', tuple(p.ty for p in parts)), parts=parts)
        for p in parts[1:]:
            if not same_type(p.ty, parts[0].ty):
                refuse(node, 'list display with mixed element types')
        return E('[' + '; '.join(p.text for p in parts) + ']', new_list(parts[0].ty))

    def e_UnaryOp(self, node, env):
        if isinstance(node.op, ast.USub) and isinstance(node.operand, ast.Constant) and isinstance(node.operand.value, int) and not isinstance(node.operand.value, bool):
            return E(lit_int(-node.operand.value), 'int')
        if isinstance(node.op, ast.Not):
            return self.neg(self.truth(node.operand, env))
        refuse(node, 'unary operator outside the rules')

    def neg(self, e):
        if e.const is not None:
            return E('false' if e.const else 'true', 'bool', const=not e.const)
        if e.text.startswith('(negb ') and e.text.endswith(')') and getattr(e, 'inner', None):
            return e.inner
        r = E('(negb %s)' % e.text, 'bool')
        r.inner = e
        return r

    def truth(self, node, env):
        """an expression in Boolean position"""
        # x is None / x is not None / bare match results
        nt = self.none_test(node, env)
        if nt is not None:
            name, positive = nt       # positive: true iff the value is not None
            v = env[name]
            if v.ty == 'match':
                return E('true' if positive else 'false', 'bool', const=positive)
            if v.ty == 'none':
                return E('false' if positive else 'true', 'bool', const=not positive)
            t = '(match %s with Some _ => true | None => false end)' % v.coq
            e = E(t, 'bool')
            return e if positive else self.neg(e)
        e = self.expr(node, env)
        if e.ty == 'bool':
            return e
        if e.ty == 'str' or is_list(e.ty):
            return self.neg(self.is_empty(e))
        refuse(node, 'truth value of a %s is outside the rules' % show_type(e.ty))

    def is_empty(self, e):
        return E('(zlen %s =? 0)%%Z' % e.text, 'bool')

    def none_test(self, node, env):
        """(name, positive) when node tests a match-result variable against None"""
        def optname(n):
            return isinstance(n, ast.Name) and n.id in env and env[n.id].ty in ('optmatch', 'match', 'none')
        if isinstance(node, ast.Compare) and len(node.ops) == 1 and isinstance(node.comparators[0], ast.Constant) and node.comparators[0].value is None and optname(node.left):
            if isinstance(node.ops[0], (ast.Is, ast.Eq)):
                return node.left.id, False
            if isinstance(node.ops[0], (ast.IsNot, ast.NotEq)):
                return node.left.id, True
        if optname(node):
            return node.id, True
        if isinstance(node, ast.UnaryOp) and isinstance(node.op, ast.Not):
            r = self.none_test(node.operand, env)
            if r is not None:
                return r[0], not r[1]
        return None

    def e_BoolOp(self, node, env):
        parts = [self.truth(v, env) for v in node.values]
        is_or = isinstance(node.op, ast.Or)
        out = None
        for p in parts:
            if out is None:
                out = p
                continue
            if out.const is not None:
                if out.const == is_or:
                    continue              # True or x = True ; False and x = False (x is pure)
                out = p
                continue
            if p.const is not None:
                if p.const == is_or:
                    out = p               # x or True = True (x is pure and total)
                continue
            out = E('(%s %s %s)' % (out.text, '||' if is_or else '&&', p.text), 'bool')
        return out

    def e_IfExp(self, node, env):
        nt = self.none_test(node.test, env)
        if nt is not None and env[nt[0]].ty == 'optmatch':
            refuse(node, 'conditional expression on a match result that may be None')
        c = self.truth(node.test, env)
        a = self.expr(node.body, env)
        b = self.expr(node.orelse, env)
        if not same_type(a.ty, b.ty):
            refuse(node, 'conditional expression with branches of different types')
        if c.const is not None:
            return a if c.const else b
        rxs = (a.rxs | b.rxs) if a.ty == 'rx' else None
        return E('(if %s then %s else %s)' % (c.text, a.text, b.text), a.ty, rxs=rxs, fresh=a.fresh and b.fresh)

    def e_BinOp(self, node, env):
        a = self.expr(node.left, env)
        b = self.expr(node.right, env)
        if isinstance(node.op, ast.Add):
            if a.ty == 'int' and b.ty == 'int':
                return E('(%s + %s)%%Z' % (a.text, b.text), 'int')
            if a.ty == 'str' and b.ty == 'str':
                return E('(%s ++ %s)' % (a.text, b.text), 'str')
            if is_list(a.ty) and same_type(a.ty, b.ty):
                return E('(%s ++ %s)' % (a.text, b.text), a.ty)
        if isinstance(node.op, ast.Sub) and a.ty == 'int' and b.ty == 'int':
            return E('(%s - %s)%%Z' % (a.text, b.text), 'int')
        refuse(node, 'binary operator %s on %s, %s is outside the rules' % (type(node.op).__name__, show_type(a.ty), show_type(b.ty)))

    def find_test(self, node, env):
        """s.find(p) compared with -1 / 0  ->  (s, p, positive)"""
        if len(node.ops) != 1:
            return None
        l, op, r = node.left, node.ops[0], node.comparators[0]

        def is_find(n):
            return (isinstance(n, ast.Call) and isinstance(n.func, ast.Attribute) and n.func.attr == ('indexOf' if LANG.js else 'find') and len(n.args) == 1 and not n.keywords)

        def intval(n):
            if isinstance(n, ast.Constant) and isinstance(n.value, int) and not isinstance(n.value, bool):
                return n.value
            if isinstance(n, ast.UnaryOp) and isinstance(n.op, ast.USub) and isinstance(n.operand, ast.Constant) and isinstance(n.operand.value, int):
                return -n.operand.value
            return None
        if is_find(l) and intval(r) is not None:
            k = intval(r)
            pos = {(ast.NotEq, -1): True, (ast.Eq, -1): False, (ast.GtE, 0): True, (ast.Lt, 0): False, (ast.Gt, -1): True, (ast.LtE, -1): False}.get((type(op), k))
            if pos is not None:
                return l.func.value, l.args[0], pos
        if is_find(r) and intval(l) is not None:
            k = intval(l)
            pos = {(ast.NotEq, -1): True, (ast.Eq, -1): False, (ast.LtE, 0): True, (ast.Gt, 0): False, (ast.Lt, -1): True, (ast.GtE, -1): False}.get((type(op), k))
            if pos is not None:
                return r.func.value, r.args[0], pos
        return None

    def len_test(self, node, env):
        """len(x) compared with 0 / 1 as an emptiness test -> (x node, nonempty)"""
        if len(node.ops) != 1:
            return None
        l, op, r = node.left, node.ops[0], node.comparators[0]

        def is_len(n):
            return isinstance(n, ast.Call) and isinstance(n.func, ast.Name) and n.func.id == 'len' and len(n.args) == 1

        def intval(n):
            return n.value if isinstance(n, ast.Constant) and isinstance(n.value, int) and not isinstance(n.value, bool) else None
        if is_len(l) and intval(r) is not None:
            ne = {(ast.Eq, 0): False, (ast.NotEq, 0): True, (ast.Gt, 0): True, (ast.GtE, 1): True, (ast.Lt, 1): False, (ast.LtE, 0): False}.get((type(op), intval(r)))
            if ne is not None:
                return l.args[0], ne
        if is_len(r) and intval(l) is not None:
            ne = {(ast.Eq, 0): False, (ast.NotEq, 0): True, (ast.Lt, 0): True, (ast.LtE, 1): True, (ast.Gt, 1): False, (ast.GtE, 0): False}.get((type(op), intval(l)))
            if ne is not None:
                return r.args[0], ne
        return None

    def e_Compare(self, node, env):
        if len(node.ops) != 1:
            refuse(node, 'chained comparison is outside the rules')
        nt = self.none_test(node, env)
        if nt is not None:
            return self.truth(node, env)
        ft = self.find_test(node, env)
        if ft is not None:
            s = self.expr(ft[0], env)
            p = self.expr(ft[1], env)
            if s.ty == 'str' and p.ty == 'str':
                e = E('(py_contains %s %s)' % (s.text, p.text), 'bool')
                return e if ft[2] else self.neg(e)
        lt = self.len_test(node, env)
        if lt is not None:
            x = self.recv(lt[0], env)
            if x.ty == 'str' or is_list(x.ty):
                e = self.is_empty(x)
                return self.neg(e) if lt[1] else e
        op = node.ops[0]
        a = self.expr(node.left, env)
        b = self.expr(node.comparators[0], env)
        if isinstance(op, (ast.In, ast.NotIn)):
            if a.ty == 'str' and b.ty == 'str':
                e = E('(py_contains %s %s)' % (b.text, a.text), 'bool')
                return e if isinstance(op, ast.In) else self.neg(e)
            refuse(node, '`in` on %s is outside the rules' % show_type(b.ty))
        if a.ty == 'int' and b.ty == 'int':
            t = {ast.Eq: '(%s =? %s)%%Z', ast.NotEq: '(negb (%s =? %s)%%Z)', ast.Lt: '(%s <? %s)%%Z', ast.LtE: '(%s <=? %s)%%Z'}.get(type(op))
            if t is not None:
                return E(t % (a.text, b.text), 'bool')
            t = {ast.Gt: '(%s <? %s)%%Z', ast.GtE: '(%s <=? %s)%%Z'}.get(type(op))
            if t is not None:
                return E(t % (b.text, a.text), 'bool')
        if a.ty == 'str' and b.ty == 'str' and isinstance(op, (ast.Eq, ast.NotEq)):
            e = E('(str_eqb %s %s)' % (a.text, b.text), 'bool')
            return e if isinstance(op, ast.Eq) else self.neg(e)
        if a.ty == 'bool' and b.ty == 'bool' and isinstance(op, (ast.Eq, ast.NotEq)):
            e = E('(Bool.eqb %s %s)' % (a.text, b.text), 'bool')
            return e if isinstance(op, ast.Eq) else self.neg(e)
        refuse(node, 'comparison %s on %s, %s is outside the rules' % (type(op).__name__, show_type(a.ty), show_type(b.ty)))

    def e_Subscript(self, node, env):
        if isinstance(node.slice, ast.Slice):
            if node.slice.step is not None:
                refuse(node, 'slice with a step')
            x = self.recv(node.value, env)
            if not (x.ty == 'str' or is_list(x.ty)):
                refuse(node, 'slice of a %s' % show_type(x.ty))
            return E('(py_slice %s %s %s)' % (x.text, self.bound(node.slice.lower, env), self.bound(node.slice.upper, env)), x.ty if x.ty == 'str' else ('list', x.ty[1]))
        x = self.recv(node.value, env)
        if LANG.js and x.ty in ('match', 'g0') and isinstance(node.slice, ast.Constant) and node.slice.value in (0, 1) and not isinstance(node.slice.value, bool):
            if x.ty == 'g0':
                if node.slice.value != 0:
                    refuse(node, 'group 1 of a pattern without groups')
                return E(x.text, 'str')
            return E('(m_group%d %s)' % (node.slice.value, x.text), 'str')
        if LANG.js and x.ty == 'optmatch':
            refuse(node, 'index of a match result that may be null')
        if is_tuple(x.ty):
            if not (isinstance(node.slice, ast.Constant) and isinstance(node.slice.value, int) and 0 <= node.slice.value < len(x.ty[1])):
                refuse(node, 'tuple index must be a constant in range')
            i = node.slice.value
            if x.parts is not None:
                return x.parts[i]
            return E(self.proj(x.text, i, len(x.ty[1])), x.ty[1][i])
        if is_list(x.ty) and x.ty[1][0] == 'str':
            i = self.expr(node.slice, env)
            if i.ty != 'int':
                refuse(node, 'list index of type %s' % show_type(i.ty))
            return E('(py_getitem (@nil ch) %s %s)' % (x.text, i.text), 'str')
        refuse(node, 'subscript of a %s is outside the rules' % show_type(x.ty))

    def proj(self, text, i, n):
        # (a, b, c) = ((a, b), c):  c = snd t; b = snd (fst t); a = fst (fst t)
        t = text
        for _ in range(n - 1 - i):
            t = '(fst %s)' % t
        if i > 0:
            t = '(snd %s)' % t
        return t

    def bound(self, node, env):
        if node is None:
            return 'None'
        e = self.expr(node, env)
        if e.ty != 'int':
            refuse(node, 'slice bound of type %s' % show_type(e.ty))
        return '(Some %s)' % e.text

    def e_ListComp(self, node, env):
        if len(node.generators) != 1 or node.generators[0].ifs or node.generators[0].is_async or not isinstance(node.generators[0].target, ast.Name):
            refuse(node, 'list comprehension outside the rules')
        g = node.generators[0]
        xs, elem = self.iterable(g.iter, env)
        x = coq_name(g.target.id)
        env2 = dict(env)
        env2[g.target.id] = Var(elem, x)
        body = self.expr(node.elt, env2)
        if body.text == x:
            return E(xs, new_list(body.ty if body.ty != 'g0' else 'str'))
        if body.ty == 'g0':
            body = E(body.text, 'str')
        return E('(map (fun %s => %s) %s)' % (x, body.text, xs), new_list(body.ty))

    def iterable(self, node, env):
        """-> (coq text of a list, element type) for a for-loop / comprehension source"""
        if isinstance(node, ast.Call) and isinstance(node.func, ast.Name) and node.func.id == 'range' and len(node.args) == 1 and not node.keywords:
            n = self.expr(node.args[0], env)
            if n.ty != 'int':
                refuse(node, 'range of a %s' % show_type(n.ty))
            return '(py_range %s)' % n.text, 'int'
        if LANG.js and isinstance(node, ast.Call) and isinstance(node.func, ast.Attribute) and node.func.attr == 'exec_all':
            r = self.expr(node.func.value, env)
            if r.ty == 'rx':
                text = self.rx_call(node, r, 'exec_all', env)
                # the loop visits every match of the string only if it starts with lastIndex = 0: the pattern object is new
                # (created in this function), or `name.lastIndex = 0` was the statement just before
                if not r.fresh:
                    fv = node.func.value
                    if not (isinstance(fv, ast.Name) and fv.id in env and env[fv.id].lastindex == lit_int(0)):
                        refuse(node, 'exec loop on a shared pattern object whose lastIndex is not known to be 0 here')
                    self.consumed[-1].append(fv.id)
                return text, 'g0'
            refuse(node, 'exec loop on a %s' % show_type(r.ty))
        if isinstance(node, ast.Call) and isinstance(node.func, ast.Attribute) and node.func.attr == 'finditer':
            r = self.expr(node.func.value, env)
            if r.ty == 'rx':
                return self.rx_call(node, r, 'finditer', env), 'g0'
        e = self.recv(node, env)
        if is_list(e.ty) and e.ty[1][0] is not None:
            return e.text, e.ty[1][0]
        refuse(node, 'iteration over a %s is outside the rules' % show_type(e.ty))

    def rx_call(self, node, r, method, env):
        for c, methods in sorted(r.rxs, key=lambda x: x[0]):
            if method not in methods:
                refuse(node, 'regular expression method %s on pattern %s has no hand-written scanner' % (method, c))
        if method == 'exec':
            if len(node.args) != 1 or node.keywords:
                refuse(node, 'rgx.exec with unexpected arguments')
            s = self.expr(node.args[0], env)
            if s.ty != 'str':
                refuse(node, 'rgx.exec argument type')
            return '(re_match %s %s 0%%Z)' % (r.text, s.text)
        if method == 'match':
            if not (1 <= len(node.args) <= 2) or node.keywords:
                refuse(node, 'rgx.match with unexpected arguments')
            s = self.expr(node.args[0], env)
            pos = self.expr(node.args[1], env) if len(node.args) == 2 else E(lit_int(0), 'int')
            if s.ty != 'str' or pos.ty != 'int':
                refuse(node, 'rgx.match argument types')
            return '(re_match %s %s %s)' % (r.text, s.text, pos.text)
        if len(node.args) != 1 or node.keywords:
            refuse(node, 'rgx.%s with unexpected arguments' % method)
        s = self.expr(node.args[0], env)
        if s.ty != 'str':
            refuse(node, 'rgx.%s argument type' % method)
        return '(re_finditer_g0 %s %s)' % (r.text, s.text)

    def e_Call(self, node, env):
        f = node.func
        if node.keywords:
            refuse(node, 'keyword arguments are outside the rules')
        if isinstance(f, ast.Name):
            if f.id == 'len' and len(node.args) == 1:
                x = self.recv(node.args[0], env)
                if x.ty == 'str' or is_list(x.ty):
                    return E('(zlen %s)' % x.text, 'int')
                refuse(node, 'len of a %s' % show_type(x.ty))
            if f.id == 'list' and not node.args and not LANG.js:
                return E('[]', new_list())
            if LANG.js and f.id == 'RegExp':
                pat = self.mod.compile_text(node)
                if pat is None:
                    refuse(node, 'new RegExp with a non-constant argument')
                r = self.rx_of_text(node, pat)
                r.fresh = True            # a new object: its lastIndex is 0
                return r
            if f.id in self.mod.funcs and f.id not in env:
                info = self.callee(node, env)
                if info.partial or info.mutated:
                    refuse(node, 'call of %s (partial or mutating) must be a statement of its own' % f.id)
                args = self.call_args(node, info, env)
                return E('(%s%s %s)' % (LANG.prefix, f.id, ' '.join(args)), info.ret)
            refuse(node, 'call of %s is outside the rules' % f.id)
        if isinstance(f, ast.Attribute):
            # re.compile(<constant>)
            pat = self.mod.compile_text(node)
            if pat is not None:
                return self.rx_of_text(node, pat)
            # '..{}..'.format(x, ..)
            if f.attr == 'format' and isinstance(f.value, ast.Constant) and isinstance(f.value.value, str):
                pieces = f.value.value.split('{}')
                if any('{' in p or '}' in p for p in pieces) or len(pieces) != len(node.args) + 1:
                    refuse(node, 'format string outside the rules')
                out = []
                for i, p in enumerate(pieces):
                    if p:
                        out.append(lit_str(p))
                    if i < len(node.args):
                        a = self.expr(node.args[i], env)
                        if a.ty != 'str':
                            refuse(node, 'format argument of type %s' % show_type(a.ty))
                        out.append(a.text)
                return E('(' + ' ++ '.join(out) + ')' if len(out) > 1 else out[0], 'str')
            x = self.recv(f.value, env)
            if LANG.js:
                r = self.js_method(node, f, x, env)
                if r is not None:
                    return r
                refuse(node, 'unknown method %s on a %s' % (f.attr, show_type(x.ty)))
            if x.ty == 'rx' and f.attr == 'match':
                return E(self.rx_call(node, x, 'match', env), 'optmatch')
            if x.ty == 'rx' and f.attr == 'findall':
                return E(self.rx_call(node, x, 'findall', env), new_list('str'))
            args = [self.expr(a, env) for a in node.args]
            tys = [a.ty for a in args]
            if x.ty == 'str':
                if f.attr == 'find' and tys in (['str'], ['str', 'int']):
                    return E('(py_find %s %s %s)' % (x.text, args[0].text, args[1].text if len(args) == 2 else lit_int(0)), 'int')
                if f.attr == 'startswith' and tys in (['str'], ['str', 'int']):
                    return E('(py_startswith %s %s %s)' % (x.text, args[0].text, args[1].text if len(args) == 2 else lit_int(0)), 'bool')
                if f.attr == 'split' and tys == ['str']:
                    return E('(py_split %s %s)' % (x.text, args[0].text), new_list('str'))
                if f.attr == 'replace' and tys == ['str', 'str']:
                    return E('(py_replace %s %s %s)' % (x.text, args[0].text, args[1].text), 'str')
            if x.ty == 'match':
                if f.attr == 'span' and not args:
                    a = E('(m_start %s)' % x.text, 'int')
                    b = E('(m_end %s)' % x.text, 'int')
                    return E('(%s, %s)' % (a.text, b.text), ('tuple', ('int', 'int')), parts=[a, b])
                if f.attr in ('start', 'end') and not args:
                    return E('(m_%s %s)' % (f.attr, x.text), 'int')
                if f.attr == 'group' and (not args or (len(node.args) == 1 and isinstance(node.args[0], ast.Constant) and node.args[0].value in (0, 1) and not isinstance(node.args[0].value, bool))):
                    k = node.args[0].value if node.args else 0
                    return E('(m_group%d %s)' % (k, x.text), 'str')
            if x.ty == 'g0' and f.attr == 'group' and (not args or (len(node.args) == 1 and isinstance(node.args[0], ast.Constant) and node.args[0].value == 0)):
                return E(x.text, 'str')
            if x.ty == 'optmatch':
                refuse(node, 'method %s on a match result that may be None' % f.attr)
            refuse(node, 'unknown method %s on a %s' % (f.attr, show_type(x.ty)))
        refuse(node, 'call form outside the rules')

    def js_method(self, node, f, x, env):
        if x.ty == 'rx' and f.attr == 'exec':
            if all('exec_sticky' in methods for _c, methods in x.rxs):
                # a sticky pattern: the match is anchored at lastIndex, which must have been assigned by the statement before
                if not (isinstance(f.value, ast.Name) and f.value.id in env and env[f.value.id].lastindex is not None):
                    refuse(node, 'exec of a sticky pattern whose lastIndex is not known here')
                if len(node.args) != 1:
                    refuse(node, 'rgx.exec with unexpected arguments')
                s_ = self.expr(node.args[0], env)
                if s_.ty != 'str':
                    refuse(node, 'rgx.exec argument type')
                self.consumed[-1].append(f.value.id)
                return E('(re_match %s %s %s)' % (x.text, s_.text, env[f.value.id].lastindex), 'optmatch')
            return E(self.rx_call(node, x, 'exec', env), 'optmatch')
        if x.ty != 'str':
            return None
        # s.replace(/plain text/g, 'replacement')
        if f.attr == 'replace' and len(node.args) == 2 and isinstance(node.args[0], ast.Constant) and isinstance(node.args[0].value, tuple):
            key = (node.args[0].value[1], node.args[0].value[2])
            if key not in JS_REPLACE_LITERALS:
                refuse(node, 'replace with the regular expression literal /%s/%s is outside the rules' % key)
            rep = self.expr(node.args[1], env)
            if not (isinstance(node.args[1], ast.Constant) and isinstance(node.args[1].value, str) and '$' not in node.args[1].value):
                refuse(node, 'replacement text must be a constant without $')
            return E('(py_replace %s %s %s)' % (x.text, lit_str(JS_REPLACE_LITERALS[key]), rep.text), 'str')
        args = [self.expr(a, env) for a in node.args]
        tys = [a.ty for a in args]
        if f.attr == 'substring' and tys in (['int'], ['int', 'int']):
            return E('(js_substring %s %s %s)' % (x.text, args[0].text, '(Some %s)' % args[1].text if len(args) == 2 else 'None'), 'str')
        if f.attr == 'slice' and tys in (['int'], ['int', 'int']):
            return E('(py_slice %s (Some %s) %s)' % (x.text, args[0].text, '(Some %s)' % args[1].text if len(args) == 2 else 'None'), 'str')
        if f.attr == 'indexOf' and tys in (['str'], ['str', 'int']):
            return E('(js_indexof %s %s %s)' % (x.text, args[0].text, args[1].text if len(args) == 2 else lit_int(0)), 'int')
        if f.attr == 'startsWith' and tys in (['str'], ['str', 'int']):
            return E('(js_startswith %s %s %s)' % (x.text, args[0].text, args[1].text if len(args) == 2 else lit_int(0)), 'bool')
        if f.attr == 'includes' and tys == ['str']:
            return E('(py_contains %s %s)' % (x.text, args[0].text), 'bool')
        if f.attr == 'split' and tys == ['str']:
            return E('(py_split %s %s)' % (x.text, args[0].text), new_list('str'))
        return None

    def callee(self, node, env):
        """the translated callee of f(..); a HELPER (a function outside SIGS) is translated here, on its first call, with the
        parameter types of this call site (every later call must fit them)"""
        name = node.func.id
        info = self.infos.get(name)
        if info is None:
            refuse(node, 'call of %s, which is not part of the call graph of the covered functions' % name)
        if info.text is not None:
            return info
        if info.params is not None or info.busy:
            refuse(node, 'call of %s before its translation (recursion is outside the rules)' % name)
        a = info.node.args
        if a.defaults or a.vararg or a.kwarg or a.kwonlyargs or a.posonlyargs or len(node.args) != len(a.args) or node.keywords:
            refuse(node, 'helper %s: defaults / variadic parameters / a different number of arguments are outside the rules' % name)
        params = []
        for i, (arg, actual) in enumerate(zip(a.args, node.args)):
            if i in info.mutated:
                if not (isinstance(actual, ast.Name) and actual.id in env):
                    refuse(node, 'argument %d of %s is mutated by it: a plain local name is required' % (i, name))
                ty = env[actual.id].ty
            else:
                ty = self.expr(actual, env).ty
            if ty == 'g0':
                ty = 'str'
            if not (ty in ('int', 'str', 'bool') or (is_list(ty) and ty[1][0] == 'str')):
                refuse(node, 'helper %s: a parameter of type %s is outside the rules' % (name, show_type(ty)))
            params.append((arg.arg, ty, None))
        info.params = params
        info.busy = True
        info.helper = True
        FnTr(self.mod, self.infos, info).run()
        info.busy = False
        return info

    def call_args(self, node, info, env, allow_mut=False):
        if len(node.args) > len(info.params):
            refuse(node, 'too many arguments for %s' % info.name)
        out = []
        for i, (pn, pt, pd) in enumerate(info.params):
            if i < len(node.args):
                if i in info.mutated:
                    a = node.args[i]
                    if not (allow_mut and isinstance(a, ast.Name) and a.id in env):
                        refuse(node, 'argument %d of %s is mutated by it: a plain local name is required' % (i, info.name))
                    e = E(env[a.id].coq, env[a.id].ty)
                else:
                    e = self.expr(node.args[i], env)
            else:
                if pd is None:
                    refuse(node, 'missing argument %s of %s' % (pn, info.name))
                e = self.e_Constant(ast.Constant(value=pd[0]), env)
            if not same_type(e.ty, pt):
                refuse(node, 'argument %s of %s: %s expected, %s given' % (pn, info.name, show_type(pt), show_type(e.ty)))
            out.append(e.text)
        return out

    # -- statements (continuation passing: k(env) gives the text of what follows)
    def block(self, stmts, env, k):
        if not stmts:
            return k(env)
        st, rest = stmts[0], stmts[1:]
        self.nodes += 1
        hoisted = self.hoist(st, env)
        if hoisted:
            return self.block(hoisted + list(rest), env, k)
        m = getattr(self, 's_' + type(st).__name__, None)
        if m is None:
            refuse(st, 'statement form %s is outside the rules' % type(st).__name__)
        used = []                      # sticky patterns whose lastIndex this statement's own expressions consume

        def k2(e2):
            if used:
                e2 = dict(e2)
                for n in used:
                    if n in e2:
                        e2[n] = Var(e2[n].ty, e2[n].coq, rxs=e2[n].rxs, fresh=e2[n].fresh)
            return self.block(rest, e2, k)
        self.consumed.append(used)
        try:
            return m(st, env, k2)
        finally:
            self.consumed.pop()

    def hoist(self, st, env):
        """a call of a PARTIAL or MUTATING translated function nested inside the expression of a simple statement is bound first:
        tmp = f(..); statement with tmp.  Sound for a partial callee because every expression is pure (only WHETHER the call is
        evaluated matters: refused under a conditional / short-circuit operator / comprehension).  Sound for a mutating callee
        because, in addition, (a) it is the only such call in the statement and (b) the names it mutates occur nowhere else in
        the statement's expression - so no part of the expression can observe whether the mutation has happened yet."""
        if not isinstance(st, (ast.Return, ast.Assign, ast.AugAssign, ast.Expr)) or st.value is None:
            return None
        tr = self

        def bindable(n):
            return tr.is_fn_call(n, env) and tr.infos.get(n.func.id) is not None and (tr.infos[n.func.id].partial or tr.infos[n.func.id].mutated)
        if bindable(st.value):
            return None                       # already a statement of its own
        found = [n for n in ast.walk(st.value) if bindable(n)]
        if not found:
            return None
        for n in ast.walk(st.value):
            if isinstance(n, (ast.IfExp, ast.BoolOp, ast.ListComp, ast.Lambda)) and any(bindable(x) for x in ast.walk(n)):
                refuse(st, 'call of a partial or mutating function under a conditional expression')
        mutating = [n for n in found if tr.infos[n.func.id].mutated]
        if mutating:
            if len(found) != 1:
                refuse(st, 'several calls of partial / mutating functions in one expression')
            call = mutating[0]
            names = set()
            for i in tr.infos[call.func.id].mutated:
                if i >= len(call.args) or not isinstance(call.args[i], ast.Name):
                    refuse(st, 'argument %d of %s is mutated by it: a plain local name is required' % (i, call.func.id))
                names.add(call.args[i].id)
            inside = sum(1 for x in ast.walk(call) if isinstance(x, ast.Name) and x.id in names)
            total = sum(1 for x in ast.walk(st.value) if isinstance(x, ast.Name) and x.id in names)
            if inside != len(names) or total != inside:
                refuse(st, 'the list that %s mutates is mentioned elsewhere in the same expression' % call.func.id)
        import copy
        st = copy.deepcopy(st)                # (the statement may be translated again in another copy of a continuation)
        pre = []

        class H(ast.NodeTransformer):
            def visit_Call(self, n):
                self.generic_visit(n)
                if bindable(n):
                    tr.n_hoist += 1
                    name = 'call%d__' % tr.n_hoist
                    a = ast.Assign(targets=[ast.Name(id=name, ctx=ast.Store())], value=n)
                    ast.copy_location(a, st)
                    pre.append(a)
                    return ast.copy_location(ast.Name(id=name, ctx=ast.Load()), n)
                return n
        st.value = H().visit(st.value)
        for a in pre:
            ast.fix_missing_locations(a)
        ast.fix_missing_locations(st)
        return pre + [st]

    def s_Continue(self, st, env, k):
        if not self.loop_k:
            refuse(st, 'continue outside a loop')
        return self.loop_k[-1](env)

    def s_Pass(self, st, env, k):
        return k(env)

    def s_Return(self, st, env, k):
        if self.loop_depth:
            refuse(st, 'return inside a loop is outside the rules')
        if st.value is None:
            refuse(st, 'return without a value')
        # return f(..) of a translated function
        if self.is_fn_call(st.value, env):
            info = self.infos[st.value.func.id]
            if info.partial or info.mutated:
                tmp = '__ret'
                return self.bind_call(st, [tmp], None, st.value, env, lambda e2: self.ret_text(E(e2[tmp].coq, e2[tmp].ty), e2))
        self._in_return = True
        try:
            e = self.expr(st.value, env)
        finally:
            self._in_return = False
        if e.ty in ('optmatch', 'none', 'rx', 'g0', 'match'):
            refuse(st, 'returning a %s is outside the rules' % show_type(e.ty))
        return self.ret_text(e, env)

    def ret_text(self, e, env):
        if self.info.ret is None:
            self.info.ret = e.ty
        elif not same_type(self.info.ret, e.ty):
            raise Refuse('%s: %s returns both %s and %s' % (LANG.src_rel, self.info.name, show_type(self.info.ret), show_type(e.ty)))
        t = e.text
        if self.info.mutated:
            t = '(' + ', '.join([env[self.info.params[i][0]].coq for i in self.info.mutated] + [t]) + ')'
        return '(Some %s)' % t if self.info.partial else t

    def is_fn_call(self, node, env):
        return isinstance(node, ast.Call) and isinstance(node.func, ast.Name) and node.func.id in self.mod.funcs and node.func.id not in env

    def bind_call(self, st, targets, target_types_check, call, env, k):
        """targets: list of python names receiving the (components of the) result, or [] to drop it"""
        info = self.callee(call, env)
        if call.keywords:
            refuse(st, 'keyword arguments are outside the rules')
        args = self.call_args(call, info, env, allow_mut=True)
        env2 = dict(env)
        mut_names = []
        for i in info.mutated:
            n = call.args[i].id
            if not is_list(env[n].ty):
                refuse(st, 'mutated argument %s is not a list' % n)
            mut_names.append(env[n].coq)
            env2[n] = Var(env[n].ty, env[n].coq)
        if len(targets) == 0:
            rp = '_'
        elif len(targets) == 1:
            env2[targets[0]] = Var(info.ret, coq_name(targets[0]) if targets[0] != '__ret' else 'ret__')
            rp = env2[targets[0]].coq
        else:
            if not is_tuple(info.ret) or len(info.ret[1]) != len(targets):
                refuse(st, 'unpacking %d values from %s' % (len(targets), show_type(info.ret)))
            for t, ty in zip(targets, info.ret[1]):
                env2[t] = Var(ty, coq_name(t))
            rp = '(' + ', '.join(env2[t].coq for t in targets) + ')'
        pat = '(' + ', '.join(mut_names + [rp]) + ')' if mut_names else rp
        calltxt = '%s%s %s' % (LANG.prefix, info.name, ' '.join(args))
        body = k(env2)
        if info.partial:
            if not self.info.partial:
                refuse(st, 'internal: partial callee in a total function')
            return 'match %s with\n| None => None\n| Some %s =>\n%s\nend' % (calltxt, pat, indent(body))
        if pat.startswith('('):
            return "let '%s := %s in\n%s" % (pat, calltxt, body)
        return 'let %s := %s in\n%s' % (pat, calltxt, body)

    def s_Expr(self, st, env, k):
        v = st.value
        if isinstance(v, ast.Constant) and isinstance(v.value, str):
            return k(env)                 # docstring
        if isinstance(v, ast.Call) and isinstance(v.func, ast.Attribute) and v.func.attr == ('push' if LANG.js else 'append') and isinstance(v.func.value, ast.Name) and len(v.args) == 1 and not v.keywords:
            name = v.func.value.id
            if name not in env or not is_list(env[name].ty):
                refuse(st, 'append on %s which is not a local list' % name)
            e = self.expr(v.args[0], env)
            if e.ty == 'g0':
                e = E(e.text, 'str')
            if not same_type(env[name].ty, new_list(e.ty)) or e.ty != 'str':
                refuse(st, 'append of a %s to %s' % (show_type(e.ty), show_type(env[name].ty)))
            env2 = dict(env)
            env2[name] = Var(env[name].ty, env[name].coq)
            return mk_let(env[name].coq, '(%s ++ [%s])' % (env[name].coq, e.text), k(env2))
        if self.is_fn_call(v, env):
            return self.bind_call(st, [], None, v, env, k)
        refuse(st, 'expression statement outside the rules')

    def s_Assert(self, st, env, k):
        c = self.truth(st.test, env)
        if c.const is True:
            return k(env)
        return 'if %s then\n%s\nelse None' % (c.text, indent(k(env)))

    def s_AugAssign(self, st, env, k):
        if not isinstance(st.target, ast.Name):
            refuse(st, 'augmented assignment to a non-name')
        new = ast.Assign(targets=[ast.Name(id=st.target.id, ctx=ast.Store())], value=ast.BinOp(left=ast.Name(id=st.target.id, ctx=ast.Load()), op=st.op, right=st.value))
        ast.copy_location(new, st)
        ast.fix_missing_locations(new)
        if st.target.id in env and is_list(env[st.target.id].ty):
            refuse(st, '+= on a list is an in-place extension: outside the rules')
        return self.s_Assign(new, env, k)

    def s_Assign(self, st, env, k):
        if len(st.targets) != 1:
            refuse(st, 'multiple assignment targets')
        tg = st.targets[0]
        # rgx.lastIndex = pos  (a sticky pattern held in a local name);  rgxp.lastIndex = 0  (a global pattern, before its exec loop)
        if LANG.js and isinstance(tg, ast.Attribute):
            if not (tg.attr == 'lastIndex' and isinstance(tg.value, ast.Name) and tg.value.id in env and env[tg.value.id].ty == 'rx'):
                refuse(st, 'attribute assignment other than <pattern>.lastIndex = position')
            v = env[tg.value.id]
            sticky = all('exec_sticky' in methods for _c, methods in v.rxs)
            glob = all('exec_all' in methods for _c, methods in v.rxs)
            pos = self.expr(st.value, env)
            if pos.ty != 'int':
                refuse(st, 'lastIndex of type %s' % show_type(pos.ty))
            if not sticky and not (glob and pos.text == lit_int(0)):
                refuse(st, 'lastIndex may be assigned on a sticky pattern (any position) or on a global pattern (the constant 0 only)')
            env2 = dict(env)
            env2[tg.value.id] = Var(v.ty, v.coq, rxs=v.rxs, lastindex=pos.text, fresh=v.fresh)
            return k(env2)
        # l[i] = e   /   l[:k] = e
        if isinstance(tg, ast.Subscript):
            if not (isinstance(tg.value, ast.Name) and tg.value.id in env and is_list(env[tg.value.id].ty) and env[tg.value.id].ty[1][0] == 'str'):
                refuse(st, 'item assignment outside the rules')
            name = tg.value.id
            lv = env[name].coq
            if isinstance(tg.slice, ast.Slice):
                if tg.slice.lower is not None or tg.slice.step is not None or tg.slice.upper is None:
                    refuse(st, 'slice assignment other than l[:k] = e')
                hi = self.bound(tg.slice.upper, env)
                e = self.expr(st.value, env)
                if not same_type(e.ty, env[name].ty):
                    refuse(st, 'slice assignment of a %s' % show_type(e.ty))
                new = '(%s ++ (py_slice %s %s None))' % (e.text, lv, hi)
            else:
                i = self.expr(tg.slice, env)
                e = self.expr(st.value, env)
                if i.ty != 'int' or e.ty != 'str':
                    refuse(st, 'item assignment types')
                new = '(py_setitem %s %s %s)' % (lv, i.text, e.text)
            env2 = dict(env)
            env2[name] = Var(env[name].ty, lv)
            return mk_let(lv, new, k(env2))
        if isinstance(tg, ast.Tuple):
            if not all(isinstance(x, ast.Name) for x in tg.elts):
                refuse(st, 'nested unpacking')
            names = [x.id for x in tg.elts]
            if len(set(names)) != len(names):
                refuse(st, 'a name twice in an unpacking')
            self.check_rebind(st, names, env)
            if self.is_fn_call(st.value, env) and (self.infos[st.value.func.id].partial or self.infos[st.value.func.id].mutated):
                return self.bind_call(st, names, None, st.value, env, k)
            e = self.expr(st.value, env)
            if not is_tuple(e.ty) or len(e.ty[1]) != len(names):
                refuse(st, 'unpacking %d values from %s' % (len(names), show_type(e.ty)))
            env2 = dict(env)
            for n, ty in zip(names, e.ty[1]):
                env2[n] = Var(ty, coq_name(n))
            return "let '(%s) := %s in\n%s" % (', '.join(env2[n].coq for n in names), e.text, k(env2))
        if not isinstance(tg, ast.Name):
            refuse(st, 'assignment target outside the rules')
        name = tg.id
        self.check_rebind(st, [name], env)
        if self.is_fn_call(st.value, env) and (self.infos[st.value.func.id].partial or self.infos[st.value.func.id].mutated):
            return self.bind_call(st, [name], None, st.value, env, k)
        e = self.expr(st.value, env)
        if isinstance(st.value, ast.Name) and is_list(e.ty) and (st.value.id in self.mut_lists or name in self.mut_lists):
            refuse(st, 'alias of a list that is mutated')
        if e.ty in ('g0',):
            e = E(e.text, 'str')
        if e.ty == 'none':
            if not LANG.js:
                refuse(st, 'assignment of None')
            env2 = dict(env)
            env2[name] = Var('none', coq_name(name))
            return k(env2)
        env2 = dict(env)
        cn = coq_name(name)
        if e.const is not None and not self.loop_depth:
            env2[name] = Var('bool', cn, const=e.const)
            return k(env2)
        env2[name] = Var(e.ty, cn, rxs=e.rxs, fresh=e.fresh)
        return mk_let(cn, e.text, k(env2))

    def check_rebind(self, st, names, env):
        for n in names:
            if n in self.mod.funcs or n in ('len', 'list', 'range', 're'):
                refuse(st, 'assignment to the name %s' % n)
            for i in self.info.mutated:
                if self.info.params[i][0] == n:
                    refuse(st, 'the mutated parameter %s is rebound' % n)
            if n in self.mut_lists and n in env:
                refuse(st, 'the mutated list %s is rebound' % n)

    def s_If(self, st, env, k):
        test = st.test
        # `A and B` with a None test first:  if A: (if B: T else: E) else: E
        if isinstance(test, ast.BoolOp) and isinstance(test.op, ast.And) and self.none_test(test.values[0], env) is not None and env[self.none_test(test.values[0], env)[0]].ty == 'optmatch':
            rest = test.values[1] if len(test.values) == 2 else ast.BoolOp(op=ast.And(), values=test.values[1:])
            inner = ast.If(test=rest, body=st.body, orelse=st.orelse)
            ast.copy_location(inner, st)
            outer = ast.If(test=test.values[0], body=[inner], orelse=st.orelse)
            ast.copy_location(outer, st)
            ast.fix_missing_locations(outer)
            return self.s_If(outer, env, k)
        nt = self.none_test(test, env)
        if nt is not None and env[nt[0]].ty == 'optmatch':
            name, positive = nt
            v = env[name]
            env_some = dict(env)
            env_some[name] = Var('match', v.coq)
            env_none = dict(env)
            env_none[name] = Var('none', v.coq)
            a = self.block(st.body if positive else st.orelse, env_some, k)
            b = self.block(st.orelse if positive else st.body, env_none, k)
            return 'match %s with\n| Some %s =>\n%s\n| None =>\n%s\nend' % (v.coq, v.coq, indent(a), indent(b))
        c = self.truth(test, env)
        if c.const is not None:
            return self.block(st.body if c.const else st.orelse, env, k)
        j = self.join_if(st, c, env, k)
        if j is not None:
            return j
        a = self.block(st.body, env, k)
        b = self.block(st.orelse, env, k)
        return 'if %s then\n%s\nelse\n%s' % (c.text, indent(a), indent(b))

    def join_if(self, st, c, env, k):
        """an `if` whose branches only bind variables (no return, no loop):  let '(x, y) := if c then .. (x, y) else .. (x, y) in
        instead of copying the continuation into both branches.  None when a name is bound in one branch only."""
        for n in ast.walk(st):
            if isinstance(n, (ast.Return, ast.While, ast.For, ast.Assert, ast.Continue)):
                return None
            if self.is_fn_call(n, env) and self.infos.get(n.func.id) is not None and self.infos[n.func.id].partial:
                return None
        names = sorted(assigned_names(st.body + st.orelse, self.infos))
        if not names:
            return k(env)
        types = {}

        class NoJoin(Exception):
            pass

        def kk(e2):
            out = []
            for n in names:
                if n not in e2 or e2[n].ty in ('optmatch', 'match', 'none', 'rx', 'g0'):
                    raise NoJoin()
                if n in types and not same_type(types[n], e2[n].ty):
                    raise NoJoin()
                types[n] = e2[n].ty
                out.append(self.var_text(e2[n]))
            return tuple_pat(out)
        saved = self.nodes
        try:
            a = self.block(st.body, env, kk)
            b = self.block(st.orelse, env, kk)
        except NoJoin:
            self.nodes = saved
            return None
        env2 = dict(env)
        for n in names:
            env2[n] = Var(types[n], coq_name(n))
        pat = tuple_pat([env2[n].coq for n in names])
        return "let %s :=\n  if %s then\n%s\n  else\n%s in\n%s" % (("'" + pat) if len(names) > 1 else pat, c.text, indent(indent(a)), indent(indent(b)), k(env2))

    def loop_state(self, st, body, env, extra=()):
        names = sorted(n for n in assigned_names(body, self.infos) if n in env and n not in extra)
        for n in names:
            if env[n].ty in ('optmatch', 'match', 'none', 'rx', 'g0'):
                refuse(st, 'loop-carried variable %s of type %s' % (n, show_type(env[n].ty)))
        return names

    def s_While(self, st, env, k):
        if st.orelse:
            refuse(st, 'while .. else')
        if self.loop_depth:
            refuse(st, 'nested loops are outside the rules')
        fuels = LANG.fuel.get(self.info.name, [])
        if self.n_while >= len(fuels):
            refuse(st, 'while loop in %s: no fuel is known for it' % self.info.name)
        ftmpl, fvar = fuels[self.n_while]
        self.n_while += 1
        if fvar not in env or not (env[fvar].ty == 'str' or is_list(env[fvar].ty)):
            refuse(st, 'the fuel %s needs the variable %s' % (ftmpl % fvar, fvar))
        if fvar == 'src' and (fvar in assigned_names(self.info.node.body, self.infos) or fvar not in [p[0] for p in self.info.params]):
            refuse(st, 'the fuel %s needs the unmodified parameter %s' % (ftmpl % fvar, fvar))
        fuel = ftmpl % env[fvar].coq
        names = self.loop_state(st, st.body, env)
        if not names:
            refuse(st, 'while loop without loop-carried state')
        inner = dict(env)
        for n in names:
            inner[n] = Var(env[n].ty, env[n].coq)
        pat = tuple_pat([env[n].coq for n in names])
        fpat = ("'" + pat) if len(names) > 1 else pat
        self.loop_depth += 1
        self.loop_k.append(lambda e2: self.state_value(st, names, env, e2))      # `continue` = the state as it is
        try:
            cond = self.truth(st.test, inner)
            body = self.block(st.body, inner, self.loop_k[-1])
        finally:
            self.loop_depth -= 1
            self.loop_k.pop()
        init = tuple_pat([self.var_text(env[n]) for n in names])
        after = dict(env)
        for n in names:
            after[n] = Var(env[n].ty, env[n].coq)
        return ('match while_fuel (%s)\n  (fun %s => %s)\n  (fun %s =>\n%s)\n  %s with\n| None => None\n| Some %s =>\n%s\nend'
                % (fuel, fpat, cond.text, fpat, indent(indent(body)), init, pat, indent(k(after))))

    def var_text(self, v):
        if v.const is not None:
            return 'true' if v.const else 'false'
        return v.coq

    def state_value(self, st, names, env0, env2):
        out = []
        for n in names:
            if n not in env2 or not same_type(env2[n].ty, env0[n].ty):
                refuse(st, 'loop-carried variable %s changes its type' % n)
            out.append(self.var_text(env2[n]))
        return tuple_pat(out)

    def s_For(self, st, env, k):
        if st.orelse:
            refuse(st, 'for .. else')
        if self.loop_depth:
            refuse(st, 'nested loops are outside the rules')
        if not isinstance(st.target, ast.Name):
            refuse(st, 'for target outside the rules')
        xs, elem = self.iterable(st.iter, env)
        x = coq_name(st.target.id)
        names = self.loop_state(st, st.body, env, extra=(st.target.id,))
        if st.target.id in assigned_names(st.body):
            refuse(st, 'the loop variable is assigned in the loop')
        if not names:
            refuse(st, 'for loop without loop-carried state')
        inner = dict(env)
        for n in names:
            inner[n] = Var(env[n].ty, env[n].coq)
        inner[st.target.id] = Var(elem, x)
        pat = tuple_pat([env[n].coq for n in names])
        fpat = ("'" + pat) if len(names) > 1 else pat
        self.loop_depth += 1
        self.loop_k.append(lambda e2: self.state_value(st, names, env, e2))
        try:
            body = self.block(st.body, inner, self.loop_k[-1])
        finally:
            self.loop_depth -= 1
            self.loop_k.pop()
        init = tuple_pat([self.var_text(env[n]) for n in names])
        after = dict(env)
        for n in names:
            after[n] = Var(env[n].ty, env[n].coq)
        if len(names) > 1:
            return "let '%s := fold_left (fun %s %s =>\n%s)\n  %s %s in\n%s" % (pat, fpat, x, indent(indent(body)), xs, init, k(after))
        return 'let %s := fold_left (fun %s %s =>\n%s)\n  %s %s in\n%s' % (pat, fpat, x, indent(indent(body)), xs, init, k(after))

    # -- the function
    def run(self):
        info = self.info
        node = info.node
        a = node.args
        if a.vararg or a.kwarg or a.kwonlyargs or a.posonlyargs or node.decorator_list:
            refuse(node, 'signature of %s is outside the rules' % info.name)
        self.mut_lists = set()
        for n in ast.walk(node):
            if isinstance(n, ast.Call) and isinstance(n.func, ast.Attribute) and n.func.attr in ('append', 'push') and isinstance(n.func.value, ast.Name):
                self.mut_lists.add(n.func.value.id)
            if isinstance(n, ast.Call) and isinstance(n.func, ast.Attribute) and n.func.attr in ('extend', 'insert', 'pop', 'clear', 'sort', 'reverse', 'remove', 'shift', 'unshift', 'splice') and isinstance(n.func.value, ast.Name):
                refuse(n, 'list method %s is outside the rules' % n.func.attr)
            if isinstance(n, ast.Subscript) and isinstance(n.ctx, ast.Store) and isinstance(n.value, ast.Name):
                self.mut_lists.add(n.value.id)
            if isinstance(n, (ast.Lambda, ast.FunctionDef, ast.ClassDef, ast.Global, ast.Nonlocal, ast.Try, ast.With, ast.Yield, ast.YieldFrom, ast.Delete, ast.Break)) and n is not node:
                refuse(n, '%s is outside the rules' % type(n).__name__)
            if self.is_fn_call(n, {}):
                callee = self.infos.get(n.func.id)
                if callee is not None:
                    for i in callee.mutated:
                        if i < len(n.args) and isinstance(n.args[i], ast.Name):
                            self.mut_lists.add(n.args[i].id)
        env = {}
        for pn, pt, pd in info.params:
            env[pn] = Var(pt, coq_name(pn))
        self.loop_depth = 0
        self.loop_k = []
        self.n_while = 0
        self.n_hoist = 0
        self.consumed = [[]]
        body = self.block(node.body, env, lambda e2: refuse(node, 'a path through %s ends without return' % info.name))
        ps = ' '.join('(%s : %s)' % (coq_name(pn), coq_type(pt)) for pn, pt, pd in info.params)
        info.text = 'Definition %s%s %s :=\n%s.' % (LANG.prefix, info.name, ps, indent(body))
        info.size = self.nodes
        self.mod.emitted.append(info.name)


def indent(text):
    return '\n'.join('  ' + line for line in text.split('\n'))


def analyse(mod, names):
    """call order, partiality and mutated parameters of the functions to translate"""
    todo = []

    def visit(n, stack):
        if n in stack:
            raise Refuse('%s: recursion through %s is outside the rules' % (LANG.src_rel, n))
        if n in todo:
            return
        for c in called_functions(mod.funcs[n], mod):
            if c != n:
                visit(c, stack + [n])
            else:
                raise Refuse('%s: %s is recursive' % (LANG.src_rel, n))
        todo.append(n)
    for n in names:
        if n not in mod.funcs:
            if n in OPTIONAL:
                continue
            raise Refuse('%s: the covered function %s is gone' % (LANG.src_rel, n))
        visit(n, [])
    infos = {}
    for n in todo:
        node = mod.funcs[n]
        info = FnInfo(n, node)
        args = node.args.args
        defaults = [None] * (len(args) - len(node.args.defaults)) + list(node.args.defaults)
        if n in SIGS:
            sig = SIGS[n]
            got = []
            for a, d in zip(args, defaults):
                if d is not None and not (isinstance(d, ast.Constant) and isinstance(d.value, (bool, int, str))):
                    refuse(node, 'default value of %s.%s is outside the rules' % (n, a.arg))
                got.append((a.arg, None if d is None else d.value))
            want = [(p[0], p[2]) for p in sig]
            if got != want:
                refuse(node, 'the signature of %s changed: %r expected, %r found' % (n, want, got))
            info.params = [(p[0], new_list(p[1][1][0]) if is_list(p[1]) else p[1], None if p[2] is None else (p[2],)) for p in sig]
        else:
            info.params = None        # a helper: parameter types are taken from its first call site
        infos[n] = info
    # partial: contains while / assert or calls a partial function
    for n in todo:
        node = mod.funcs[n]
        infos[n].partial = any(isinstance(x, (ast.While, ast.Assert)) for x in ast.walk(node)) or any(infos[c].partial for c in called_functions(node, mod))
    # mutated parameters
    for n in todo:
        node = mod.funcs[n]
        pnames = [a.arg for a in node.args.args]
        mut = set()
        for x in ast.walk(node):
            if isinstance(x, ast.Call) and isinstance(x.func, ast.Attribute) and x.func.attr in ('append', 'push') and isinstance(x.func.value, ast.Name) and x.func.value.id in pnames:
                mut.add(pnames.index(x.func.value.id))
            if isinstance(x, ast.Subscript) and isinstance(x.ctx, ast.Store) and isinstance(x.value, ast.Name) and x.value.id in pnames:
                mut.add(pnames.index(x.value.id))
            if isinstance(x, ast.Call) and isinstance(x.func, ast.Name) and x.func.id in infos and x.func.id != n:
                for i in infos[x.func.id].mutated:
                    if i < len(x.args) and isinstance(x.args[i], ast.Name) and x.args[i].id in pnames:
                        mut.add(pnames.index(x.args[i].id))
        infos[n].mutated = sorted(mut)
    return todo, infos


def translate(path):
    text = open(path, encoding='utf-8').read()
    if LANG.js:
        import jsparse_csv
        try:
            consts, funcs, skipped_js = jsparse_csv.parse_functions(text, LANG.src_rel)
        except jsparse_csv.JSRefuse as e:
            raise Refuse('outside the JavaScript subset: %s' % e)
        mod = Module.from_js(consts, funcs, list(funcs))
    else:
        tree = ast.parse(text, path)
        mod = Module(tree)
    todo, infos = analyse(mod, COVERED)
    for n in todo:
        info = infos[n]
        if info.params is None:
            continue                  # a helper: translated at its first call site (FnTr.callee)
        FnTr(mod, infos, info).run()
        if n in RESULT:
            if not same_type(freeze_type(info.ret), freeze_type(RESULT[n])):
                raise Refuse('%s: the result of %s changed its shape: %s expected, %s found' % (LANG.src_rel, n, show_type(RESULT[n]), show_type(info.ret)))
            if info.partial != LANG.expect_partial[n]:
                raise Refuse('%s: %s %s (a while loop or an assert appeared or disappeared): the statement of its obligation no longer fits'
                             % (LANG.src_rel, n, 'became partial' if info.partial else 'is no longer partial'))
            if [info.params[i][0] for i in info.mutated] != EXPECT_MUTATED.get(n, []):
                raise Refuse('%s: the set of parameters that %s mutates changed' % (LANG.src_rel, n))
    for n in todo:
        if infos[n].text is None:
            raise Refuse('%s: the helper %s was never reached' % (LANG.src_rel, n))
    skipped = [n for n in mod.order if n not in todo]
    return mod, list(mod.emitted), infos, skipped


def main():
    """translate_csv.py <out_dir> [py|js]            writes GenCsv.v / GenCsvJs.v (+ .json)
       translate_csv.py --print <prefix> [py|js]     prints the definitions with another prefix (how CsvIx.v / CsvIxJs.v were made)"""
    global LANG
    args = sys.argv[1:]
    lang = 'js' if 'js' in args[1:] else 'py'
    LANG = Lang(lang)
    path = os.path.join(REPO, LANG.src_rel)
    try:
        mod, todo, infos, skipped = translate(path)
    except Refuse as e:
        sys.stderr.write('translate_csv: REFUSED: %s\n' % e)
        return 2
    except SyntaxError as e:
        sys.stderr.write('translate_csv: REFUSED: %s does not parse: %s\n' % (LANG.src_rel, e))
        return 2
    defs = '\n\n'.join(infos[n].text + ('\n#[local] Hint Unfold %s%s : genhelpers.' % (LANG.prefix, n) if infos[n].helper else '') for n in todo)
    if args[0] == '--print':
        sys.stdout.write(defs.replace(LANG.prefix, args[1]) + '\n')
        return 0
    out_dir = args[0]
    os.makedirs(out_dir, exist_ok=True)
    base = 'GenCsvJs' if LANG.js else 'GenCsv'
    tmpl = open(os.path.join(HERE, 'gen_csv_tie_js.v.tmpl' if LANG.js else 'gen_csv_tie.v.tmpl'), encoding='utf-8').read()
    import re
    # (*@if NAME*) .. (*@end*): the part of the template about an OPTIONAL function
    tmpl = re.sub(r'\(\*@if (\w+)\*\)\n(.*?)\(\*@end\*\)\n', lambda m: m.group(2) if m.group(1) in todo else '', tmpl, flags=re.S)
    head = ('(* GENERATED by harness/translate_csv.py from %s on every run - never committed.\n'
            '   Definitions %s<name>: the translation of the source text; then the committed obligations\n'
            '   (= the hand-written index model %s) and the transferred theorems. *)\n'
            '(* CsvIx_Proofs is imported BEFORE the definitions: it creates the hint database genhelpers that the helpers below join *)\n'
            'From RBQL Require Import Base Csv PyStr %s.\n\n' % (LANG.src_rel, LANG.prefix, 'CsvIxJs.v' if LANG.js else 'CsvIx.v',
                                                                     'JsStr CsvIx CsvIxJs CsvIx_Proofs' if LANG.js else 'CsvIx CsvIx_Proofs'))
    with open(os.path.join(out_dir, base + '.v'), 'w', encoding='utf-8') as f:
        f.write(head + defs + '\n\n' + tmpl)
    thms = re.findall(r'^\s*(?:Theorem|Lemma|Corollary)\s+([A-Za-z0-9_\']+)', re.sub(r'\(\*.*?\*\)', '', tmpl, flags=re.S), flags=re.M)
    table = RX_TABLE_JS if LANG.js else RX_TABLE
    with open(os.path.join(out_dir, base + '.json'), 'w', encoding='utf-8') as f:
        json.dump({'source': path, 'language': LANG.name,
                   'functions': [{'name': n, 'partial': infos[n].partial, 'mutated': [infos[n].params[i][0] for i in infos[n].mutated],
                                  'result': show_type(infos[n].ret), 'ast_nodes': infos[n].size, 'lines': infos[n].text.count('\n') + 1} for n in todo],
                   'skipped': skipped, 'theorems': thms,
                   'obligations': [t for t in thms if t.startswith('gen_csv_')],
                   'patterns': sorted(str(k) for k in set(mod.rx.values()) & set(table))}, f, indent=1)
    return 0


if __name__ == '__main__':
    sys.exit(main())
