#!/usr/bin/env python3
# heap_variants.py [name-prefix ...]  - rehearsal for harness/translate_heap.py (property C06, list clause).
# Every variant is a small edit of the implementation (optionally on top of one of the behaviour-preserving patches in
# seeded/harmless/) that EITHER really lets a source object be mutated / kept / emitted (expectation FLAG: the translator must
# refuse, or an obligation of the generated HeapFacts.v must evaluate to false) OR is legitimate (expectation OK: a control, all
# obligations true).  Each variant is applied to a scratch worktree of $VERIF_REPO_BASE (default /repo) under /tmp, the translator
# and coqc are run on it, the verdict is printed against the expectation, the worktree is removed.  Exit 1 on any mismatch.
import json
import os
import re
import shutil
import subprocess
import sys
import tempfile

HERE = os.path.dirname(os.path.abspath(__file__))
VERIF = os.path.dirname(HERE)
BASE = os.environ.get('VERIF_REPO_BASE', '/repo')
HARMLESS = os.path.join(VERIF, 'seeded', 'harmless')
PY = 'rbql-py/rbql/rbql_engine.py'
CSV = 'rbql-py/rbql/rbql_csv.py'
JS = 'rbql-js/rbql.js'


def verdict(repo, out):
    """-> 'ALL TRUE' | 'REFUSED: ..' | 'FALSE: <obligations>'"""
    shutil.rmtree(out, ignore_errors=True)
    env = dict(os.environ, VERIF_REPO=repo, PYTHONDONTWRITEBYTECODE='1')
    p = subprocess.run([sys.executable, os.path.join(HERE, 'translate_heap.py'), out], env=env, capture_output=True, text=True)
    if p.returncode != 0:
        return 'REFUSED: ' + p.stderr.strip().replace(repo, 'WT')[-220:]
    q = subprocess.run(['coqc', '-Q', os.path.join(VERIF, 'coq', 'theories'), 'RBQL', 'HeapFacts.v'], cwd=out, capture_output=True, text=True)
    facts = json.load(open(os.path.join(out, 'HeapFacts.json')))
    vals = re.findall(r'= (true|false)\s*\n\s*: bool', q.stdout)
    if len(vals) != len(facts['obligations']):
        return 'REFUSED: coqc did not evaluate every obligation: ' + (q.stdout + q.stderr)[-200:]
    bad = [n for n, v in zip(facts['obligations'], vals) if v != 'true']
    return ('FALSE: ' + ' '.join(bad)) if bad else 'ALL TRUE'


V = [
 ('V1a alias of a cell of transparent_values, then append', 'C03-h1', PY,
  [('        aggregators = query_context.writer.aggregators\n', '        aggregators = transparent_values[0]\n')], 'FLAG'),
 ('V1b writer local also bound to a non-writer (input iterator)', 'C16-h1', PY,
  [('        aggregate_writer = query_context.writer\n', '        aggregate_writer = query_context.input_iterator\n')], 'FLAG'),
 ('V1c query_context.writer assigned a non-writer', 'C03-h1', PY,
  [('        aggregators = query_context.writer.aggregators\n', '        query_context.writer = query_context.input_iterator\n        aggregators = query_context.writer.aggregators\n')], 'FLAG'),
 ('V1d source row stored into writer state through the alias (main loop template)', None, PY,
  [("PROCESS_SELECT_COMMON = '''\n", "PROCESS_SELECT_COMMON = '''\nkept_rows = query_context.writer.kept_rows\nkept_rows.append(record_a)\n")], 'FLAG'),
 ('V1e other query_context attribute aliased and mutated (unnest_list)', None, PY,
  [("PROCESS_SELECT_COMMON = '''\n", "PROCESS_SELECT_COMMON = '''\nul = query_context.unnest_list\nul.append(1)\n")], 'FLAG'),
 ('V1f JS: a cell pushed into writer state through the alias, read back and mutated', 'C19-h1', JS,
  [('            aggregators.push(aggregator);\n', '            aggregators.push(aggregator);\n            aggregators.push(transparent_values[0]);\n            aggregators[0].push(1);\n')], 'FLAG'),
 ('K3 [control] JS: a cell is only KEPT in writer state through the alias (its elements are never trusted)', 'C19-h1', JS,
  [('            aggregators.push(aggregator);\n', '            aggregators.push(aggregator);\n            aggregators.push(transparent_values[0]);\n')], 'OK'),
 ('V1g engine-owned list: element read back and mutated', 'C16-h1', PY,
  [('        functional_aggregators.append(', '        functional_aggregators[0].append(1)\n        functional_aggregators.append(')], 'FLAG'),
 ('V2a helper mutates the stored (owned) record before writing it [control: legitimate]', 'C02-h1', PY,
  [('        if not subwriter.write(record):\n', '        record.insert(0, 1)\n        if not subwriter.write(record):\n'),
   ('([cnt] + list(record) for record, cnt in iteritems6(self.records))', '(record for record, cnt in iteritems6(self.records))')], 'OK'),
 ('V2c generator yields the cells of the handed row, helper emits them', 'C02-h1', PY,
  [('        success = self.subwriter.write(record)\n', '        flush_and_finish(self.subwriter, (cell for cell in record))\n        success = self.subwriter.write(record)\n')], 'FLAG'),
 ('V2d engine: generator yields the source row, helper mutates it', 'C02-h1', PY,
  [('def select_except(src, except_fields):\n    result = list()\n', 'def touch_all(rows):\n    for row in rows:\n        row.append(1)\n\n\ndef select_except(src, except_fields):\n    result = list()\n    touch_all(src for _i in range(1))\n')], 'FLAG'),
 ('V2e generator over the handed row, helper mutates each cell', 'C02-h1', PY,
  [('    def write(self, record):\n        immutable_record = tuple(record)\n', '    def write(self, record):\n        touch_all(c for c in record)\n        immutable_record = tuple(record)\n'),
   ('def flush_and_finish(subwriter, records):', 'def touch_all(rows):\n    for row in rows:\n        row.append(1)\n\n\ndef flush_and_finish(subwriter, records):')], 'FLAG'),
 ('V2f receiver parameter rebound in the helper [control: falls back to unknown call = SSetItem+SStore of a fresh record]', 'C02-h1', PY,
  [('    for record in records:\n        if not subwriter.write(record):', '    subwriter = subwriter or None\n    for record in records:\n        if not subwriter.write(record):')], 'OK'),
 ('V3a handler mutates a cell of fields before return False', 'C15-h1', CSV,
  [('            self.broken_pipe = True\n            return False\n        return True\n', '            fields[0].append(1)\n            self.broken_pipe = True\n            return False\n        return True\n')], 'FLAG'),
 ('V3b handler keeps a cell of fields in an attribute, reads it back and mutates it', 'C15-h1', CSV,
  [('            self.broken_pipe = True\n            return False\n        return True\n', '            self.kept = fields[0]\n            kept = self.kept\n            kept.append(1)\n            self.broken_pipe = True\n            return False\n        return True\n')], 'FLAG'),
 ('V3e [control] handler only KEEPS a cell of fields in an attribute (whoever reads it back gets a cell)', 'C15-h1', CSV,
  [('            self.broken_pipe = True\n            return False\n        return True\n', '            self.kept = fields[0]\n            self.broken_pipe = True\n            return False\n        return True\n')], 'OK'),
 ('V3c handler mutates fields itself [control: legitimate, the writer owns what it is handed]', 'C15-h1', CSV,
  [('            self.broken_pipe = True\n            return False\n        return True\n', '            fields.append(1)\n            self.broken_pipe = True\n            return False\n        return True\n')], 'OK'),
 ('V3d statement after the try mutates a cell (rest of the block must not be lost)', 'C15-h1', CSV,
  [('            return False\n        return True\n', '            return False\n        fields[0].append(1)\n        return True\n')], 'FLAG'),
 ('V1h writer local rebound inside a nested closure', 'C16-h1', PY,
  [('        aggregators = aggregate_writer.aggregators\n        num_aggregators_found = 0\n', '        def swap():\n            nonlocal aggregate_writer\n            aggregate_writer = query_context.input_iterator\n        swap()\n        aggregators = aggregate_writer.aggregators\n        num_aggregators_found = 0\n')], 'FLAG'),
 ('V1i method call in the chain (not plain state)', 'C03-h1', PY,
  [('        aggregators = query_context.writer.aggregators\n', '        aggregators = query_context.writer.peek().aggregators\n')], 'FLAG'),
 ('V1j JS: writer local declared with let and re-assigned a non-writer', 'C19-h1', JS,
  [('        const aggregate_writer = new AggregateWriter(query_context.writer);\n        const aggregators = aggregate_writer.aggregators;\n        query_context.writer = aggregate_writer;\n',
    '        let aggregate_writer = new AggregateWriter(query_context.writer);\n        query_context.writer = aggregate_writer;\n        aggregate_writer = query_context.input_iterator;\n        const aggregators = aggregate_writer.aggregators;\n')], 'FLAG'),
 ('V2g generator condition mutates the yielded source row (engine)', 'C02-h1', PY,
  [('def select_except(src, except_fields):\n    result = list()\n', 'def touch_none(rows):\n    for row in rows:\n        pass\n\n\ndef select_except(src, except_fields):\n    result = list()\n    touch_none(1 for _i in range(1) if src.append(1))\n')], 'FLAG'),
 ('V2h receiver parameter handed on to a second helper that emits a cell', 'C02-h1', PY,
  [('def flush_and_finish(subwriter, records):', 'def write_first_cell(sub, row):\n    sub.write(row[0])\n\n\ndef flush_and_finish(subwriter, records):'),
   ('        success = self.subwriter.write(record)\n', '        flush_and_finish(self.subwriter, (record for _i in range(1)))\n        success = self.subwriter.write(record)\n'),
   ('        if not subwriter.write(record):\n', '        write_first_cell(subwriter, record)\n        if not subwriter.write(record):\n')], 'FLAG'),
 ('H1 SortedWriter.finish mutates a cell of a stored row', None, PY,
  [('        for e in sorted_entries:\n            if not self.subwriter.write(e[1]):', '        for e in sorted_entries:\n            e[1][0].append(1)\n            if not self.subwriter.write(e[1]):')], 'FLAG'),
 ('H2 row copy made deeper by storing a list, then its original cell mutated', None, PY,
  [("up_fields = record_a[:]\n__RBQLMP__variables_init_code\nif __RBQLMP__where_expression:\n    NU += 1\n", "up_fields = record_a[:]\nup_fields.append([1])\nup_fields[0].append(2)\n__RBQLMP__variables_init_code\nif __RBQLMP__where_expression:\n    NU += 1\n")], 'FLAG'),
 ('H3 sort key (untracked cell value) read back from writer state and mutated', None, PY,
  [('        for e in sorted_entries:\n            if not self.subwriter.write(e[1]):', '        for e in sorted_entries:\n            e[0].append(1)\n            if not self.subwriter.write(e[1]):')], 'FLAG'),
 ('H1js JS SortedWriter.finish mutates a cell of the stored row', None, JS,
  [('            var entry = unsorted_entries[i];\n', '            var entry = unsorted_entries[i];\n            entry[entry.length - 1][0].push(1);\n')], 'FLAG'),
 ('H3js JS SortedWriter.finish mutates a sort key value read back from the entry', None, JS,
  [('            var entry = unsorted_entries[i];\n', '            var entry = unsorted_entries[i];\n            entry[0].push(1);\n')], 'FLAG'),
 ('H4 JS UniqCountWriter.finish mutates a cell of the stored record', None, JS,
  [('            record.unshift(count);\n', '            record[0].push(1);\n            record.unshift(count);\n')], 'FLAG'),
 ('H5 SortedWriter stores (record, key) but finish still emits e[1] (now the untracked key)', None, PY,
  [('        self.unsorted_entries.append((sort_key_value, record))', '        self.unsorted_entries.append((record, sort_key_value))')], 'FLAG'),
 ('H6 a second store site puts the bare key into the list whose elements finish trusts', None, PY,
  [('        self.unsorted_entries.append((sort_key_value, record))\n', '        self.unsorted_entries.append((sort_key_value, record))\n        self.unsorted_entries.append(sort_key_value)\n')], 'FLAG'),
 ('H7 an UNTRANSLATED method lowers the attribute through a local alias', None, PY,
  [('    def finish(self):\n        sorted_entries = sorted(', '    def note(self, value):\n        entries = self.unsorted_entries\n        entries.append((value, value))\n\n    def finish(self):\n        sorted_entries = sorted(')], 'FLAG'),
 ('H8 JS store through an element of writer state (deep store)', None, JS,
  [('        var unsorted_entries = this.unsorted_entries;\n', '        this.unsorted_entries[0].push(this.reverse_sort);\n        var unsorted_entries = this.unsorted_entries;\n')], 'FLAG'),
 ('H9 JS engine code pushes the key list into the writer attribute whose elements finish trusts', None, JS,
  [('        var sort_entry = sort_key.concat([NR, out_fields]);\n', '        var sort_entry = sort_key.concat([NR, out_fields]);\n        query_context.writer.unsorted_entries.push(sort_key);\n')], 'FLAG'),
 ('H10 JS engine emits an entry with the row FIRST (entry contract of SortedWriter.write)', None, JS,
  [('        var sort_entry = sort_key.concat([NR, out_fields]);\n', '        var sort_entry = [out_fields, NR].concat(sort_key);\n')], 'FLAG'),
 ('H11 a name that is either the trusted list or a fresh one is appended an untracked value', None, PY,
  [('        sorted_entries = sorted(self.unsorted_entries, key=lambda x: x[0])\n', '        extra = self.unsorted_entries if self.reverse_sort else [1]\n        extra.append(self.reverse_sort)\n        sorted_entries = sorted(self.unsorted_entries, key=lambda x: x[0])\n')], 'FLAG'),
 ('H12 JS positional store of an untracked value at the trusted last position of the entry', None, JS,
  [('        stable_entry[stable_entry.length - 2] = this.unsorted_entries.length;\n', '        stable_entry[stable_entry.length - 2] = this.unsorted_entries.length;\n        stable_entry[stable_entry.length - 1] = this.reverse_sort;\n')], 'FLAG'),
 ('H13 JS the entry is reversed before it is stored (positions move)', None, JS,
  [('        this.unsorted_entries.push(stable_entry);\n', '        stable_entry.reverse();\n        this.unsorted_entries.push(stable_entry);\n')], 'FLAG'),
 ('H14 helper returns writer state, the caller appends an untracked value to the result', None, PY,
  [('    def finish(self):\n        sorted_entries = sorted(', '    def entries(self):\n        return self.unsorted_entries\n\n    def finish(self):\n        got = self.entries()\n        got.append(self.reverse_sort)\n        sorted_entries = sorted(')], 'FLAG'),
 ('H15 JS UniqCountWriter stores [record, 1] but finish still destructures [count, record]', None, JS,
  [('            this.records.set(key, [1, record]);', '            this.records.set(key, [record, 1]);')], 'FLAG'),
 ('H16 cell receiver: a builtin list method on a cell is still a mutation', 'C16-h1', PY,
  [('            aggregators[i].increment(key, trans_value)', '            aggregators[i].insert(0, trans_value)')], 'FLAG'),
 ('K1 [control] JS SortedWriter.finish reverses the list of entries and emits the rows (unchanged behaviour, written with an alias)', None, JS,
  [('            var entry = unsorted_entries[i];\n', '            var entry = unsorted_entries[i];\n            var same = entry;\n')], 'OK'),
 ('K2 [control] SortedWriter.finish copies the key out of the entry (reading is free)', None, PY,
  [('        for e in sorted_entries:\n', '        for e in sorted_entries:\n            key_copy = list(e[0])\n')], 'OK'),
 ('P1 an aggregator increment mutates the value it is handed (a cell)', None, PY,
  [('        if key not in self.stats:\n            self.stats[key] = val\n', '        val.append(1)\n        if key not in self.stats:\n            self.stats[key] = val\n')], 'FLAG'),
 ('P2 NumHandler.parse mutates its argument', None, PY,
  [('        if not self.string_detection_done:\n', '        val.reverse()\n        if not self.string_detection_done:\n')], 'FLAG'),
 ('P3 AggregateWriter.finish mutates a value that get_final returned', None, PY,
  [('            out_fields = [ag.get_final(key) for ag in self.aggregators]\n', '            out_fields = [ag.get_final(key) for ag in self.aggregators]\n            out_fields[0].append(1)\n')], 'FLAG'),
 ('P4 get_final mutates the stored value (a cell kept by increment)', None, PY,
  [('class MinAggregator:', 'class FirstAggregator:\n    def __init__(self):\n        self.stats = dict()\n\n    def increment(self, key, val):\n        self.stats[key] = val\n\n    def get_final(self, key):\n        kept = self.stats[key]\n        kept.append(1)\n        return kept\n\n\nclass MinAggregator:')], 'FLAG'),
 ('P5 ArrayAgg.get_final mutates an ELEMENT of its (owned) list of values', None, PY,
  [('        res = self.stats[key]\n', '        res = self.stats[key]\n        res[0].append(1)\n')], 'FLAG'),
 ('P6 the value field of the aggregation token (a cell) is mutated', None, PY,
  [('                num_aggregators_found += 1\n', '                num_aggregators_found += 1\n                trans_value.value.append(1)\n')], 'FLAG'),
 ('P7 a cell goes through a local and is mutated there', None, PY,
  [('            if isinstance(trans_value, RBQLAggregationToken):\n', '            hop = trans_value\n            hop.append(1)\n            if isinstance(trans_value, RBQLAggregationToken):\n')], 'FLAG'),
 ('P8 a cell goes through a local to an unknown function', None, PY,
  [('            if isinstance(trans_value, RBQLAggregationToken):\n', '            hop = trans_value\n            user_namespace_hook(hop)\n            if isinstance(trans_value, RBQLAggregationToken):\n')], 'FLAG'),
 ('P9 JS: a cell goes through a local to an unknown function', None, JS,
  [('            var trans_value = transparent_values[i];\n            if (trans_value instanceof RBQLAggregationToken) {', '            var trans_value = transparent_values[i];\n            external_hook(trans_value);\n            if (trans_value instanceof RBQLAggregationToken) {')], 'FLAG'),
 ('P10 a display holds a cell next to a row; the cell is read back and mutated', None, PY,
  [('def select_simple(query_context, sort_key, out_fields):\n', 'def select_simple(query_context, sort_key, out_fields):\n    pair = (out_fields, out_fields[0])\n    pair[1].append(1)\n')], 'FLAG'),
 ('P11 a container method on a cell is a mutation', None, CSV,
  [('        self.normalize_fields(fields)\n', '        fields[0].sort()\n        self.normalize_fields(fields)\n')], 'FLAG'),
 ('P12 the constructor of an engine class mutates the cell it is given', None, PY,
  [('class RBQLAggregationToken(object):\n    def __init__(self, marker_id, value):\n', 'class RBQLAggregationToken(object):\n    def __init__(self, marker_id, value):\n        value.append(1)\n')], 'FLAG'),
 ('K4 [control] a string method on a cell (a list object has no such method)', None, CSV,
  [('        self.normalize_fields(fields)\n', '        fields[0].strip()\n        self.normalize_fields(fields)\n')], 'OK'),
 ('K5 [control] increment keeps the cell in a second attribute (nobody trusts what is read back)', None, PY,
  [('        if key not in self.stats:\n            self.stats[key] = val\n', '        self.last = val\n        if key not in self.stats:\n            self.stats[key] = val\n')], 'OK'),
]


def main():
    only = sys.argv[1:]
    rc = 0
    for name, base, f, edits, exp in V:
        if only and not any(name.startswith(o) for o in only):
            continue
        tmp = tempfile.mkdtemp(prefix='heapvar_', dir='/tmp')
        wt = os.path.join(tmp, 'wt')
        subprocess.run(['git', '-C', BASE, 'worktree', 'add', '-q', '--detach', wt, 'HEAD'], check=True)
        try:
            if base:
                subprocess.run(['git', '-C', wt, 'apply', os.path.join(HARMLESS, base, 'patch.diff')], check=True)
            p = os.path.join(wt, f)
            s = open(p).read()
            for a, b in edits:
                if s.count(a) < 1:
                    raise SystemExit('variant %r: the text to replace was not found: %r' % (name, a[:80]))
                s = s.replace(a, b, 1)
            open(p, 'w').write(s)
            if f.endswith('.py') and subprocess.run([sys.executable, '-m', 'py_compile', p], capture_output=True, env=dict(os.environ, PYTHONDONTWRITEBYTECODE='1')).returncode != 0:
                print('MISMATCH %s: the variant does not compile' % name)
                rc = 1
                continue
            v = verdict(wt, os.path.join(tmp, 'out'))
            got = 'OK' if v == 'ALL TRUE' else 'FLAG'
            print('%s %-8s (expected %-4s) %s\n         %s' % ('ok      ' if got == exp else 'MISMATCH', 'ACCEPTED' if got == 'OK' else 'FLAGGED', exp, name, v[:200]))
            if got != exp:
                rc = 1
        finally:
            subprocess.run(['git', '-C', BASE, 'worktree', 'remove', '--force', wt])
            shutil.rmtree(tmp, ignore_errors=True)
    return rc


if __name__ == '__main__':
    sys.exit(main())
