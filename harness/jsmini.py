# jsmini.py - a small, fail-closed parser for the JavaScript subset used by rbql.js / rbql_csv.js (classes, functions,
# the code templates and the code the engine generates from them).  It produces *Python ast nodes* (ast.Assign,
# ast.Call, ast.For ...) so that harness/translate_heap.py can translate Python and JavaScript with one set of rules.
# Anything outside the subset raises JSParseError naming file:line - it never guesses.
#
# Mapping (JS -> ast):  let/var/const x = e, x = e -> Assign;  [a, b] = e / let [a, b] = e -> Assign with a Tuple target;
# x += e, x++ -> AugAssign;  for (x of e) -> For;  for (init; test; upd) body -> init; While(test, body + upd);
# while -> While;  if/else -> If;  try/catch/finally -> Try;  throw -> Raise;  return/break/continue;
# a.b -> Attribute;  a[e] -> Subscript;  f(x), new F(x) -> Call;  [..] -> List;  {..} -> Dict;  c ? a : b -> IfExp;
# && || ?? -> BoolOp;  == === < instanceof in ... -> Compare;  + - * ... -> BinOp;  ! - typeof -> UnaryOp / Call;
# await e -> e;  `..${e}..` -> JoinedStr;  function (..) {..} and arrows -> Lambda (body: expression or statement list,
# attribute js_block = True for a statement list);  class C { m(..) {..} } -> ClassDef of FunctionDef.
import ast
import re


class JSParseError(Exception):
    pass


KEYWORDS = {'let', 'var', 'const', 'if', 'else', 'for', 'while', 'do', 'return', 'break', 'continue', 'throw', 'try', 'catch', 'finally',
            'function', 'class', 'new', 'typeof', 'instanceof', 'in', 'of', 'await', 'async', 'delete', 'void', 'switch', 'case', 'default',
            'extends', 'static', 'yield', 'with', 'super', 'this', 'null', 'true', 'false', 'undefined'}
PUNCT = ['>>>=', '...', '===', '!==', '**=', '<<=', '>>=', '>>>', '&&=', '||=', '??=', '=>', '==', '!=', '<=', '>=', '&&', '||', '??', '?.', '++', '--',
         '+=', '-=', '*=', '/=', '%=', '&=', '|=', '^=', '**', '<<', '>>', '{', '}', '(', ')', '[', ']', ';', ',', '<', '>', '+', '-', '*', '/', '%', '&', '|',
         '^', '!', '~', '?', ':', '=', '.']


class Tok:
    __slots__ = ('kind', 'val', 'line', 'nl')

    def __init__(self, kind, val, line, nl):
        self.kind, self.val, self.line, self.nl = kind, val, line, nl

    def __repr__(self):
        return '%s:%r@%d' % (self.kind, self.val, self.line)


def tokenize(src, fname, first_line):
    toks = []
    i, n, line, nl = 0, len(src), first_line, False

    def err(msg):
        raise JSParseError('%s:%d: %s' % (fname, line, msg))

    def value_expected():
        if not toks:
            return True
        t = toks[-1]
        if t.kind in ('num', 'str', 'template', 'regex'):
            return False
        if t.kind == 'id':
            return t.val in ('return', 'typeof', 'instanceof', 'in', 'of', 'new', 'delete', 'void', 'throw', 'case', 'await', 'else')
        return t.val not in (')', ']', '}')
    while i < n:
        c = src[i]
        if c == '\n':
            line += 1
            nl = True
            i += 1
            continue
        if c in ' \t\r':
            i += 1
            continue
        if src.startswith('//', i):
            j = src.find('\n', i)
            i = n if j < 0 else j
            continue
        if src.startswith('/*', i):
            j = src.find('*/', i + 2)
            if j < 0:
                err('unterminated comment')
            line += src.count('\n', i, j)
            i = j + 2
            continue
        m = re.compile(r'[A-Za-z_$][A-Za-z0-9_$]*').match(src, i)
        if m:
            toks.append(Tok('id', m.group(0), line, nl))
            nl = False
            i = m.end()
            continue
        m = re.compile(r'0[xX][0-9a-fA-F]+|\d[\d_]*(?:\.\d*)?(?:[eE][+-]?\d+)?|\.\d+(?:[eE][+-]?\d+)?').match(src, i)
        if m:
            toks.append(Tok('num', m.group(0), line, nl))
            nl = False
            i = m.end()
            continue
        if c in '\'"':
            j = i + 1
            while j < n and src[j] != c:
                if src[j] == '\\':
                    j += 1
                if j < n and src[j] == '\n':
                    err('newline in string literal')
                j += 1
            if j >= n:
                err('unterminated string literal')
            toks.append(Tok('str', src[i + 1:j], line, nl))
            nl = False
            i = j + 1
            continue
        if c == '`':
            start_line = line
            j = i + 1
            parts = []
            while j < n and src[j] != '`':
                if src[j] == '\\':
                    j += 2
                    continue
                if src.startswith('${', j):
                    depth, k = 1, j + 2
                    while k < n and depth:
                        if src[k] == '{':
                            depth += 1
                        elif src[k] == '}':
                            depth -= 1
                        elif src[k] in '\'"':
                            q = src[k]
                            k += 1
                            while k < n and src[k] != q:
                                if src[k] == '\\':
                                    k += 1
                                if k < n and src[k] == '\n':
                                    err('newline in string literal')
                                k += 1
                        elif src[k] == '`':
                            err('nested template literal is outside the supported subset')
                        k += 1
                    if depth:
                        err('unterminated template substitution')
                    parts.append((src[j + 2:k - 1], line))
                    j = k
                    continue
                if src[j] == '\n':
                    line += 1
                j += 1
            if j >= n:
                line = start_line
                err('unterminated template literal')
            toks.append(Tok('template', parts, start_line, nl))
            nl = False
            i = j + 1
            continue
        if c == '/' and value_expected():
            m = re.compile(r'/(?:\\.|\[(?:\\.|[^\]\\\n])*\]|[^/\\\n\[])+/[a-z]*').match(src, i)
            if not m:
                err('cannot lex regular expression literal')
            toks.append(Tok('regex', m.group(0), line, nl))
            nl = False
            i = m.end()
            continue
        for p in PUNCT:
            if src.startswith(p, i):
                toks.append(Tok('p', p, line, nl))
                nl = False
                i += len(p)
                break
        else:
            err('unexpected character %r' % c)
    toks.append(Tok('eof', None, line, True))
    return toks


BINOPS = {  # operator -> (precedence, kind)
    '??': (1, 'bool'), '||': (2, 'bool'), '&&': (3, 'bool'), '|': (4, 'bin'), '^': (5, 'bin'), '&': (6, 'bin'),
    '==': (7, 'cmp'), '!=': (7, 'cmp'), '===': (7, 'cmp'), '!==': (7, 'cmp'),
    '<': (8, 'cmp'), '>': (8, 'cmp'), '<=': (8, 'cmp'), '>=': (8, 'cmp'), 'instanceof': (8, 'cmp'), 'in': (8, 'cmp'),
    '<<': (9, 'bin'), '>>': (9, 'bin'), '>>>': (9, 'bin'), '+': (10, 'add'), '-': (10, 'bin'), '*': (11, 'bin'), '/': (11, 'bin'), '%': (11, 'bin'),
    '**': (12, 'bin')}
ASSIGN_OPS = {'=', '+=', '-=', '*=', '/=', '%=', '&=', '|=', '^=', '**=', '<<=', '>>=', '>>>=', '&&=', '||=', '??='}


class Parser:
    def __init__(self, src, fname='<js>', first_line=1):
        self.fname = fname
        self.toks = tokenize(src, fname, first_line)
        self.pos = 0

    # -- helpers
    def err(self, msg, tok=None):
        tok = tok or self.peek()
        raise JSParseError('%s:%d: %s (at %r)' % (self.fname, tok.line, msg, tok.val))

    def peek(self, k=0):
        return self.toks[min(self.pos + k, len(self.toks) - 1)]

    def next(self):
        t = self.toks[self.pos]
        self.pos += 1
        return t

    def at(self, val, k=0):
        t = self.peek(k)
        return t.kind in ('p', 'id') and t.val == val

    def eat(self, val):
        if self.at(val):
            return self.next()
        return None

    def expect(self, val):
        if not self.at(val):
            self.err('expected %r' % val)
        return self.next()

    def ident(self):
        t = self.peek()
        if t.kind != 'id' or (t.val in KEYWORDS and t.val not in ('of', 'async', 'static', 'undefined')):
            self.err('identifier expected')
        return self.next()

    def mk(self, cls, tok, **kw):
        node = cls(**kw)
        node.lineno = tok.line
        node.col_offset = 0
        node.js_file = self.fname
        return node

    def end_stmt(self):
        if self.eat(';'):
            return
        t = self.peek()
        if t.kind == 'eof' or t.nl or self.at('}'):
            return                       # automatic semicolon insertion at a line break / before '}'
        self.err('";" expected')

    # -- program / statements
    def parse_program(self):
        body = []
        while self.peek().kind != 'eof':
            body.extend(self.statement())
        return body

    def block(self):
        self.expect('{')
        body = []
        while not self.at('}'):
            if self.peek().kind == 'eof':
                self.err('unterminated block')
            body.extend(self.statement())
        self.expect('}')
        return body

    def body_or_stmt(self):
        if self.at('{'):
            return self.block()
        return self.statement()

    def statement(self):
        """returns a list of ast statements"""
        t = self.peek()
        if t.kind == 'p' and t.val == ';':
            self.next()
            return []
        if t.kind == 'p' and t.val == '{':
            return self.block()
        if t.kind == 'id':
            v = t.val
            if v in ('let', 'var', 'const'):
                self.next()
                out = self.declarations(t)
                self.end_stmt()
                return out
            if v == 'if':
                return [self.if_stmt()]
            if v == 'for':
                return self.for_stmt()
            if v == 'while':
                self.next()
                self.expect('(')
                test = self.expression()
                self.expect(')')
                body = self.body_or_stmt()
                return [self.mk(ast.While, t, test=test, body=body or [self.mk(ast.Pass, t)], orelse=[])]
            if v == 'return':
                self.next()
                val = None
                if not (self.at(';') or self.at('}') or self.peek().nl or self.peek().kind == 'eof'):
                    val = self.expression()
                self.end_stmt()
                return [self.mk(ast.Return, t, value=val)]
            if v == 'break' or v == 'continue':
                self.next()
                self.end_stmt()
                return [self.mk(ast.Break if v == 'break' else ast.Continue, t)]
            if v == 'throw':
                self.next()
                e = self.expression()
                self.end_stmt()
                return [self.mk(ast.Raise, t, exc=e, cause=None)]
            if v == 'try':
                return [self.try_stmt()]
            if v == 'function' or (v == 'async' and self.at('function', 1)):
                if v == 'async':
                    self.next()
                self.next()
                name = self.ident()
                params = self.params()
                body = self.block()
                return [self.mk(ast.FunctionDef, t, name=name.val, args=params, body=body, decorator_list=[])]
            if v == 'class':
                return [self.class_decl()]
            if v in ('do', 'switch', 'with', 'yield'):
                self.err('statement form outside the supported subset')
        return self.expression_statement()

    def declarations(self, t):
        out = []
        while True:
            target = self.binding_target()
            if self.eat('='):
                value = self.assignment_rhs()
            else:
                value = self.mk(ast.Constant, t, value=None)
            out.append(self.mk(ast.Assign, t, targets=[target], value=value))
            if not self.eat(','):
                return out

    def binding_target(self):
        t = self.peek()
        if self.at('['):
            self.next()
            elts = []
            while not self.at(']'):
                if self.at(','):
                    self.next()
                    elts.append(self.mk(ast.Name, t, id='_hole', ctx=ast.Store()))
                    continue
                elts.append(self.binding_target())
                if not self.at(']'):
                    self.expect(',')
            self.expect(']')
            return self.mk(ast.Tuple, t, elts=elts, ctx=ast.Store())
        if self.at('{'):
            self.err('object destructuring is outside the supported subset')
        name = self.ident()
        return self.mk(ast.Name, name, id=name.val, ctx=ast.Store())

    def if_stmt(self):
        t = self.expect('if')
        self.expect('(')
        test = self.expression()
        self.expect(')')
        body = self.body_or_stmt()
        orelse = []
        if self.eat('else'):
            if self.at('if'):
                orelse = [self.if_stmt()]
            else:
                orelse = self.body_or_stmt()
        return self.mk(ast.If, t, test=test, body=body or [self.mk(ast.Pass, t)], orelse=orelse)

    def for_stmt(self):
        t = self.expect('for')
        if self.at('await'):
            self.next()
        self.expect('(')
        init = []
        if self.at('let') or self.at('var') or self.at('const'):
            d = self.next()
            # for (let x of e)
            save = self.pos
            target = self.binding_target()
            if self.at('of') or self.at('in'):
                kind = self.next().val
                it = self.expression()
                self.expect(')')
                body = self.body_or_stmt()
                if kind == 'in':
                    it = self.mk(ast.Call, t, func=self.mk(ast.Name, t, id='__keys__', ctx=ast.Load()), args=[it], keywords=[])
                return [self.mk(ast.For, t, target=target, iter=it, body=body or [self.mk(ast.Pass, t)], orelse=[])]
            self.pos = save
            init = self.declarations(d)
        elif not self.at(';'):
            save = self.pos
            e = self.expression()
            if self.at('of') or self.at('in'):
                kind = self.next().val
                it = self.expression()
                self.expect(')')
                body = self.body_or_stmt()
                return [self.mk(ast.For, t, target=self.to_target(e), iter=it, body=body or [self.mk(ast.Pass, t)], orelse=[])]
            self.pos = save
            init = self.simple_statements_until(';')
        self.expect(';')
        test = self.mk(ast.Constant, t, value=True) if self.at(';') else self.expression()
        self.expect(';')
        update = [] if self.at(')') else self.simple_statements_until(')')
        self.expect(')')
        body = self.body_or_stmt()
        return init + [self.mk(ast.While, t, test=test, body=(body + update) or [self.mk(ast.Pass, t)], orelse=[])]

    def simple_statements_until(self, closer):
        out = []
        while True:
            out.extend(self.expr_to_stmts(self.assignment_or_expr(), self.peek()))
            if not self.eat(','):
                break
        if not self.at(closer):
            self.err('%r expected' % closer)
        return out

    def try_stmt(self):
        t = self.expect('try')
        body = self.block()
        handlers, final = [], []
        if self.eat('catch'):
            name = None
            if self.eat('('):
                name = self.ident().val
                self.expect(')')
            hb = self.block()
            handlers.append(self.mk(ast.ExceptHandler, t, type=None, name=name, body=hb or [self.mk(ast.Pass, t)]))
        if self.eat('finally'):
            final = self.block()
        if not handlers and not final:
            self.err('try without catch/finally')
        return self.mk(ast.Try, t, body=body or [self.mk(ast.Pass, t)], handlers=handlers, orelse=[], finalbody=final)

    def class_decl(self):
        t = self.expect('class')
        name = self.ident()
        if self.eat('extends'):
            self.postfix()
        self.expect('{')
        body = []
        while not self.at('}'):
            if self.eat(';'):
                continue
            mt = self.peek()
            while (self.at('static') or self.at('async')) and not self.at('(', 1):
                self.next()
            if self.at('get', 0) and self.peek(1).kind == 'id' and not self.at('(', 1):
                self.err('accessor methods are outside the supported subset')
            mname = self.next()
            if mname.kind != 'id':
                self.err('method name expected', mname)
            params = self.params()
            mbody = self.block()
            body.append(self.mk(ast.FunctionDef, mt, name=mname.val, args=params, body=mbody or [self.mk(ast.Pass, mt)], decorator_list=[]))
        self.expect('}')
        return self.mk(ast.ClassDef, t, name=name.val, bases=[], keywords=[], body=body, decorator_list=[])

    def params(self):
        t = self.expect('(')
        args = []
        while not self.at(')'):
            if self.eat('...'):
                pass
            target = self.binding_target()
            a = self.mk(ast.arg, t, arg=target.id if isinstance(target, ast.Name) else '_pattern', annotation=None)
            a.js_pattern = target
            if self.eat('='):
                self.assignment_rhs()
            args.append(a)
            if not self.at(')'):
                self.expect(',')
        self.expect(')')
        return ast.arguments(posonlyargs=[], args=args, vararg=None, kwonlyargs=[], kw_defaults=[], kwarg=None, defaults=[])

    def expression_statement(self):
        t = self.peek()
        if self.at('delete'):
            self.next()
            e = self.unary()
            self.end_stmt()
            return [self.mk(ast.Delete, t, targets=[e])]
        out = []
        while True:
            out.extend(self.expr_to_stmts(self.assignment_or_expr(), t))
            if not self.eat(','):
                break
        self.end_stmt()
        return out

    def expr_to_stmts(self, e, t):
        if isinstance(e, (ast.Assign, ast.AugAssign)):
            return [e]
        return [self.mk(ast.Expr, t, value=e)]

    # -- expressions
    def to_target(self, e):
        if isinstance(e, ast.List):
            return self.mk(ast.Tuple, self.peek(), elts=[self.to_target(x) for x in e.elts], ctx=ast.Store())
        if isinstance(e, (ast.Name, ast.Attribute, ast.Subscript)):
            return e
        self.err('not an assignable expression')

    def assignment_or_expr(self):
        """statement-level: an assignment (returns ast.Assign / ast.AugAssign) or a plain expression"""
        t = self.peek()
        if self.peek().kind == 'p' and self.peek().val in ('++', '--'):
            self.next()
            e = self.unary()
            return self.mk(ast.AugAssign, t, target=self.to_target(e), op=ast.Add(), value=self.mk(ast.Constant, t, value=1))
        e = self.conditional()
        p = self.peek()
        if p.kind == 'p' and p.val in ASSIGN_OPS:
            self.next()
            rhs = self.assignment_rhs()
            if p.val == '=':
                return self.mk(ast.Assign, t, targets=[self.to_target(e)], value=rhs)
            return self.mk(ast.AugAssign, t, target=self.to_target(e), op=ast.Add() if p.val == '+=' else ast.Sub(), value=rhs)
        if p.kind == 'p' and p.val in ('++', '--') and not p.nl:
            self.next()
            return self.mk(ast.AugAssign, t, target=self.to_target(e), op=ast.Add(), value=self.mk(ast.Constant, t, value=1))
        return e

    def assignment_rhs(self):
        e = self.conditional()
        p = self.peek()
        if p.kind == 'p' and (p.val in ASSIGN_OPS or p.val in ('++', '--')) and not (p.val in ('++', '--') and p.nl):
            self.err('assignment used as an expression is outside the supported subset')
        return e

    def expression(self):
        e = self.assignment_rhs()
        if self.at(','):
            self.err('comma operator is outside the supported subset')
        return e

    def is_arrow(self):
        """at '(' : is this the parameter list of an arrow function?"""
        depth, k = 0, 0
        while True:
            t = self.peek(k)
            if t.kind == 'eof':
                return False
            if t.kind == 'p' and t.val in '([{':
                depth += 1
            elif t.kind == 'p' and t.val in ')]}':
                depth -= 1
                if depth == 0:
                    return self.at('=>', k + 1)
            k += 1

    def arrow_body(self, t, params):
        self.expect('=>')
        if self.at('{'):
            body = self.block()
            lam = self.mk(ast.Lambda, t, args=params, body=body)
            lam.js_block = True
            return lam
        lam = self.mk(ast.Lambda, t, args=params, body=self.assignment_rhs())
        lam.js_block = False
        return lam

    def conditional(self):
        t = self.peek()
        if self.at('async') and (self.at('(', 1) or self.at('function', 1) or (self.peek(1).kind == 'id' and self.at('=>', 2))):
            self.next()
            t = self.peek()
        if t.kind == 'id' and t.val not in KEYWORDS and self.at('=>', 1):
            self.next()
            a = self.mk(ast.arg, t, arg=t.val, annotation=None)
            a.js_pattern = self.mk(ast.Name, t, id=t.val, ctx=ast.Store())
            return self.arrow_body(t, ast.arguments(posonlyargs=[], args=[a], vararg=None, kwonlyargs=[], kw_defaults=[], kwarg=None, defaults=[]))
        if self.at('(') and self.is_arrow():
            return self.arrow_body(t, self.params())
        test = self.binary(0)
        if self.eat('?'):
            a = self.assignment_rhs()
            self.expect(':')
            b = self.assignment_rhs()
            return self.mk(ast.IfExp, t, test=test, body=a, orelse=b)
        return test

    def binary(self, minprec):
        t = self.peek()
        left = self.unary()
        while True:
            p = self.peek()
            if p.kind not in ('p', 'id') or p.val not in BINOPS:
                return left
            prec, kind = BINOPS[p.val]
            if prec < minprec or (p.kind == 'id' and p.val == 'in' and getattr(self, 'no_in', False)):
                return left
            self.next()
            right = self.binary(prec + (0 if p.val == '**' else 1))
            if kind == 'bool':
                left = self.mk(ast.BoolOp, t, op=ast.And() if p.val == '&&' else ast.Or(), values=[left, right])
            elif kind == 'cmp':
                left = self.mk(ast.Compare, t, left=left, ops=[ast.Eq()], comparators=[right])
                left.js_op = p.val
            else:
                left = self.mk(ast.BinOp, t, left=left, op=ast.Add() if kind == 'add' else ast.Mult(), right=right)
                left.js_op = p.val
        return left

    def unary(self):
        t = self.peek()
        if t.kind == 'p' and t.val in ('!', '-', '+', '~'):
            self.next()
            return self.mk(ast.UnaryOp, t, op=ast.Not() if t.val == '!' else ast.USub(), operand=self.unary())
        if t.kind == 'p' and t.val in ('++', '--'):
            self.err('increment used as an expression is outside the supported subset')
        if t.kind == 'id' and t.val in ('typeof', 'void'):
            self.next()
            return self.mk(ast.Call, t, func=self.mk(ast.Name, t, id=t.val, ctx=ast.Load()), args=[self.unary()], keywords=[])
        if t.kind == 'id' and t.val == 'await':
            self.next()
            return self.unary()
        if t.kind == 'id' and t.val == 'delete':
            self.err('delete used as an expression is outside the supported subset')
        return self.postfix()

    def arguments(self):
        self.expect('(')
        args = []
        while not self.at(')'):
            st = self.peek()
            if self.eat('...'):
                args.append(self.mk(ast.Starred, st, value=self.assignment_rhs(), ctx=ast.Load()))
            else:
                args.append(self.assignment_rhs())
            if not self.at(')'):
                self.expect(',')
        self.expect(')')
        return args

    def postfix(self):
        t = self.peek()
        if self.at('new'):
            self.next()
            callee = self.member_only()
            args = self.arguments() if self.at('(') else []
            e = self.mk(ast.Call, t, func=callee, args=args, keywords=[])
            e.js_new = True
        else:
            e = self.primary()
        while True:
            p = self.peek()
            if p.kind != 'p':
                return e
            if p.val == '.' or p.val == '?.':
                self.next()
                if p.val == '?.' and (self.at('(') or self.at('[')):
                    continue
                name = self.next()
                if name.kind != 'id':
                    self.err('property name expected', name)
                e = self.mk(ast.Attribute, p, value=e, attr=name.val, ctx=ast.Load())
            elif p.val == '[':
                self.next()
                idx = self.expression()
                self.expect(']')
                e = self.mk(ast.Subscript, p, value=e, slice=idx, ctx=ast.Load())
            elif p.val == '(':
                e = self.mk(ast.Call, p, func=e, args=self.arguments(), keywords=[])
            else:
                return e

    def member_only(self):
        e = self.primary()
        while self.at('.'):
            p = self.next()
            name = self.next()
            e = self.mk(ast.Attribute, p, value=e, attr=name.val, ctx=ast.Load())
        return e

    def primary(self):
        t = self.next()
        if t.kind == 'num':
            # the value matters only as a subscript (x[0], x[x.length - 1]): decimal integers keep their value, every other
            # numeric literal is a float (never taken for a position)
            return self.mk(ast.Constant, t, value=int(t.val) if t.val.isdigit() else 0.5)
        if t.kind == 'str':
            return self.mk(ast.Constant, t, value=t.val)
        if t.kind == 'regex':
            return self.mk(ast.Constant, t, value=t.val)
        if t.kind == 'template':
            vals = []
            for text, line in t.val:
                sub = Parser(text, self.fname, line)
                e = sub.expression()
                if sub.peek().kind != 'eof':
                    sub.err('unexpected token in template substitution')
                vals.append(self.mk(ast.FormattedValue, t, value=e, conversion=-1, format_spec=None))
            return self.mk(ast.JoinedStr, t, values=vals)
        if t.kind == 'p':
            if t.val == '(':
                e = self.expression()
                self.expect(')')
                return e
            if t.val == '[':
                elts = []
                while not self.at(']'):
                    st = self.peek()
                    if self.at(','):
                        self.next()
                        elts.append(self.mk(ast.Constant, st, value=None))
                        continue
                    if self.eat('...'):
                        elts.append(self.mk(ast.Starred, st, value=self.assignment_rhs(), ctx=ast.Load()))
                    else:
                        elts.append(self.assignment_rhs())
                    if not self.at(']'):
                        self.expect(',')
                self.expect(']')
                return self.mk(ast.List, t, elts=elts, ctx=ast.Load())
            if t.val == '{':
                keys, values = [], []
                while not self.at('}'):
                    k = self.next()
                    if k.kind == 'p' and k.val == '[':
                        key = self.expression()
                        self.expect(']')
                    elif k.kind in ('id', 'str', 'num'):
                        key = self.mk(ast.Constant, k, value=str(k.val))
                    else:
                        self.err('object literal key expected', k)
                    if self.eat(':'):
                        values.append(self.assignment_rhs())
                    elif k.kind == 'id' and self.at('('):
                        self.err('method shorthand in object literal is outside the supported subset')
                    elif k.kind == 'id':
                        values.append(self.mk(ast.Name, k, id=k.val, ctx=ast.Load()))
                    else:
                        self.err('":" expected')
                    keys.append(key)
                    if not self.at('}'):
                        self.expect(',')
                self.expect('}')
                return self.mk(ast.Dict, t, keys=keys, values=values)
            self.err('unexpected token', t)
        if t.kind == 'id':
            if t.val == 'function':
                if self.peek().kind == 'id' and not self.at('('):
                    self.next()
                params = self.params()
                body = self.block()
                lam = self.mk(ast.Lambda, t, args=params, body=body)
                lam.js_block = True
                return lam
            if t.val in ('null', 'undefined'):
                return self.mk(ast.Constant, t, value=None)
            if t.val in ('true', 'false'):
                return self.mk(ast.Constant, t, value=(t.val == 'true'))
            if t.val in ('this', 'super'):
                return self.mk(ast.Name, t, id=t.val, ctx=ast.Load())
            if t.val == 'class':
                self.err('class expression is outside the supported subset', t)
            if t.val in KEYWORDS and t.val not in ('of', 'async', 'static'):
                self.err('unexpected keyword', t)
            return self.mk(ast.Name, t, id=t.val, ctx=ast.Load())
        self.err('unexpected end of input', t)


def parse(src, fname='<js>', first_line=1):
    """statement list (ast nodes) of a JavaScript fragment"""
    return Parser(src, fname, first_line).parse_program()
