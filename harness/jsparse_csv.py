# jsparse_csv.py - a small fail-closed parser for the JavaScript subset of rbql-js/csv_utils.js, producing Python `ast` nodes
# with FAITHFUL operators, literals and template strings, for harness/translate_csv.py.
# (harness/jsmini.py is not used here: it was written for the ownership analysis of C06 and deliberately forgets what an
# operator computes - every comparison is Eq, every arithmetic operator Mult, the text pieces of a template string are
# dropped - and it refuses an assignment inside a condition, which csv_utils.js uses for its exec loop.)
#
# parse_functions(text, fname) -> (consts, functions)
#   consts:     list of (name, ast expression, line) for the top-level `let/const/var NAME = EXPR;`
#   functions:  dict name -> ast.FunctionDef for the top-level `function NAME(..) {..}`; classes and `module.exports.x = y;`
#               lines are skipped (listed by the caller as not translated).
# Mapping:  let/var/const x = e; x = e; x[i] = e -> Assign;  x += e, x++ -> AugAssign;  if / else -> If;  while -> While;
#   for (let i = A; C; i++) body -> Assign i = A; While(C, body + [i += 1]);   while ((m = R.exec(S)) !== null) body ->
#   For(m, Call(R.exec_all, S), body)  (the caller admits it for a GLOBAL pattern only: that loop visits every match in turn);
#   return; continue; expression statements;  c ? a : b -> IfExp;  || && -> BoolOp;  == === -> Eq;  != !== -> NotEq;  < <= > >= ;
#   + - ; ! -> Not; unary - ;  a.b -> Attribute;  a[e] -> Subscript;  f(x) -> Call;  new RegExp(a, b) -> Call(Name('RegExp'));
#   /re/flags -> JsRegex (an ast.Constant whose value is the tuple ('regex', pattern, flags));  `..${e}..` -> JoinedStr with the
#   text pieces as Constants;  [..] -> List;  null -> Constant(None);  true / false;  decimal integers;  '..' and ".." strings.
# Anything else raises JSRefuse naming file:line.
import ast


class JSRefuse(Exception):
    pass


PUNCT = ['===', '!==', '++', '--', '+=', '-=', '==', '!=', '<=', '>=', '&&', '||', '=>', '{', '}', '(', ')', '[', ']', ';', ',', '<', '>', '+', '-', '*', '/',
         '!', '?', ':', '=', '.', '%', '&', '|', '^', '~', '@', '#']     # (the last ones only so that skipped classes can be tokenised)
ESC = {'n': '\n', 'r': '\r', 't': '\t', '\\': '\\', "'": "'", '"': '"', '`': '`', '0': '\0', '$': '$'}


class Tok:
    def __init__(self, kind, val, line):
        self.kind, self.val, self.line = kind, val, line

    def __repr__(self):
        return '%s:%r@%d' % (self.kind, self.val, self.line)


def tokenize(src, fname):
    toks = []
    i, n, line = 0, len(src), 1

    def err(msg):
        raise JSRefuse('%s:%d: %s' % (fname, line, msg))

    def value_expected():
        if not toks:
            return True
        t = toks[-1]
        if t.kind in ('num', 'str', 'template', 'regex'):
            return False
        if t.kind == 'id':
            return t.val in ('return', 'typeof', 'new', 'else')
        return t.val not in (')', ']', '}')

    def read_escape(j):
        c = src[j + 1]
        if c in ESC:
            return ESC[c], j + 2
        err('escape sequence \\%s is outside the subset' % c)
    while i < n:
        c = src[i]
        if c == '\n':
            line += 1
            i += 1
        elif c in ' \t\r':
            i += 1
        elif src.startswith('//', i):
            while i < n and src[i] != '\n':
                i += 1
        elif src.startswith('/*', i):
            j = src.find('*/', i + 2)
            if j < 0:
                err('unterminated comment')
            line += src.count('\n', i, j)
            i = j + 2
        elif c in '\'"':
            j = i + 1
            out = []
            while True:
                if j >= n or src[j] == '\n':
                    err('unterminated string')
                if src[j] == c:
                    break
                if src[j] == '\\':
                    ch, j = read_escape(j)
                    out.append(ch)
                else:
                    out.append(src[j])
                    j += 1
            toks.append(Tok('str', ''.join(out), line))
            i = j + 1
        elif c == '`':
            j = i + 1
            parts = []
            cur = []
            while True:
                if j >= n:
                    err('unterminated template string')
                if src[j] == '`':
                    break
                if src[j] == '\\':
                    ch, j = read_escape(j)
                    cur.append(ch)
                elif src.startswith('${', j):
                    k = src.find('}', j)
                    if k < 0:
                        err('unterminated ${')
                    inner = src[j + 2:k].strip()
                    if not inner.replace('_', 'a').isalnum() or inner[0].isdigit():
                        err('template substitution other than a plain name')
                    parts.append(''.join(cur))
                    cur = []
                    parts.append(('sub', inner))
                    j = k + 1
                else:
                    if src[j] == '\n':
                        line += 1
                    cur.append(src[j])
                    j += 1
            parts.append(''.join(cur))
            toks.append(Tok('template', parts, line))
            i = j + 1
        elif c == '/' and value_expected():
            j = i + 1
            incls = False
            while True:
                if j >= n or src[j] == '\n':
                    err('unterminated regular expression literal')
                if src[j] == '\\':
                    j += 2
                    continue
                if src[j] == '[':
                    incls = True
                elif src[j] == ']':
                    incls = False
                elif src[j] == '/' and not incls:
                    break
                j += 1
            k = j + 1
            while k < n and src[k].isalpha():
                k += 1
            toks.append(Tok('regex', (src[i + 1:j], src[j + 1:k]), line))
            i = k
        elif c.isdigit():
            j = i
            while j < n and src[j].isdigit():
                j += 1
            if j < n and (src[j].isalpha() or src[j] == '.'):
                err('number literal outside the subset')
            toks.append(Tok('num', int(src[i:j]), line))
            i = j
        elif c.isalpha() or c in '_$':
            j = i
            while j < n and (src[j].isalnum() or src[j] in '_$'):
                j += 1
            toks.append(Tok('id', src[i:j], line))
            i = j
        else:
            for p in PUNCT:
                if src.startswith(p, i):
                    toks.append(Tok('p', p, line))
                    i += len(p)
                    break
            else:
                err('character %r is outside the subset' % c)
    toks.append(Tok('eof', None, line))
    return toks


class Parser:
    def __init__(self, toks, fname):
        self.t = toks
        self.i = 0
        self.fname = fname

    def err(self, msg, tok=None):
        tok = tok or self.t[self.i]
        raise JSRefuse('%s:%d: %s (at %r)' % (self.fname, tok.line, msg, tok.val))

    def peek(self, k=0):
        return self.t[min(self.i + k, len(self.t) - 1)]

    def at(self, val, k=0):
        t = self.peek(k)
        return t.kind in ('p', 'id') and t.val == val

    def eat(self, val):
        if not self.at(val):
            self.err('%r expected' % val)
        self.i += 1
        return self.t[self.i - 1]

    def name(self):
        t = self.peek()
        if t.kind != 'id':
            self.err('a name expected')
        self.i += 1
        return t.val

    def loc(self, node, tok):
        node.lineno = tok.line
        node.col_offset = 0
        node.end_lineno = tok.line
        node.end_col_offset = 0
        return node

    # -- top level
    def top(self):
        consts, funcs, skipped = [], {}, []
        while self.peek().kind != 'eof':
            t = self.peek()
            if self.at('function'):
                f = self.function()
                if f.name in funcs:
                    self.err('function %s defined twice' % f.name, t)
                funcs[f.name] = f
            elif self.at('class'):
                self.i += 1
                nm = self.name()
                self.skip_block()
                skipped.append('class ' + nm)
            elif (self.at('let') or self.at('const') or self.at('var')) and self.peek(1).kind == 'id' and self.at('=', 2):
                self.i += 1
                nm = self.name()
                self.eat('=')
                e = self.expr()
                self.eat(';')
                consts.append((nm, e, t.line))
            elif self.at('module') and self.at('.', 1) and self.at('exports', 2):
                while not self.at(';'):
                    if self.peek().kind == 'eof':
                        self.err('unterminated export')
                    self.i += 1
                self.i += 1
            else:
                self.err('top-level statement outside the subset')
        return consts, funcs, skipped

    def skip_block(self):
        self.eat('{')
        depth = 1
        while depth:
            t = self.peek()
            if t.kind == 'eof':
                self.err('unterminated block')
            if t.kind == 'p' and t.val == '{':
                depth += 1
            if t.kind == 'p' and t.val == '}':
                depth -= 1
            self.i += 1

    def function(self):
        t = self.eat('function')
        nm = self.name()
        self.eat('(')
        args, defaults = [], []
        while not self.at(')'):
            a = self.name()
            args.append(ast.arg(arg=a))
            if self.at('='):
                self.i += 1
                defaults.append(self.expr())
            elif defaults:
                self.err('a parameter without default after one with a default')
            if not self.at(')'):
                self.eat(',')
        self.eat(')')
        body = self.block()
        f = ast.FunctionDef(name=nm, args=ast.arguments(posonlyargs=[], args=args, kwonlyargs=[], kw_defaults=[], defaults=defaults, vararg=None, kwarg=None),
                            body=body, decorator_list=[], returns=None)
        self.loc(f, t)
        ast.fix_missing_locations(f)
        return f

    # -- statements
    def block(self):
        self.eat('{')
        out = []
        while not self.at('}'):
            out.extend(self.statement())
        self.eat('}')
        return out

    def body(self):
        if self.at('{'):
            return self.block()
        return self.statement()

    def statement(self):
        t = self.peek()
        if self.at('let') or self.at('var') or self.at('const'):
            self.i += 1
            if self.at('['):                       # const [a, b] = e;
                self.i += 1
                names = []
                while not self.at(']'):
                    names.append(self.name())
                    if not self.at(']'):
                        self.eat(',')
                self.eat(']')
                self.eat('=')
                e = self.expr()
                self.eat(';')
                if len(names) < 2 or len(set(names)) != len(names):
                    self.err('destructuring outside the subset', t)
                tgt = ast.Tuple(elts=[ast.Name(id=n, ctx=ast.Store()) for n in names], ctx=ast.Store())
                return [self.loc(ast.Assign(targets=[tgt], value=e), t)]
            nm = self.name()
            self.eat('=')
            e = self.expr()
            self.eat(';')
            return [self.loc(ast.Assign(targets=[ast.Name(id=nm, ctx=ast.Store())], value=e), t)]
        if self.at('if'):
            self.i += 1
            self.eat('(')
            c = self.expr()
            self.eat(')')
            a = self.body()
            b = []
            if self.at('else'):
                self.i += 1
                b = self.body()
            return [self.loc(ast.If(test=c, body=a, orelse=b), t)]
        if self.at('while'):
            self.i += 1
            self.eat('(')
            # while ((m = R.exec(S)) !== null)
            if self.at('(') and self.peek(1).kind == 'id' and self.at('=', 2):
                self.i += 1
                nm = self.name()
                self.eat('=')
                e = self.expr()
                self.eat(')')
                self.eat('!==')
                self.eat('null')
                self.eat(')')
                body = self.body()
                if not (isinstance(e, ast.Call) and isinstance(e.func, ast.Attribute) and e.func.attr == 'exec' and len(e.args) == 1):
                    self.err('assignment in a loop condition other than the exec loop', t)
                it = ast.Call(func=ast.Attribute(value=e.func.value, attr='exec_all', ctx=ast.Load()), args=e.args, keywords=[])
                return [self.loc(ast.For(target=ast.Name(id=nm, ctx=ast.Store()), iter=it, body=body, orelse=[]), t)]
            c = self.expr()
            self.eat(')')
            body = self.body()
            return [self.loc(ast.While(test=c, body=body, orelse=[]), t)]
        if self.at('for'):
            self.i += 1
            self.eat('(')
            if not (self.at('let') or self.at('var')):
                self.err('for loop outside the subset')
            self.i += 1
            nm = self.name()
            self.eat('=')
            init = self.expr()
            self.eat(';')
            c = self.expr()
            self.eat(';')
            if not (self.peek().kind == 'id' and self.peek().val == nm and self.at('++', 1)):
                self.err('for loop update other than %s++' % nm)
            self.i += 2
            self.eat(')')
            body = self.body()
            upd = self.loc(ast.AugAssign(target=ast.Name(id=nm, ctx=ast.Store()), op=ast.Add(), value=ast.Constant(value=1)), t)
            return [self.loc(ast.Assign(targets=[ast.Name(id=nm, ctx=ast.Store())], value=init), t),
                    self.loc(ast.While(test=c, body=body + [upd], orelse=[]), t)]
        if self.at('return'):
            self.i += 1
            e = self.expr()
            self.eat(';')
            return [self.loc(ast.Return(value=e), t)]
        if self.at('continue'):
            self.i += 1
            self.eat(';')
            return [self.loc(ast.Continue(), t)]
        for kw in ('function', 'class', 'try', 'throw', 'switch', 'do', 'break'):
            if self.at(kw):
                self.err('statement %s is outside the subset' % kw)
        e = self.expr()
        if self.at('=') or self.at('+=') or self.at('-='):
            op = self.peek().val
            self.i += 1
            v = self.expr()
            self.eat(';')
            if not isinstance(e, (ast.Name, ast.Subscript, ast.Attribute)):
                self.err('assignment target outside the subset', t)
            e.ctx = ast.Store()
            if op == '=':
                return [self.loc(ast.Assign(targets=[e], value=v), t)]
            return [self.loc(ast.AugAssign(target=e, op=ast.Add() if op == '+=' else ast.Sub(), value=v), t)]
        if self.at('++'):
            self.i += 1
            self.eat(';')
            if not isinstance(e, ast.Name):
                self.err('++ on a non-name', t)
            e.ctx = ast.Store()
            return [self.loc(ast.AugAssign(target=e, op=ast.Add(), value=ast.Constant(value=1)), t)]
        self.eat(';')
        return [self.loc(ast.Expr(value=e), t)]

    # -- expressions
    def expr(self):
        c = self.or_()
        if self.at('?'):
            t = self.peek()
            self.i += 1
            a = self.expr()
            self.eat(':')
            b = self.expr()
            return self.loc(ast.IfExp(test=c, body=a, orelse=b), t)
        return c

    def or_(self):
        parts = [self.and_()]
        t = self.peek()
        while self.at('||'):
            self.i += 1
            parts.append(self.and_())
        return parts[0] if len(parts) == 1 else self.loc(ast.BoolOp(op=ast.Or(), values=parts), t)

    def and_(self):
        parts = [self.cmp()]
        t = self.peek()
        while self.at('&&'):
            self.i += 1
            parts.append(self.cmp())
        return parts[0] if len(parts) == 1 else self.loc(ast.BoolOp(op=ast.And(), values=parts), t)

    CMP = {'==': ast.Eq, '===': ast.Eq, '!=': ast.NotEq, '!==': ast.NotEq, '<': ast.Lt, '<=': ast.LtE, '>': ast.Gt, '>=': ast.GtE}

    def cmp(self):
        a = self.add()
        t = self.peek()
        if t.kind == 'p' and t.val in self.CMP:
            self.i += 1
            b = self.add()
            nt = self.peek()
            if nt.kind == 'p' and nt.val in self.CMP:
                self.err('chained comparison')
            return self.loc(ast.Compare(left=a, ops=[self.CMP[t.val]()], comparators=[b]), t)
        return a

    def add(self):
        a = self.unary()
        while self.at('+') or self.at('-'):
            t = self.peek()
            self.i += 1
            b = self.unary()
            a = self.loc(ast.BinOp(left=a, op=ast.Add() if t.val == '+' else ast.Sub(), right=b), t)
        if self.at('*') or self.at('/'):
            self.err('operator outside the subset')
        return a

    def unary(self):
        t = self.peek()
        if self.at('!'):
            self.i += 1
            return self.loc(ast.UnaryOp(op=ast.Not(), operand=self.unary()), t)
        if self.at('-'):
            self.i += 1
            return self.loc(ast.UnaryOp(op=ast.USub(), operand=self.unary()), t)
        return self.postfix()

    def postfix(self):
        e = self.primary()
        while True:
            t = self.peek()
            if self.at('.'):
                self.i += 1
                e = self.loc(ast.Attribute(value=e, attr=self.name(), ctx=ast.Load()), t)
            elif self.at('['):
                self.i += 1
                ix = self.expr()
                self.eat(']')
                e = self.loc(ast.Subscript(value=e, slice=ix, ctx=ast.Load()), t)
            elif self.at('('):
                self.i += 1
                args = []
                while not self.at(')'):
                    args.append(self.expr())
                    if not self.at(')'):
                        self.eat(',')
                self.eat(')')
                e = self.loc(ast.Call(func=e, args=args, keywords=[]), t)
            else:
                return e

    def primary(self):
        t = self.peek()
        self.i += 1
        if t.kind == 'num':
            return self.loc(ast.Constant(value=t.val), t)
        if t.kind == 'str':
            return self.loc(ast.Constant(value=t.val), t)
        if t.kind == 'regex':
            return self.loc(ast.Constant(value=('regex', t.val[0], t.val[1])), t)
        if t.kind == 'template':
            vals = []
            for p in t.val:
                if isinstance(p, tuple):
                    vals.append(ast.FormattedValue(value=ast.Name(id=p[1], ctx=ast.Load()), conversion=-1, format_spec=None))
                elif p:
                    vals.append(ast.Constant(value=p))
            return self.loc(ast.JoinedStr(values=vals), t)
        if t.kind == 'id':
            if t.val == 'null':
                return self.loc(ast.Constant(value=None), t)
            if t.val in ('true', 'false'):
                return self.loc(ast.Constant(value=t.val == 'true'), t)
            if t.val == 'new':
                nm = self.name()
                if nm != 'RegExp' or not self.at('('):
                    self.err('new %s is outside the subset' % nm, t)
                return self.loc(ast.Name(id='RegExp', ctx=ast.Load()), t)
            if t.val in ('function', 'class', 'typeof', 'undefined', 'this', 'await', 'async', 'delete', 'void', 'in', 'of', 'instanceof'):
                self.err('%s is outside the subset' % t.val, t)
            return self.loc(ast.Name(id=t.val, ctx=ast.Load()), t)
        if t.kind == 'p' and t.val == '(':
            e = self.expr()
            self.eat(')')
            return e
        if t.kind == 'p' and t.val == '[':
            elts = []
            while not self.at(']'):
                elts.append(self.expr())
                if not self.at(']'):
                    self.eat(',')
            self.eat(']')
            return self.loc(ast.List(elts=elts, ctx=ast.Load()), t)
        self.i -= 1
        self.err('expression outside the subset')


def parse_functions(text, fname):
    p = Parser(tokenize(text, fname), fname)
    consts, funcs, skipped = p.top()
    for f in funcs.values():
        ast.fix_missing_locations(f)
    return consts, funcs, skipped
