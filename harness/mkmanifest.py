#!/usr/bin/env python3
# mkmanifest.py - regenerates /verif/MANIFEST.json from the table below (kept valid at all times)
import json, os
HERE = os.path.dirname(os.path.dirname(os.path.abspath(__file__)))
BASELINE = "cd /repo && /venv/bin/python -m pytest -ra -q -p no:cacheprovider --timeout=900 --continue-on-collection-errors"
NOTE = ("Trusted: Coq 8.16.1 kernel + VM (vm_compute), no axioms (Print Assumptions re-read on every run, allow-list empty), "
        "ExtrOcamlBasic extraction + ocaml/driver.ml (cross-checked per run against vm_compute on a sample), the harness "
        "(generators/drivers/comparator, canary-guarded). The model is hand-written; it is tied to /repo by the correspondence run "
        "(model vs implementation on the same generated and enumerated inputs), which is sampling + bounded enumeration. ")
CHECKS = {}
for fn in sorted(os.listdir(os.path.join(HERE, 'harness', 'manifest'))):
    if fn.endswith('.json'):
        CHECKS[fn[:-5]] = json.load(open(os.path.join(HERE, 'harness', 'manifest', fn)))
REASON_PENDING = "not claimed yet: model and correspondence check under construction in this build phase (see DESIGN.md section 10 for the order)"
def main():
    ids = ['C%02d' % i for i in range(1, 21)]
    checks = []
    for pid in ids:
        if pid not in CHECKS:
            continue
        c = CHECKS[pid]
        checks.append({
            'property_id': pid,
            'quick_cmd': './check %s --tier quick' % pid,
            'thorough_cmd': './check %s --tier thorough' % pid,
            'evidence_file': 'evidence/%s.json' % pid,
            'replay_cmd_template': './check %s --replay {path}' % pid,
            'engine': 'coq-model',
            'level_claimed': {'category': 'proof', 'text': c['text'], 'design_ref': c['ref']},
            'level_note': NOTE + c['note'],
            'technique': c['technique'],
        })
    man = {
        'version': 1,
        'setup_cmd': './check --setup',
        'hooks': {'guard': 'RBQL_VERIF', 'enable': 'none needed: every observation uses public entry points with custom iterator/writer/stream objects (RBQL_VERIF=1 is exported to the drivers but no source hook reads it)',
                  'baseline_off_cmd': BASELINE, 'source_commits': [], 'add_only': True},
        'engines': [{'name': 'coq-model', 'path': 'coq/', 'serves_properties': [c['property_id'] for c in checks],
                     'kind_free_text': 'hand-written Gallina model + theorems (Coq 8.16.1), extracted to OCaml, tied to /repo by a differential correspondence run (harness/)'}],
        'checks': checks,
        'not_applicable': [{'property_id': pid, 'reason': REASON_PENDING} for pid in ids if pid not in CHECKS],
        'notes': 'Single entry point ./check <ID> --tier quick|thorough [--replay <path>]; VERIF_SEED / VERIF_TIER honoured; known findings in known_findings.json',
    }
    with open(os.path.join(HERE, 'MANIFEST.json'), 'w') as f:
        json.dump(man, f, indent=1)
if __name__ == '__main__':
    main()
