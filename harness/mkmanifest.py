#!/usr/bin/env python3
# mkmanifest.py - regenerates /verif/MANIFEST.json from the table below (kept valid at all times)
import json, os
HERE = os.path.dirname(os.path.dirname(os.path.abspath(__file__)))
BASELINE = "cd /repo && /venv/bin/python -m pytest -ra -q -p no:cacheprovider --timeout=900 --continue-on-collection-errors"
NOTE = ("Trusted: Coq 8.16.1 kernel + VM (vm_compute), no axioms (Print Assumptions re-read on every run, allow-list empty), "
        "ExtrOcamlBasic extraction + ocaml/driver.ml (cross-checked per run against vm_compute on a sample), the harness "
        "(generators/drivers/comparator, canary-guarded). The model is hand-written; it is tied to /repo by the correspondence run "
        "(model vs implementation on the same generated and enumerated inputs), which is sampling + bounded enumeration. ")
CHECKS = {
 'C17': dict(
    text="Proof (full for the model): like = SQL LIKE on single-line texts for every text and pattern, metacharacters literal, cache coherent "
         "(Props/C17.v, axiom-free), for the Python and the JS flavour of the matcher. Tie to the code: `select like(a1,a2)` through "
         "rbql.query_table (Python) and rbql-js query_table (node) on exhaustive short pairs over the 14-letter metacharacter alphabet, "
         "structured random and Unicode pairs, every result compared with the proved model.",
    note="Python re / V8 RegExp are not modelled: the regex emitted by like_to_regex is represented by its token list and a backtracking matcher; "
         "re.escape / regexp_escape are assumed to make a literal run match exactly itself (validated by the correspondence run over all metacharacters).",
    technique="Coq proof (induction on the pattern) of matcher = inductive SQL-LIKE relation + differential correspondence run of the extracted model against rbql-py and rbql-js",
    ref="DESIGN.md section 4, C17"),
}
REASON_PENDING = "not claimed yet: model and correspondence check under construction in this build phase (see DESIGN.md section 10 for the order)"
def main():
    ids = ['C%02d' % i for i in range(1, 21)]
    checks = []
    for pid in ids:
        if pid not in CHECKS:
            continue
        c = CHECKS[pid]
        checks.append({
            'property_id': pid,
            'quick_cmd': './check %s --tier quick' % pid,
            'thorough_cmd': './check %s --tier thorough' % pid,
            'evidence_file': 'evidence/%s.json' % pid,
            'replay_cmd_template': './check %s --replay {path}' % pid,
            'engine': 'coq-model',
            'level_claimed': {'category': 'proof', 'text': c['text'], 'design_ref': c['ref']},
            'level_note': NOTE + c['note'],
            'technique': c['technique'],
        })
    man = {
        'version': 1,
        'setup_cmd': './check --setup',
        'hooks': {'guard': 'RBQL_VERIF', 'enable': 'none needed: every observation uses public entry points with custom iterator/writer/stream objects (RBQL_VERIF=1 is exported to the drivers but no source hook reads it)',
                  'baseline_off_cmd': BASELINE, 'source_commits': [], 'add_only': True},
        'engines': [{'name': 'coq-model', 'path': 'coq/', 'serves_properties': [c['property_id'] for c in checks],
                     'kind_free_text': 'hand-written Gallina model + theorems (Coq 8.16.1), extracted to OCaml, tied to /repo by a differential correspondence run (harness/)'}],
        'checks': checks,
        'not_applicable': [{'property_id': pid, 'reason': REASON_PENDING} for pid in ids if pid not in CHECKS],
        'notes': 'Single entry point ./check <ID> --tier quick|thorough [--replay <path>]; VERIF_SEED / VERIF_TIER honoured; known findings in known_findings.json',
    }
    with open(os.path.join(HERE, 'MANIFEST.json'), 'w') as f:
        json.dump(man, f, indent=1)
if __name__ == '__main__':
    main()
