#!/usr/bin/env python3
# translate_shared.py <out_dir>  - fail-closed translator from the Python implementation of RBQL to the shared-state IR of
# coq/theories/Shared.v (property C16).  Repo root: env VERIF_REPO (default /repo).  python3 stdlib only.
# Writes <out_dir>/SharedFacts.v (the IR term prog_py, the entry points entries_py, the obligations
#   gen_shared_isolated : forallb (isolated off_py prog_py) entries_py = true     and one   gen_shared_isolated_<entry>   per public function,
#   the instantiated corollaries gen_shared_noninterference / gen_shared_history / gen_shared_store_unchanged)
# and <out_dir>/SharedFacts.json (cells, per-function effect summaries with file:line sites, per-entry transitive write / read
# sets, the external calls that are ASSUMED).  Exit 0: files written (also when some write set is NOT empty: the obligations
# then evaluate to false and name the cells); exit 2: translation refused ("cannot translate", message names file:line).
#
# WHAT IS READ (re-read on every run, nothing cached)
#   $VERIF_REPO/rbql-py/rbql/{rbql_engine,rbql_csv,csv_utils,rbql_pandas,rbql_sqlite}.py with `ast`, and the code the engine
#   exec()s: the REAL generator (shallow_parse_input_query + generate_main_loop_code, imported from $VERIF_REPO/rbql-py) is run
#   on the query shapes of PROGRAMS (every template family), each generated text is parsed and analysed as a function nested
#   in the function that contains the exec() call (its free names resolve to that function's locals, then to the module).
#   rbql_main.py (command line) and rbql_ipython.py are not part of a library query and are not read.
#
# SHARED CELLS (everything that outlives one call of an entry point)
#   <module>.<name>            every name bound at module level (assignment, def, class, import, for / with / except target), with a
#                              KIND from its binding expression: const (number, string, None, tuple of consts, re.compile(..),
#                              builtin), container (list / dict / set display or constructor, comprehension) with a mutable
#                              depth m (m = 1 + the depth of its elements; unknown element => unbounded), instance (call of a
#                              class of these modules), func, class, module, unknown (any other call; unbounded depth).
#   <module>.<Class>.<name>    every assignment in the body of a module-level class (methods are not cells).
#   <module>.<func>.<default:p>  every default-argument expression of a module-level function / method that is not a const.
#   <module>.__dict__          what globals() / vars() / <module>.__dict__ give access to.
#   ext:<mod>.<name>           an attribute of a module OUTSIDE the five (sys.stdout = .., csv.field_size_limit ..) that is stored to.
#   Function attributes (f.x = ..) and attributes added to classes are writes to the cell of the function / class.
#   A cell that some function REBINDS (global x; x = .. / <module>.x = .. / Cls.x = ..) is generalised to kind unknown, unbounded depth:
#   its module-level initialiser no longer bounds what it holds (`cache = None` at module level, `cache = {}` in a function).
#
# ABSTRACT VALUES (flow-insensitive, context-insensitive, field-based; least fixpoint over all functions)
#   (c, k, f): "may be reached from shared cell c": f = 0: the object at nesting depth k inside the object of c (k = 0: the object
#   itself); f > 0: a FRESH container (f layers of private containers) whose leaves are depth-k objects of c.  A value at depth
#   k >= m(c) is immutable and dropped.  k is capped at 4 and f at 3 (at the cap the deeper values are merged, never dropped).
#   F(fn) / B(fn): may be function fn / a bound method;  C(cls): may be class cls;  NT(c): a class made by namedtuple (calling it
#   wraps its arguments);  MOD(m) / EXT(dotted): one of the five modules / an object of an external module.  Function and class
#   OBJECTS do not travel as shared data (they have no container methods): only an explicit attribute / item store, setattr, delattr
#   on them is a write; an attribute READ off a shared class / function object (Cls.registry, f.cache) is (cell of Cls / f, 1, 0).
#   load of a module-level name x: val(x) + (x,0,0);   e.X: ATTR[X] (one table per attribute NAME, all objects merged) + for
#   (c,k,0) in e: (c,k+1,0) + the class-level cell named X + methods named X as B;   e[i] / iteration / unpacking / .get .pop
#   .values .items ..: element (f>0: f-1; f=0: k+1);   e[a:b], list(e) tuple(e) sorted(e) set(e) dict(e) e.copy() e+e copy.copy(e):
#   shallow copy ((c,k,0) -> (c,k+1,1): NOT the object itself, but its elements still are shared - cf. seeded C16-9);
#   displays / comprehensions: wrap (f+1);   copy.deepcopy: nothing;   a call of a function of these modules: parameters receive
#   the argument values, the result is the union of its return / yield values;   e.m(..): EVERY method named m of EVERY class of
#   these modules (self receives e) + the builtin-method rules;   a call of a value with F / B / C: that function / constructor;
#   any other callee (a parameter, user_namespace, a method of a caller-supplied object) is an UNKNOWN callee, see ASSUMED.
# WRITES (what makes an SWrite / SMutate of cell c; every one is recorded with file:line and the rule)
#   rebinding:  `global x` and any binding of x in that function; <module>.x = v; del; an attribute store on a function / class
#   object (Cls.x = v, self.__class__.x = v, type(self).x = v, f.x = v), setattr / delattr on one.
#   mutation of an object whose value contains (c,k,0):  e.X = v, del e.X, e[i] = v, del e[i], e op= v, a call e.m(..) with m in
#   MUTATORS (append extend insert add update pop popitem remove clear sort reverse setdefault discard __setitem__ ..),
#   setattr(e, ..), passing e to an external function that mutates its argument (random.shuffle, heapq.heappush ..) or to ANY
#   external function outside the read-only lists below (fail closed), exec(code, G) with G = globals() (top-level bindings of
#   the executed code land in the module), any mutation of globals() / vars().
#   Soundness argument for the copy rule: a shallow copy allocates a new outer object, so mutating THAT object cannot be seen
#   through c; everything read out of it is again (c,k+1,0).  For the depth rule: the kind of a cell is taken from ALL its
#   module-level binding sites and from every rebinding site (a rebinding is a write anyway).
#   Soundness argument for by-name resolution: e.m(..) is linked to EVERY method named m and e.X reads the ONE table ATTR[X] that every
#   store to an attribute named X (on any object) feeds, so no knowledge of the receiver's class is needed; the price is precision only.
# FLAGS (the one refinement the unchanged tree needs): `if <name>:` whose test is exactly a module-level cell with a const initialiser
#   records the effects of its body under SGuard <cell>.  Cells whose EVERY module-level binding is the literal False / None / 0 and
#   that are used this way are listed in off_py ("assumed off"): Shared.v's analyser skips blocks guarded by them and the theorems
#   take  truthy (g c) = false  as a hypothesis; because `isolated` still demands that nothing reachable outside such blocks writes
#   ANY cell, the flags stay off.  In the unchanged tree: rbql_csv.debug_mode guards the call rbql_engine.set_debug_mode() in query_csv.
#   Values still flow through guarded code unconditionally (only the EFFECTS are guarded).
# REFUSED (cannot translate; fail closed): decorators other than staticmethod / classmethod / property, metaclasses, __new__, match, eval,
#   exec without explicit namespaces, exec inside generated code, dynamic import, an unresolvable name, a call into an external module
#   that is neither in READONLY_EXT nor in EXT_MUTATE_FIRST, any use of importlib / sys.modules / gc / inspect / ctypes / types / pickle /
#   threading / atexit .. (REFLECTION: they reach every cell), `from m import *`, relative imports outside the five modules.
# ENTRY POINTS: rbql_engine.query / query_table / exception_to_error_info, rbql_csv.query_csv, rbql_pandas.query_dataframe,
#   rbql_sqlite.query_sqlite_to_csv, every method of every module-level class whose name ends in Iterator / Writer / Registry,
#   and every __dunder__ method of every class (they are called implicitly).  set_debug_mode is configuration, not a query: it
#   is translated (it writes debug_mode) but it is not an entry point.
# IR: one function body per function / method / lambda / generated main loop:  star [SRead c..; SCall f..; SWrite c / SMutate c..]
#   (Shared.v `star`: any number of rounds, each round any one of the effects followed by a private step - every real run of the
#   function is such a sequence, whatever its control flow).  Cells and functions are numbered in SharedFacts.json.
# ASSUMED (outside the IR; listed per run in SharedFacts.json "externals" / "unknown_callees")
#   * CPython and the standard library keep no state that one query can observe through another, other than through the cells
#     above: re's compiled-pattern cache, sys.stdout / sys.stderr, random's generator, the import system (function-level
#     `import pandas`), io / codecs streams, sqlite3, pandas, os / os.path, ast, traceback, datetime / time.
#   * Callables and objects handed in by the caller (input iterator, output writer, table registry, tables, user_namespace,
#     post_proc functions, the user's init code and the user's query expressions) belong to that query: they do not touch the
#     cells above nor another query's objects.
#   * A method call e.m(..) reaches only methods named m of classes of the five modules or builtin / caller-supplied objects.
#   * Steps are atomic (Shared.v): a statement is not pre-empted half-way.
import ast
import importlib
import json
import os
import re
import sys

REPO = os.environ.get('VERIF_REPO', '/repo')
MODULES = ['rbql_engine', 'rbql_csv', 'csv_utils', 'rbql_pandas', 'rbql_sqlite']
INF = 99
KCAP = 4
FCAP = 3

PROGRAMS = [
    ('select_simple', 'select a1, *, a2 + "x", a.*, NR where a2 != "z"', False),
    ('select_star', 'select *', False),
    ('select_top_distinct', 'select top 3 distinct *, a1', False),
    ('select_distinct_count', 'select distinct count a1, *', False),
    ('select_order_by', 'select * order by a1 desc', False),
    ('select_except', 'select * except a1, a2', False),
    ('select_aggregate', 'select a1, count(*), max(a3) group by a1', False),
    ('select_unnest', 'select a1, unnest(a2.split(";")), *', False),
    ('select_like', 'select like(a1, "a%"), a[2] limit 2', False),
    ('select_join', 'select a1, *, a.*, b.*, b2 join b on a1 == b1 where b2 != "q"', True),
    ('select_left_join', 'select *, b.* left join b on a1 == b1 order by b2', True),
    ('select_strict_left_join', 'select b.*, a.* strict left join b on a1 == b1', True),
    ('update_simple', 'update a1 = a2, a3 = a1 + "x" where a2 != "y"', False),
    ('update_set_simple', 'update set a2 = "k"', False),
    ('update_join', 'update a2 = b2, a1 = b1 join b on a1 == b1 where b2 != "u"', True),
]

MUTATORS = {'append', 'extend', 'insert', 'add', 'update', 'pop', 'popitem', 'remove', 'clear', 'sort', 'reverse', 'setdefault', 'discard',
            '__setitem__', '__delitem__', '__iadd__', '__setattr__', '__delattr__', 'appendleft', 'popleft', 'extendleft', 'rotate',
            'move_to_end', 'difference_update', 'intersection_update', 'symmetric_difference_update', 'subtract', 'fill', 'resize',
            'write', 'writelines', 'seek', 'truncate', 'close', 'flush', 'send', 'throw', '__next__', 'next', 'read', 'readline'}
COPY_METHODS = {'copy', '__copy__', 'union', 'intersection', 'difference', 'symmetric_difference', 'most_common', 'elements'}
ELEM_METHODS = {'get', 'pop', 'popitem', 'setdefault', 'items', 'values', 'keys', '__getitem__', 'popleft', '__iter__', '__next__', 'index_of'}
SCALAR_METHODS = {'join', 'format', 'replace', 'strip', 'lstrip', 'rstrip', 'split', 'rsplit', 'splitlines', 'startswith', 'endswith', 'find', 'rfind',
                  'lower', 'upper', 'encode', 'decode', 'count', 'index', 'isdigit', 'isalpha', 'isalnum', 'isspace', 'title', 'capitalize', 'zfill',
                  'ljust', 'rjust', 'center', 'partition', 'rpartition', 'expandtabs', 'casefold', 'swapcase', 'translate', 'isidentifier',
                  'match', 'search', 'fullmatch', 'finditer', 'findall', 'sub', 'subn', 'group', 'groups', 'groupdict', 'start', 'end', 'span',
                  'issubset', 'issuperset', 'isdisjoint', 'bit_length', 'is_integer', 'hex', 'total_seconds', 'isoformat', 'strftime',
                  '__len__', '__contains__', '__str__', '__repr__', '__hash__', '__eq__', 'fileno', 'isatty', 'tell', 'readable', 'writable'}
BUILTIN_SCALAR = {'len', 'str', 'repr', 'int', 'float', 'bool', 'isinstance', 'issubclass', 'hasattr', 'callable', 'id', 'hash', 'ord', 'chr', 'abs',
                  'round', 'print', 'format', 'range', 'xrange', 'any', 'all', 'divmod', 'pow', 'unicode', 'bytes', 'open', 'compile', 'input',
                  'basestring', 'long', 'complex', 'bin', 'hex', 'oct', 'ascii', 'object', 'slice', 'memoryview', 'bytearray', 'NotImplemented'}
BUILTIN_ELEM = {'min', 'max', 'next', 'sum'}
BUILTIN_COPY = {'list', 'tuple', 'set', 'frozenset', 'sorted', 'reversed', 'enumerate', 'zip', 'iter', 'filter', 'map', 'dict'}
PY2_NAMES = {'basestring', 'xrange', 'unicode', 'long', 'raw_input', 'reduce', 'file', 'cmp', 'unichr'}
import builtins as _b
BUILTIN_NAMES = set(dir(_b)) | PY2_NAMES
# external modules whose functions only read their arguments (results: see ext_call)
READONLY_EXT = {'re', 'os', 'os.path', 'sys', 'io', 'codecs', 'ast', 'math', 'time', 'datetime', 'json', 'traceback', 'copy', 'collections',
                'itertools', 'functools', 'string', 'errno', 'sqlite3', 'pandas', 'pd', 'operator', 'random', 'heapq', 'bisect', 'textwrap',
                'unicodedata', 'struct', 'hashlib', 'base64', 'binascii', 'tempfile', 'shutil', 'glob', 'fnmatch', 'numbers', 'decimal',
                'fractions', 'statistics', 'typing', 'enum', 'abc', 'warnings', 'locale', 'platform', 'getpass', 'csv'}
EXT_MUTATE_FIRST = {'random.shuffle', 'heapq.heappush', 'heapq.heappop', 'heapq.heapify', 'heapq.heapreplace', 'heapq.heappushpop', 'bisect.insort',
                    'bisect.insort_left', 'bisect.insort_right', 'operator.setitem', 'operator.delitem', 'operator.iadd', 'operator.iconcat',
                    'operator.setattr', 'list.append', 'list.extend', 'list.insert', 'list.remove', 'list.sort', 'list.reverse', 'list.clear', 'list.pop',
                    'dict.update', 'dict.setdefault', 'dict.pop', 'dict.clear', 'dict.popitem', 'set.add', 'set.update', 'set.discard', 'set.remove',
                    'set.clear', 'set.pop', 'dict.__setitem__', 'list.__setitem__', 'object.__setattr__', 'shutil.move'}
CONST_EXT_CALLS = {'re.compile', 'namedtuple', 'collections.namedtuple', 'frozenset', 'tuple', 'str', 'int', 'float', 'bool', 'bytes', 'len', 'ord', 'chr',
                   'os.path.join', 'os.path.dirname', 'os.path.abspath', 'os.path.expanduser', 'os.environ.get', 'os.getenv', 'sys.getdefaultencoding',
                   'object', 'range', 'xrange', 'min', 'max', 'abs', 'round', 'repr'}
CONTAINER_CALLS = {'list', 'dict', 'set', 'OrderedDict', 'defaultdict', 'collections.OrderedDict', 'collections.defaultdict', 'collections.deque', 'deque',
                   'Counter', 'collections.Counter', 'bytearray'}


class TranslateError(Exception):
    pass


def dotted(node):
    """a.b.c for Name / Attribute chains, else None"""
    parts = []
    while isinstance(node, ast.Attribute):
        parts.append(node.attr)
        node = node.value
    if isinstance(node, ast.Name):
        parts.append(node.id)
        return '.'.join(reversed(parts))
    return None


class Cell:
    def __init__(self, idx, name, kind, m, site):
        self.idx, self.name, self.kind, self.m, self.site = idx, name, kind, m, site
        self.val = set()
        self.init_kind = kind           # the kind its module-level initialiser(s) gave it
        self.init_false = None          # True: every module-level binding is the literal False / None / 0


class Klass:
    def __init__(self, name, module, node, shared, cell):
        self.name, self.module, self.node, self.shared, self.cell = name, module, node, shared, cell
        self.methods = {}
        self.bases = [dotted(b) or '?' for b in node.bases]
        self.attr_cells = {}


class Func:
    def __init__(self, fid, qname, node, module, parent, cls=None, kind='def'):
        self.fid, self.qname, self.node, self.module, self.parent, self.cls, self.kind = fid, qname, node, module, parent, cls, kind
        self.env = {}
        self.ret = set()
        self.reads = set()
        self.writes = {}          # (cell idx, 'W' | 'M') -> set of (site, rule)
        self.calls = set()
        self.g_reads, self.g_writes, self.g_calls = {}, {}, {}      # the same under `if <flag cell>:` - guard cell idx -> ...
        self.locals = set()
        self.globals_decl = set()
        self.nonlocal_decl = set()
        self.params = []
        self.vararg = self.kwarg = None
        self.deco = None
        self.is_exec = False
        self.site = '%s.py:%d' % (module, getattr(node, 'lineno', 0))


class Analyzer:
    def __init__(self):
        self.cells = []
        self.cell_by_name = {}
        self.funcs = []
        self.classes = []
        self.mod_bind = {m: {} for m in MODULES}      # module -> name -> ('cell', Cell)|('module', m)|('ext', dotted)|('alias', m, name)
        self.mod_tree = {}
        self.mod_init = {}
        self.methods_by_name = {}
        self.class_attr_cells = {}                     # attr name -> [Cell]
        self.properties = {}
        self.attr = {}                                 # attribute name -> set of values
        self.externals = {}
        self.unknown_callees = {}
        self.changed = False
        self.guard = None                              # cell idx of the flag guarding the statements being analysed
        self.func_of_node = {}
        self.class_of_node = {}
        self.exec_sites = []                           # (Func containing exec, lineno)
        self.generated = []

    # ------------------------------------------------------------------------------------------------ cells and values
    def new_cell(self, name, kind, m, site):
        if name in self.cell_by_name:
            c = self.cell_by_name[name]
            if (c.kind, c.m) != (kind, m):               # several binding sites: take the most general
                if c.kind != kind:
                    c.kind = 'unknown' if 'const' not in (c.kind, kind) else (kind if c.kind == 'const' else c.kind)
                    c.init_kind = c.kind
                c.m = max(c.m, m)
            return c
        c = Cell(len(self.cells), name, kind, m, site)
        self.cells.append(c)
        self.cell_by_name[name] = c
        return c

    def generalise(self, c):
        """a cell that some function rebinds may hold any object afterwards: its kind from the module-level initialiser no longer bounds it"""
        if c.m != INF or c.kind == 'const':
            c.m = INF
            if c.kind == 'const':
                c.kind = 'unknown'
            c.init_false = False if c.init_false is None else c.init_false
            self.changed = True

    def norm(self, vals):
        out = set()
        for v in vals:
            if v[0] == 'T':
                _t, c, k, f = v
                k, f = min(k, KCAP), min(f, FCAP)
                if k >= self.cells[c].m:
                    continue
                out.add(('T', c, k, f))
            else:
                out.add(v)
        return out

    def elem(self, vals):
        out = set()
        for v in vals:
            if v[0] == 'T':
                _t, c, k, f = v
                if f == 0:
                    out.add(('T', c, k + 1, 0))
                else:
                    out.add(('T', c, k, f - 1))
                    if f >= FCAP:
                        out.add(v)
            else:
                out.add(v)
        return self.norm(out)

    def copy(self, vals):
        out = set()
        for v in vals:
            if v[0] == 'T' and v[3] == 0:
                out.add(('T', v[1], v[2] + 1, 1))
            else:
                out.add(v)
        return self.norm(out)

    def wrap(self, vals):
        out = set()
        for v in vals:
            if v[0] == 'T':
                out.add(('T', v[1], v[2], v[3] + 1))
            else:
                out.add(v)
        return self.norm(out)

    def direct(self, vals):
        """cells whose object (at some depth) this value may BE"""
        return sorted({v[1] for v in vals if v[0] == 'T' and v[3] == 0})

    def add(self, target_set, vals):
        vals = self.norm(vals)
        if not vals <= target_set:
            target_set |= vals
            self.changed = True

    def site(self, fn, node):
        return '%s.py:%d' % (fn.module, getattr(node, 'lineno', 0)) if not fn.is_exec else '<generated %s>:%d' % (fn.qname, getattr(node, 'lineno', 0))

    def write(self, fn, cidx, how, node, rule):
        key = (cidx, how)
        s = (fn.writes if self.guard is None else fn.g_writes.setdefault(self.guard, {})).setdefault(key, set())
        item = (self.site(fn, node), rule)
        if item not in s:
            s.add(item)
            self.changed = True

    def mutate_value(self, fn, vals, node, rule, explicit=False):
        """explicit: an attribute / item store or setattr (counts for function and class objects too); otherwise (mutating method name,
        escape to unknown code) function and class objects are not flagged: they have no container methods"""
        for c in self.direct(vals):
            if not explicit and self.cells[c].kind in ('func', 'class'):
                continue
            self.write(fn, c, 'M', node, rule)
        if explicit:
            for v in vals:
                if v[0] == 'EXT':                      # os.environ['X'] = .., setattr(sys, ..): process-wide state outside the five modules
                    c = self.new_cell('ext:' + v[1], 'unknown', INF, self.site(fn, node))
                    self.write(fn, c.idx, 'M', node, rule + ' (object of an external module)')

    def rec_read(self, fn, cidx):
        tgt = fn.reads if self.guard is None else fn.g_reads.setdefault(self.guard, set())
        if cidx not in tgt:
            tgt.add(cidx)
            self.changed = True

    def rec_call(self, fn, fid):
        tgt = fn.calls if self.guard is None else fn.g_calls.setdefault(self.guard, set())
        if fid not in tgt:
            tgt.add(fid)
            self.changed = True

    # ------------------------------------------------------------------------------------------------ loading the sources
    def expr_kind(self, mod, e, depth=0):
        """(kind, m) of a module-level / class-level binding expression"""
        if isinstance(e, ast.Constant) or isinstance(e, (ast.JoinedStr, ast.Compare, ast.UnaryOp)):
            return 'const', 0
        if isinstance(e, ast.BoolOp):
            ks = [self.expr_kind(mod, v, depth) for v in e.values]
            return ('const', 0) if all(k == ('const', 0) for k in ks) else ('unknown', max(k[1] for k in ks))
        if isinstance(e, ast.BinOp):
            ks = [self.expr_kind(mod, e.left, depth), self.expr_kind(mod, e.right, depth)]
            if all(k == ('const', 0) for k in ks):
                return 'const', 0
            return 'container', max(k[1] for k in ks)
        if isinstance(e, ast.IfExp):
            ks = [self.expr_kind(mod, e.body, depth), self.expr_kind(mod, e.orelse, depth)]
            return ('const', 0) if all(k == ('const', 0) for k in ks) else ('unknown', max(k[1] for k in ks))
        if isinstance(e, (ast.Tuple, ast.List, ast.Set)):
            ms = [self.expr_kind(mod, x, depth + 1)[1] for x in e.elts]
            mm = max(ms) if ms else 0
            if isinstance(e, ast.Tuple):
                return ('const', 0) if mm == 0 else ('container', min(INF, mm + 1))
            return 'container', min(INF, mm + 1)
        if isinstance(e, ast.Dict):
            ms = [self.expr_kind(mod, x, depth + 1)[1] for x in list(e.keys) + list(e.values) if x is not None]
            return 'container', min(INF, (max(ms) if ms else 0) + 1)
        if isinstance(e, (ast.ListComp, ast.SetComp, ast.GeneratorExp)):
            return 'container', min(INF, self.expr_kind(mod, e.elt, depth + 1)[1] + 1) if not self.mentions_names(e.elt, e) else INF
        if isinstance(e, ast.DictComp):
            return 'container', INF
        if isinstance(e, ast.Lambda):
            return 'func', INF
        if isinstance(e, ast.Name):
            b = self.mod_bind[mod].get(e.id)
            if b is None:
                if e.id in BUILTIN_NAMES:
                    return 'const', 0
                return 'unknown', INF
            if b[0] == 'cell':
                return b[1].kind, b[1].m
            return 'unknown', INF
        if isinstance(e, ast.Subscript) or isinstance(e, ast.Attribute):
            d = dotted(e.value if isinstance(e, ast.Subscript) else e)
            if d and d.split('.')[0] in ('sys', 'os') and isinstance(e, ast.Subscript):
                return 'const', 0                           # sys.version_info[0]
            if d and (d.startswith('sys.version') or d in ('os.sep', 'os.linesep', 'os.name', 'sys.platform', 'sys.maxsize', 'errno.EPIPE')):
                return 'const', 0
            return 'unknown', INF
        if isinstance(e, ast.Call):
            d = dotted(e.func)
            if d in CONST_EXT_CALLS:
                return ('class', INF) if d.endswith('namedtuple') else ('const', 0)
            if d in CONTAINER_CALLS:
                if not e.args and not e.keywords:
                    return 'container', 1
                return 'container', INF
            if d and d in self.mod_bind[mod] and self.mod_bind[mod][d][0] == 'cell' and self.mod_bind[mod][d][1].kind == 'class':
                return 'instance', INF
            return 'unknown', INF
        return 'unknown', INF

    @staticmethod
    def mentions_names(elt, comp):
        bound = set()
        for g in comp.generators:
            for n in ast.walk(g.target):
                if isinstance(n, ast.Name):
                    bound.add(n.id)
        return any(isinstance(n, ast.Name) and n.id not in bound and n.id not in BUILTIN_NAMES for n in ast.walk(elt))

    def load(self):
        for m in MODULES:
            path = os.path.join(REPO, 'rbql-py', 'rbql', m + '.py')
            try:
                with open(path, encoding='utf-8') as f:
                    self.mod_tree[m] = ast.parse(f.read(), path)
            except (OSError, SyntaxError) as e:
                raise TranslateError('%s: cannot read / parse: %s' % (path, e))
        for m in MODULES:
            self.new_cell(m + '.__dict__', 'container', 1, m + '.py:0')
        # pass 1: module-level bindings (two rounds so that kinds of names used before their definition settle)
        for _round in (0, 1):
            for m in MODULES:
                self.scan_module_bindings(m, self.mod_tree[m].body, _round)
        for m in MODULES:
            init = self.new_func('%s.<module init>' % m, self.mod_tree[m], m, None, kind='module')
            self.mod_init[m] = init
            self.declare_block(init, self.mod_tree[m].body, cls=None, shared=True)

    def scan_module_bindings(self, m, body, _round=1):
        B = self.mod_bind[m]
        for st in body:
            site = '%s.py:%d' % (m, st.lineno)
            if isinstance(st, (ast.FunctionDef, ast.AsyncFunctionDef)):
                B[st.name] = ('cell', self.new_cell('%s.%s' % (m, st.name), 'func', INF, site))
            elif isinstance(st, ast.ClassDef):
                B[st.name] = ('cell', self.new_cell('%s.%s' % (m, st.name), 'class', INF, site))
            elif isinstance(st, ast.Import):
                for a in st.names:
                    nm = (a.asname or a.name.split('.')[0])
                    B[nm] = ('ext', a.name if a.asname else a.name.split('.')[0])
            elif isinstance(st, ast.ImportFrom):
                for a in st.names:
                    nm = a.asname or a.name
                    if st.level >= 1 and st.module is None and a.name in MODULES:
                        B[nm] = ('module', a.name)
                    elif st.level >= 1 and st.module in MODULES:
                        B[nm] = ('alias', st.module, a.name)
                    elif st.level >= 1 and st.module == '_version':
                        B[nm] = ('cell', self.new_cell('%s.%s' % (m, nm), 'const', 0, site))
                    elif st.level >= 1:
                        raise TranslateError('%s: relative import of a module outside the translated set: %s' % (site, st.module or a.name))
                    elif st.module == '__future__':
                        continue
                    else:
                        B[nm] = ('ext', '%s.%s' % (st.module, a.name))
            elif isinstance(st, (ast.Assign, ast.AnnAssign, ast.AugAssign)):
                targets = st.targets if isinstance(st, ast.Assign) else [st.target]
                value = st.value
                for t in targets:
                    if isinstance(t, ast.Name):
                        kind, mm = self.expr_kind(m, value) if value is not None else ('unknown', INF)
                        if isinstance(st, ast.AugAssign):
                            kind, mm = 'unknown', INF
                        B[t.id] = ('cell', self.new_cell('%s.%s' % (m, t.id), kind, mm, site))
                        falsy = isinstance(value, ast.Constant) and value.value in (False, None, 0) and not isinstance(st, ast.AugAssign)
                        if _round == 0:
                            B[t.id][1].init_false = falsy if B[t.id][1].init_false is None else (B[t.id][1].init_false and falsy)
                    elif isinstance(t, (ast.Tuple, ast.List)):
                        for n in ast.walk(t):
                            if isinstance(n, ast.Name):
                                B[n.id] = ('cell', self.new_cell('%s.%s' % (m, n.id), 'unknown', INF, site))
                    # attribute / subscript targets at module level: handled as stores by the analysis of <module init>
            elif isinstance(st, (ast.If, ast.Try, ast.With, ast.For, ast.While)):
                for fld in ('body', 'orelse', 'finalbody'):
                    self.scan_module_bindings(m, getattr(st, fld, []) or [], _round)
                for h in getattr(st, 'handlers', []) or []:
                    if h.name:
                        B[h.name] = ('cell', self.new_cell('%s.%s' % (m, h.name), 'unknown', INF, site))
                    self.scan_module_bindings(m, h.body, _round)
                if isinstance(st, ast.For):
                    for n in ast.walk(st.target):
                        if isinstance(n, ast.Name):
                            B[n.id] = ('cell', self.new_cell('%s.%s' % (m, n.id), 'unknown', INF, site))
                if isinstance(st, ast.With):
                    for it in st.items:
                        if it.optional_vars is not None:
                            for n in ast.walk(it.optional_vars):
                                if isinstance(n, ast.Name):
                                    B[n.id] = ('cell', self.new_cell('%s.%s' % (m, n.id), 'unknown', INF, site))
            elif isinstance(st, (ast.Expr, ast.Pass, ast.Assert, ast.Delete, ast.Global, ast.Raise)):
                continue
            else:
                raise TranslateError('%s: cannot translate module-level statement %s' % (site, type(st).__name__))

    def new_func(self, qname, node, module, parent, cls=None, kind='def'):
        fn = Func(len(self.funcs), qname, node, module, parent, cls, kind)
        self.funcs.append(fn)
        return fn

    def declare_block(self, owner, body, cls, shared):
        """create Func / Klass objects for every def / class / lambda / comprehension-free construct below `body` (not entering nested defs:
        those are declared with themselves as owner); compute locals of `owner`"""
        for st in body:
            self.declare_stmt(owner, st, cls, shared)

    def declare_stmt(self, owner, st, cls, shared):
        if isinstance(st, (ast.FunctionDef, ast.AsyncFunctionDef)):
            self.declare_def(owner, st, cls, shared)
            return
        if isinstance(st, ast.ClassDef):
            self.declare_class(owner, st, cls, shared)
            return
        for n in ast.iter_child_nodes(st):
            if isinstance(n, ast.stmt):
                self.declare_stmt(owner, n, cls, shared)
            elif isinstance(n, ast.ExceptHandler):
                for s2 in n.body:
                    self.declare_stmt(owner, s2, cls, shared)
            elif isinstance(n, getattr(ast, 'match_case', ())):
                raise TranslateError('%s: cannot translate match statement' % self.site(owner, st))
            else:
                self.declare_lambdas(owner, n)

    def declare_lambdas(self, owner, node):
        stack = [node]
        while stack:
            n = stack.pop()
            if isinstance(n, ast.Lambda):
                fn = self.new_func('%s.<lambda:%d>' % (owner.qname, n.lineno), n, owner.module, owner, kind='lambda')
                fn.is_exec = owner.is_exec
                self.func_of_node[id(n)] = fn
                self.setup_params(fn, n.args, shared=False)
                self.declare_lambdas(fn, n.body)
                continue
            stack.extend(ast.iter_child_nodes(n))

    def declare_def(self, owner, st, cls, shared):
        if cls is not None:
            qn = '%s.%s' % (cls.qname if hasattr(cls, 'qname') else cls.name, st.name)
        elif owner.kind == 'module' and not owner.is_exec:
            qn = '%s.%s' % (owner.module, st.name)
        else:
            qn = '%s.<locals>.%s' % (owner.qname, st.name)
        fn = self.new_func(qn, st, owner.module, owner if owner.kind != 'module' else None, cls)
        fn.is_exec = owner.is_exec
        fn.exec_parent = owner if owner.kind == 'module' and owner.is_exec else None
        self.func_of_node[id(st)] = fn
        for d in st.decorator_list:
            dn = dotted(d)
            if dn in ('staticmethod', 'classmethod', 'property'):
                fn.deco = dn
            else:
                raise TranslateError('%s: cannot translate decorator %s' % (self.site(owner, st), dn or type(d).__name__))
            if dn == 'property':
                self.properties.setdefault(st.name, []).append(fn)
        if cls is not None:
            cls.methods[st.name] = fn
            self.methods_by_name.setdefault(st.name, []).append(fn)
        for d in st.args.defaults + [x for x in st.args.kw_defaults if x is not None]:
            self.declare_lambdas(owner, d)
        self.setup_params(fn, st.args, shared=shared and (cls is None or cls.shared), owner=owner)
        self.compute_locals(fn, st.body)
        self.declare_block(fn, st.body, None, False)

    def setup_params(self, fn, args, shared, owner=None):
        pos = list(getattr(args, 'posonlyargs', [])) + list(args.args)
        fn.params = [a.arg for a in pos] + [a.arg for a in args.kwonlyargs]
        fn.vararg = args.vararg.arg if args.vararg else None
        fn.kwarg = args.kwarg.arg if args.kwarg else None
        fn.locals |= set(fn.params) | ({fn.vararg} if fn.vararg else set()) | ({fn.kwarg} if fn.kwarg else set())
        defaults = list(zip([a.arg for a in pos][len(pos) - len(args.defaults):], args.defaults))
        defaults += [(a.arg, d) for a, d in zip(args.kwonlyargs, args.kw_defaults) if d is not None]
        fn.defaults = defaults
        fn.default_cells = {}
        if shared:
            for p, d in defaults:
                kind, mm = self.expr_kind(fn.module, d)
                if kind != 'const':
                    c = self.new_cell('%s.<default:%s>' % (fn.qname, p), kind, mm, '%s.py:%d' % (fn.module, d.lineno))
                    fn.default_cells[p] = c

    def compute_locals(self, fn, body):
        for n in self.walk_scope(body):
            if isinstance(n, ast.Global):
                fn.globals_decl |= set(n.names)
            elif isinstance(n, ast.Nonlocal):
                fn.nonlocal_decl |= set(n.names)
        for n in self.walk_scope(body):
            if isinstance(n, ast.Name) and isinstance(n.ctx, (ast.Store, ast.Del)):
                fn.locals.add(n.id)
            elif isinstance(n, (ast.FunctionDef, ast.AsyncFunctionDef, ast.ClassDef)):
                fn.locals.add(n.name)
            elif isinstance(n, (ast.Import, ast.ImportFrom)):
                for a in n.names:
                    fn.locals.add(a.asname or a.name.split('.')[0])
            elif isinstance(n, ast.ExceptHandler) and n.name:
                fn.locals.add(n.name)
        fn.locals -= fn.globals_decl | fn.nonlocal_decl

    @staticmethod
    def walk_scope(body):
        """nodes of this scope: does not enter nested def / class / lambda bodies (but yields the def node itself)"""
        stack = list(body) if isinstance(body, list) else [body]
        while stack:
            n = stack.pop()
            yield n
            if isinstance(n, (ast.FunctionDef, ast.AsyncFunctionDef, ast.Lambda)):
                continue
            if isinstance(n, ast.ClassDef):
                continue
            stack.extend(ast.iter_child_nodes(n))

    def declare_class(self, owner, st, outer_cls, shared):
        is_shared = shared and owner.kind == 'module' and not owner.is_exec
        qn = ('%s.%s' % (owner.module, st.name)) if owner.kind == 'module' else '%s.<locals>.%s' % (owner.qname, st.name)
        if outer_cls is not None:
            qn = '%s.%s' % (outer_cls.qname, st.name)
        cell = self.cell_by_name.get(qn) if is_shared else None
        if is_shared and cell is None:
            cell = self.new_cell(qn, 'class', INF, self.site(owner, st))
        k = Klass(st.name, owner.module, st, is_shared, cell)
        k.qname = qn
        k.idx = len(self.classes)
        self.classes.append(k)
        self.class_of_node[id(st)] = k
        if st.decorator_list:
            raise TranslateError('%s: cannot translate class decorator' % self.site(owner, st))
        for kw in st.keywords:
            raise TranslateError('%s: cannot translate class keyword %s (metaclass)' % (self.site(owner, st), kw.arg))
        for s2 in st.body:
            if isinstance(s2, (ast.FunctionDef, ast.AsyncFunctionDef)):
                self.declare_def(owner, s2, k, shared)
            elif isinstance(s2, ast.ClassDef):
                self.declare_class(owner, s2, k, shared)
            else:
                if is_shared and isinstance(s2, (ast.Assign, ast.AnnAssign, ast.AugAssign)):
                    targets = s2.targets if isinstance(s2, ast.Assign) else [s2.target]
                    for t in targets:
                        for n in ast.walk(t):
                            if isinstance(n, ast.Name):
                                kind, mm = self.expr_kind(owner.module, s2.value) if (s2.value is not None and isinstance(t, ast.Name) and not isinstance(s2, ast.AugAssign)) else ('unknown', INF)
                                c = self.new_cell('%s.%s' % (qn, n.id), kind, mm, self.site(owner, s2))
                                k.attr_cells[n.id] = c
                                self.class_attr_cells.setdefault(n.id, [])
                                if c not in self.class_attr_cells[n.id]:
                                    self.class_attr_cells[n.id].append(c)
                self.declare_stmt(owner, s2, None, shared)

    # ------------------------------------------------------------------------------------------------ name resolution
    def scope_chain(self, fn):
        while fn is not None:
            yield fn
            fn = fn.parent if fn.parent is not None else getattr(fn, 'exec_parent', None)

    def lookup(self, fn, name):
        """-> ('local', Func) | ('cell', Cell) | ('module', m) | ('ext', dotted) | ('builtin',) | None"""
        first = True
        for sc in self.scope_chain(fn):
            if sc.kind == 'module' and not sc.is_exec:
                break
            if first and name in sc.globals_decl:
                break
            first = False
            if name in sc.locals:
                return ('local', sc)
        return self.lookup_global(fn.module, name)

    def lookup_global(self, mod, name, depth=0):
        b = self.mod_bind[mod].get(name)
        if b is None:
            if name in BUILTIN_NAMES:
                return ('builtin',)
            return None
        if b[0] == 'alias' and depth < 5:
            r = self.lookup_global(b[1], b[2], depth + 1)
            if r is None:
                raise TranslateError('%s.py: from .%s import %s: no such name' % (mod, b[1], b[2]))
            return r
        return b

    def load_cell(self, fn, c, node):
        if c.kind in ('const', 'container', 'instance', 'unknown'):
            self.rec_read(fn, c.idx)
        out = set(c.val)
        if c.kind not in ('func', 'class'):          # function / class objects: F / C values; their attributes: see load_attr / attr_store
            out.add(('T', c.idx, 0, 0))
        if c.kind == 'func':
            for f2 in self.funcs:
                if f2.qname == c.name:
                    out.add(('F', f2.fid))
        if c.kind == 'class':
            found = False
            for k in self.classes:
                if k.cell is c:
                    out.add(('C', k.idx))
                    found = True
            if not found:
                out.add(('NT', c.idx))                # a class made by namedtuple(..): calling it wraps its arguments in a new tuple
        return self.norm(out)

    # ------------------------------------------------------------------------------------------------ expressions
    def ev(self, fn, e):
        m = getattr(self, 'ev_' + type(e).__name__, None)
        if m is None:
            raise TranslateError('%s: cannot translate expression %s' % (self.site(fn, e), type(e).__name__))
        return m(fn, e)

    def evs(self, fn, es):
        out = set()
        for x in es:
            if x is not None:
                out |= self.ev(fn, x)
        return out

    def ev_Constant(self, fn, e):
        return set()

    def ev_JoinedStr(self, fn, e):
        self.evs(fn, e.values)
        return set()

    def ev_FormattedValue(self, fn, e):
        self.ev(fn, e.value)
        if e.format_spec is not None:
            self.ev(fn, e.format_spec)
        return set()

    def ev_Name(self, fn, e):
        r = self.lookup(fn, e.id)
        if r is None:
            if fn.is_exec:
                return set()                        # a name of the user's namespace in generated code (ASSUMED private)
            raise TranslateError('%s: cannot resolve name %r' % (self.site(fn, e), e.id))
        if r[0] == 'local':
            return set(r[1].env.get(e.id, ()))
        if r[0] == 'cell':
            return self.load_cell(fn, r[1], e)
        if r[0] == 'module':
            return {('MOD', r[1])}
        if r[0] == 'ext':
            self.check_reflection(fn, r[1], e)
            return {('EXT', r[1])}
        return set()

    def ev_Attribute(self, fn, e):
        base = self.ev(fn, e.value)
        return self.load_attr(fn, base, e.attr, e)

    def load_attr(self, fn, base, name, node):
        out = set()
        for v in base:
            if v[0] == 'MOD':
                if name == '__dict__':
                    out.add(('T', self.cell_by_name[v[1] + '.__dict__'].idx, 0, 0))
                    continue
                r = self.lookup_global(v[1], name)
                if r is None:
                    raise TranslateError('%s: module %s has no name %r' % (self.site(fn, node), v[1], name))
                if r[0] == 'cell':
                    out |= self.load_cell(fn, r[1], node)
                elif r[0] == 'module':
                    out.add(('MOD', r[1]))
                elif r[0] == 'ext':
                    out.add(('EXT', r[1]))
            elif v[0] == 'EXT':
                self.check_reflection(fn, v[1] + '.' + name, node)
                out.add(('EXT', v[1] + '.' + name))
        rest = {v for v in base if v[0] not in ('MOD', 'EXT')}
        if not rest and base:
            return self.norm(out)
        if name == '__class__':
            for kk in self.classes:                  # the class of an object: any shared class (a subclass instance included)
                if kk.shared:
                    out.add(('C', kk.idx))
            return self.norm(out)
        if name == '__dict__':
            return self.norm(out | rest)
        out |= self.attr.get(name, set())
        out |= self.attr.get('*', set())
        for v in rest:
            if v[0] == 'T':
                if v[3] == 0:
                    out.add(('T', v[1], v[2] + 1, 0))
                else:
                    out |= self.elem({v})
            elif v[0] == 'C' and self.classes[v[1]].shared and name not in self.classes[v[1]].methods and not name.startswith('__'):
                out.add(('T', self.classes[v[1]].cell.idx, 1, 0))          # an attribute object of a shared class object
            elif v[0] in ('F', 'B') and not name.startswith('__'):
                fc = self.cell_by_name.get(self.funcs[v[1]].qname)
                if fc is not None:
                    out.add(('T', fc.idx, 1, 0))                           # a function attribute (f.cache)
        for c in self.class_attr_cells.get(name, []):
            out |= self.load_cell(fn, c, node)
        for m2 in self.methods_by_name.get(name, []):
            if m2.deco == 'property':
                self.call_func(fn, m2, [rest], {}, node, bound_self=True)
                out |= m2.ret
            else:
                out.add(('B', m2.fid))
                if m2.params and m2.deco != 'staticmethod':
                    self.add(m2.env.setdefault(m2.params[0], set()), {v for v in rest if v[0] == 'T'})
        return self.norm(out)

    def ev_Subscript(self, fn, e):
        base = self.ev(fn, e.value)
        if isinstance(e.slice, ast.Slice):
            self.evs(fn, [e.slice.lower, e.slice.upper, e.slice.step])
            return self.copy(base)
        self.ev(fn, e.slice)
        return self.elem(base)

    def ev_Slice(self, fn, e):
        self.evs(fn, [e.lower, e.upper, e.step])
        return set()

    def ev_Index(self, fn, e):                       # python < 3.9
        return self.ev(fn, e.value)

    def ev_Starred(self, fn, e):
        return self.elem(self.ev(fn, e.value))

    def ev_List(self, fn, e):
        return self.wrap(self.evs(fn, e.elts))
    ev_Tuple = ev_List
    ev_Set = ev_List

    def ev_Dict(self, fn, e):
        return self.wrap(self.evs(fn, list(e.keys) + list(e.values)))

    def comp(self, fn, e, elts):
        for g in e.generators:
            self.bind(fn, g.target, self.elem(self.ev(fn, g.iter)), g.target)
            self.evs(fn, g.ifs)
        return self.wrap(self.evs(fn, elts))

    def ev_ListComp(self, fn, e):
        return self.comp(fn, e, [e.elt])
    ev_SetComp = ev_ListComp
    ev_GeneratorExp = ev_ListComp

    def ev_DictComp(self, fn, e):
        return self.comp(fn, e, [e.key, e.value])

    def ev_BinOp(self, fn, e):
        return self.copy(self.ev(fn, e.left) | self.ev(fn, e.right))

    def ev_BoolOp(self, fn, e):
        return self.evs(fn, e.values)

    def ev_IfExp(self, fn, e):
        self.ev(fn, e.test)
        return self.ev(fn, e.body) | self.ev(fn, e.orelse)

    def ev_Compare(self, fn, e):
        self.evs(fn, [e.left] + list(e.comparators))
        return set()

    def ev_UnaryOp(self, fn, e):
        self.ev(fn, e.operand)
        return set()

    def ev_Lambda(self, fn, e):
        f2 = self.func_of_node[id(e)]
        f2.parent = fn
        return {('F', f2.fid)}

    def ev_NamedExpr(self, fn, e):
        v = self.ev(fn, e.value)
        self.bind(fn, e.target, v, e)
        return v

    def ev_Yield(self, fn, e):
        if e.value is not None:
            self.add(fn.ret, self.wrap(self.ev(fn, e.value)))
        return set()

    def ev_YieldFrom(self, fn, e):
        self.add(fn.ret, self.ev(fn, e.value))
        return set()

    def ev_Await(self, fn, e):
        return self.ev(fn, e.value)

    # ------------------------------------------------------------------------------------------------ calls
    def ev_Call(self, fn, e):
        args = [self.ev(fn, a) for a in e.args]
        starred = any(isinstance(a, ast.Starred) for a in e.args) or any(k.arg is None for k in e.keywords)
        kw = {}
        for k in e.keywords:
            v = self.ev(fn, k.value)
            if k.arg is None:
                args.append(self.elem(v))
            else:
                kw[k.arg] = v
        f = e.func
        # ---- special builtins by name
        if isinstance(f, ast.Name) and self.lookup(fn, f.id) is None and fn.is_exec:
            return self.call_value(fn, set(), e, args, kw, starred, name=f.id)      # a function of the user's namespace
        if isinstance(f, ast.Name) and self.lookup(fn, f.id) in (('builtin',), None):
            return self.builtin_call(fn, f.id, e, args, kw)
        if isinstance(f, ast.Attribute):
            base = self.ev(fn, f.value)
            if isinstance(f.value, ast.Call) and isinstance(f.value.func, ast.Name) and f.value.func.id == 'super':
                base = set(fn.env.get(fn.params[0], ())) if fn.params else set()
            exts = [v for v in base if v[0] == 'EXT']
            mods = [v for v in base if v[0] == 'MOD']
            rest = {v for v in base if v[0] not in ('EXT', 'MOD')}
            out = set()
            for v in exts:
                out |= self.ext_call(fn, v[1] + '.' + f.attr, e, args, kw)
            if mods:
                out |= self.call_value(fn, self.load_attr(fn, set(mods), f.attr, f), e, args, kw, starred)
            if rest or not base:
                out |= self.method_call(fn, rest, f.attr, e, args, kw, starred)
            return self.norm(out)
        callee = self.ev(fn, f)
        return self.call_value(fn, callee, e, args, kw, starred, name=dotted(f))

    def call_value(self, fn, callee, e, args, kw, starred, name=None):
        out = set()
        known = False
        for v in sorted(callee):
            if v[0] == 'F' or v[0] == 'B':
                known = True
                f2 = self.funcs[v[1]]
                self.call_func(fn, f2, args, kw, e, bound_self=(v[0] == 'B'), starred=starred)
                out |= f2.ret
            elif v[0] == 'C':
                known = True
                out |= self.construct(fn, self.classes[v[1]], args, kw, e, starred)
            elif v[0] == 'EXT':
                known = True
                out |= self.ext_call(fn, v[1], e, args, kw)
            elif v[0] == 'NT':
                known = True
                allv = set().union(*args) if args else set()
                for x in kw.values():
                    allv |= x
                out |= self.wrap(allv)
        if not known:
            # unknown callee (a parameter, a caller-supplied callable): ASSUMED not to touch shared cells; but a shared object handed
            # to it may be mutated by it: fail closed
            nm = name or type(e.func).__name__
            self.unknown_callees.setdefault(nm, set()).add(self.site(fn, e))
            allv = set().union(*args) if args else set()
            for v in kw.values():
                allv |= v
            self.mutate_value(fn, allv, e, 'shared object passed to an unknown callee %s(..)' % nm)
            out |= self.elem(allv) | allv
        return self.norm(out)

    def bind_params(self, f2, args, kw, starred, skip_self):
        params = list(f2.params)
        if skip_self and params and f2.deco != 'staticmethod':
            params = params[1:]
        if starred:
            allv = set().union(*args) if args else set()
            for v in kw.values():
                allv |= v
            for p in params:
                self.add(f2.env.setdefault(p, set()), allv)
            if f2.vararg:
                self.add(f2.env.setdefault(f2.vararg, set()), self.wrap(allv))
            if f2.kwarg:
                self.add(f2.env.setdefault(f2.kwarg, set()), self.wrap(allv))
            return
        for i, a in enumerate(args):
            if i < len(params):
                self.add(f2.env.setdefault(params[i], set()), a)
            elif f2.vararg:
                self.add(f2.env.setdefault(f2.vararg, set()), self.wrap(a))
        for k, v in kw.items():
            if k in f2.params:
                self.add(f2.env.setdefault(k, set()), v)
            elif f2.kwarg:
                self.add(f2.env.setdefault(f2.kwarg, set()), self.wrap(v))

    def call_func(self, fn, f2, args, kw, node, bound_self=False, starred=False):
        self.rec_call(fn, f2.fid)
        is_method = f2.cls is not None and f2.deco != 'staticmethod'
        if f2.deco == 'classmethod' and f2.params:
            self.add(f2.env.setdefault(f2.params[0], set()), {('C', f2.cls.idx)} | ({('T', f2.cls.cell.idx, 0, 0)} if f2.cls.cell else set()))
            self.bind_params(f2, args, kw, starred, skip_self=True)
        elif bound_self and is_method:
            self.bind_params(f2, args, kw, starred, skip_self=True)
        else:
            self.bind_params(f2, args, kw, starred, skip_self=False)

    def construct(self, fn, k, args, kw, node, starred):
        init = self.find_method(k, '__init__')
        if self.find_method(k, '__new__') is not None:
            raise TranslateError('%s: cannot translate class with __new__: %s' % (self.site(fn, node), k.name))
        if init is not None:
            self.call_func(fn, init, args, kw, node, bound_self=True, starred=starred)
        return set()

    def find_method(self, k, name, seen=None):
        seen = seen or set()
        if k.idx in seen:
            return None
        seen.add(k.idx)
        if name in k.methods:
            return k.methods[name]
        for b in k.bases:
            bn = b.split('.')[-1]
            for k2 in self.classes:
                if k2.name == bn:
                    r = self.find_method(k2, name, seen)
                    if r is not None:
                        return r
        return None

    def method_call(self, fn, recv, name, e, args, kw, starred):
        out = set()
        allargs = set().union(*args) if args else set()
        for v in kw.values():
            allargs |= v
        if name in MUTATORS:
            self.mutate_value(fn, recv, e, 'mutating method .%s() on a shared object' % name)
            if name not in ('pop', 'popitem', 'remove', 'clear', 'sort', 'reverse', 'discard', 'popleft', 'write', 'writelines', 'seek', 'truncate',
                            'close', 'flush', 'read', 'readline', 'next', '__next__'):
                stored = self.wrap(allargs) if name not in ('extend', 'update', '__iadd__', 'extendleft') else (self.wrap(self.elem(allargs)) | allargs)
                self.store_into(fn, e.func.value, stored)
        targets = list(self.methods_by_name.get(name, []))
        for f2 in targets:
            if f2.deco == 'property':
                continue
            if f2.params and f2.deco not in ('staticmethod', 'classmethod'):
                self.add(f2.env.setdefault(f2.params[0], set()), {v for v in recv if v[0] == 'T'})
            self.call_func(fn, f2, args, kw, e, bound_self=True, starred=starred)
            out |= f2.ret
        # a function-valued attribute (self.polymorphic_join = self.join_by_delim) or class-valued one
        fv = {v for v in self.attr.get(name, set()) | self.attr.get('*', set()) if v[0] in ('F', 'B', 'C')}
        for v in recv:
            if v[0] == 'C':                                       # Cls.method(..) / Cls.attr(..)
                m2 = self.find_method(self.classes[v[1]], name)
                if m2 is not None:
                    fv.add(('F', m2.fid))
        if fv:
            out |= self.call_value(fn, fv, e, args, kw, starred, name='.' + name)
        # builtin-method rules for the result
        if name in COPY_METHODS:
            out |= self.copy(recv)
        elif name in ELEM_METHODS:
            out |= self.elem(recv)
            if name in ('get', 'pop', 'setdefault'):
                out |= allargs
        elif name in SCALAR_METHODS or name in MUTATORS:
            pass
        elif not targets and not fv:
            # a method that is neither defined in the translated classes nor known: of a caller-supplied / library object.
            self.unknown_callees.setdefault('.' + name, set()).add(self.site(fn, e))
            tv = {v for v in recv if v[0] == 'T'}
            out |= self.elem(tv) | tv | self.elem(allargs) | allargs
            self.mutate_value(fn, {v for v in recv if v[0] == 'T' and self.cells[v[1]].kind not in ('func', 'class')}, e,
                              'unknown method .%s() on a shared object' % name)
            self.mutate_value(fn, allargs, e, 'shared object passed to an unknown method .%s(..)' % name)
        return self.norm(out)

    def store_into(self, fn, target, vals):
        """a value is placed inside the container / object denoted by `target`"""
        vals = self.norm(vals)
        if not vals:
            return
        if isinstance(target, ast.Name):
            r = self.lookup(fn, target.id)
            if r and r[0] == 'local':
                self.add(r[1].env.setdefault(target.id, set()), vals)
            elif r and r[0] == 'cell':
                self.add(r[1].val, vals)
        elif isinstance(target, ast.Attribute):
            self.add(self.attr.setdefault(target.attr, set()), vals)
            base = self.ev(fn, target.value)
            for v in base:
                if v[0] == 'MOD':
                    r = self.lookup_global(v[1], target.attr)
                    if r and r[0] == 'cell':
                        self.add(r[1].val, vals)
        elif isinstance(target, ast.Subscript):
            self.store_into(fn, target.value, self.wrap(vals))
        elif isinstance(target, ast.Starred):
            self.store_into(fn, target.value, vals)
        # anything else: a temporary

    def builtin_call(self, fn, name, e, args, kw):
        allv = set().union(*args) if args else set()
        for v in kw.values():
            allv |= v
        self.externals.setdefault(name, set()).add(self.site(fn, e))
        if name in ('globals',):
            return {('T', self.cell_by_name[fn.module + '.__dict__'].idx, 0, 0)}
        if name == 'locals' or (name == 'vars' and not args):
            if fn.kind == 'module':
                return {('T', self.cell_by_name[fn.module + '.__dict__'].idx, 0, 0)}
            out = set()
            for sc in self.scope_chain(fn):
                if sc.kind == 'module':
                    break
                for vs in sc.env.values():
                    out |= vs
            return self.wrap(out)
        if name == 'vars':
            return self.load_attr(fn, args[0], '__dict__', e)
        if name in ('exec', 'eval'):
            return self.exec_call(fn, name, e, args)
        if name in ('setattr', 'delattr'):
            if not args:
                raise TranslateError('%s: cannot translate %s call' % (self.site(fn, e), name))
            self.mutate_value(fn, args[0], e, '%s() on a shared object' % name, explicit=True)
            self.attr_store(fn, {v for v in args[0] if v[0] in ('C', 'F', 'B')}, '<%s>' % name, set(), e)
            for v in args[0]:
                if v[0] == 'MOD':
                    self.write(fn, self.cell_by_name[v[1] + '.__dict__'].idx, 'W', e, '%s() on module %s' % (name, v[1]))
                if v[0] == 'EXT':
                    self.write(fn, self.new_cell('ext:' + v[1], 'unknown', INF, self.site(fn, e)).idx, 'W', e, '%s() on external module' % name)
            if name == 'setattr' and len(args) >= 3:
                an = e.args[1].value if isinstance(e.args[1], ast.Constant) and isinstance(e.args[1].value, str) else '*'
                self.add(self.attr.setdefault(an, set()), args[2])
            return set()
        if name == 'getattr':
            if len(e.args) >= 2 and isinstance(e.args[1], ast.Constant) and isinstance(e.args[1].value, str):
                out = self.load_attr(fn, args[0], e.args[1].value, e)
            else:
                out = set()
                for vs in self.attr.values():
                    out |= vs
                out |= self.elem(args[0])
            return self.norm(out | (args[2] if len(args) > 2 else set()))
        if name == 'type' and len(args) == 1:
            return self.load_attr(fn, args[0] | {('X',)}, '__class__', e)
        if name == 'super':
            return set(fn.env.get(fn.params[0], ())) if fn.params else set()
        if name in ('__import__',):
            raise TranslateError('%s: cannot translate dynamic import' % self.site(fn, e))
        # function-valued arguments of map / filter / sorted(key=) / min / max: they are called with elements of the other arguments
        fvals = {v for v in allv if v[0] in ('F', 'B', 'C')} if (name in BUILTIN_COPY or name in BUILTIN_ELEM or name not in BUILTIN_SCALAR) else set()
        if name[:1].isupper():
            fvals = set()
        if fvals:
            data = {v for v in allv if v[0] == 'T'}
            self.call_value(fn, fvals, e, [self.elem(data) | data], {}, True, name=name)
        if name in BUILTIN_COPY:
            r = self.copy(allv)
            if name in ('map', 'filter'):
                for v in fvals:
                    if v[0] in ('F', 'B'):
                        r |= self.wrap(self.funcs[v[1]].ret)
            return self.norm(r)
        if name in BUILTIN_ELEM:
            return self.norm(self.elem(allv) | allv)
        if name in BUILTIN_SCALAR or (name in BUILTIN_NAMES and name[:1].isupper()):     # exception classes
            return set()
        if name in BUILTIN_NAMES:
            self.mutate_value(fn, allv, e, 'shared object passed to builtin %s(..) (not in the read-only list)' % name)
            return self.norm(self.elem(allv) | allv)
        raise TranslateError('%s: cannot resolve callee %r' % (self.site(fn, e), name))

    def exec_call(self, fn, name, e, args):
        site = self.site(fn, e)
        if name == 'eval' or len(e.args) < 2:
            raise TranslateError('%s: cannot translate %s without explicit namespaces' % (site, name))
        if fn.is_exec:
            raise TranslateError('%s: exec inside generated code' % site)
        if (fn, e.lineno) not in self.exec_sites:
            self.exec_sites.append((fn, e.lineno))
            self.changed = True
        if len(e.args) == 2 or any(v[0] == 'T' and v[3] == 0 for v in args[2]):
            # the top-level bindings of the executed code land in the namespace given: a shared dict
            tgt = args[1] if len(e.args) == 2 else args[2]
            self.mutate_value(fn, tgt, e, 'exec() binds the top-level names of the executed code in a shared namespace')
        for g in self.generated:
            self.rec_call(fn, g.fid)
            g.exec_parent = fn
        return set()

    REFLECTION = ('importlib', 'sys.modules', 'sys._getframe', 'gc', 'inspect', 'ctypes', 'builtins', '__builtin__', 'pickle', 'marshal', 'runpy', 'pkgutil',
                  'imp', 'types', 'weakref', 'threading', 'multiprocessing', 'atexit', 'signal', 'sys.settrace', 'sys.setprofile')

    def check_reflection(self, fn, name, node):
        for r in self.REFLECTION:
            if name == r or name.startswith(r + '.'):
                raise TranslateError('%s: cannot translate use of %s (reflection / process-wide machinery: it can reach every shared cell)' % (self.site(fn, node), name))

    def ext_call(self, fn, name, e, args, kw):
        """a function of a module outside the five"""
        self.check_reflection(fn, name, e)
        root0 = name.rsplit('.', 1)[0]
        if name not in EXT_MUTATE_FIRST and root0 not in READONLY_EXT and root0.split('.')[0] not in READONLY_EXT and '.' in name:
            raise TranslateError('%s: cannot translate call of %s: module %s is not in the list of external modules whose functions are known '
                                 'not to hand out or mutate shared objects (READONLY_EXT)' % (self.site(fn, e), name, root0))
        self.externals.setdefault(name, set()).add(self.site(fn, e))
        allv = set().union(*args) if args else set()
        for v in kw.values():
            allv |= v
        root = name.rsplit('.', 1)[0]
        if name in EXT_MUTATE_FIRST:
            if args:
                self.mutate_value(fn, args[0], e, 'external %s(..) mutates its first argument' % name)
                self.store_into(fn, e.args[0], self.wrap(set().union(*args[1:]) if len(args) > 1 else set()))
        elif name in ('copy.deepcopy',):
            return set()
        elif root not in READONLY_EXT and root.split('.')[0] not in READONLY_EXT:
            self.mutate_value(fn, allv, e, 'shared object passed to external %s(..) (module not in the read-only list)' % name)
        fvals = {v for v in allv if v[0] in ('F', 'B', 'C')}
        if fvals:
            data = {v for v in allv if v[0] == 'T'}
            self.call_value(fn, fvals, e, [self.elem(data) | data], {}, True, name=name)
        if name in ('copy.copy',) or name.split('.')[-1] in ('OrderedDict', 'defaultdict', 'deque', 'Counter', 'nsmallest', 'nlargest', 'chain', 'islice', 'groupby'):
            return self.copy(allv)
        if root in ('re', 'os', 'os.path', 'math', 'time', 'datetime', 'json', 'traceback', 'codecs', 'io', 'sys', 'errno', 'string'):
            return set()
        tv = {v for v in allv if v[0] == 'T'}
        return self.norm(self.elem(tv) | tv | self.copy(tv))

    # ------------------------------------------------------------------------------------------------ statements
    def bind(self, fn, t, vals, node):
        """t (a target expression) is bound to a value"""
        vals = self.norm(vals)
        if isinstance(t, ast.Name):
            if t.id in fn.globals_decl or (fn.kind == 'module' and not fn.is_exec):
                r = self.lookup_global(fn.module, t.id)
                if r is None or r[0] != 'cell':
                    c = self.new_cell('%s.%s' % (fn.module, t.id), 'unknown', INF, self.site(fn, node))
                    self.mod_bind[fn.module][t.id] = ('cell', c)
                else:
                    c = r[1]
                self.add(c.val, vals)
                if fn.kind != 'module':
                    self.write(fn, c.idx, 'W', node, 'global %s rebound' % t.id)
                    self.generalise(c)
                return
            r = self.lookup(fn, t.id)
            if r and r[0] == 'local':
                self.add(r[1].env.setdefault(t.id, set()), vals)
            elif fn.is_exec:
                self.add(fn.env.setdefault(t.id, set()), vals)
            else:
                raise TranslateError('%s: cannot resolve assignment target %r' % (self.site(fn, node), t.id))
        elif isinstance(t, (ast.Tuple, ast.List)):
            for x in t.elts:
                self.bind(fn, x, self.elem(vals), node)
        elif isinstance(t, ast.Starred):
            self.bind(fn, t.value, self.wrap(vals), node)
        elif isinstance(t, ast.Attribute):
            base = self.ev(fn, t.value)
            self.attr_store(fn, base, t.attr, vals, node)
        elif isinstance(t, ast.Subscript):
            base = self.ev(fn, t.value)
            self.ev(fn, t.slice)
            self.mutate_value(fn, base, node, 'item store / delete on a shared object', explicit=True)
            self.store_into(fn, t.value, self.wrap(vals) if not isinstance(t.slice, ast.Slice) else vals)
        else:
            raise TranslateError('%s: cannot translate assignment target %s' % (self.site(fn, node), type(t).__name__))

    def attr_store(self, fn, base, name, vals, node):
        for v in base:
            if v[0] == 'MOD':
                r = self.lookup_global(v[1], name)
                if r and r[0] == 'cell':
                    c = r[1]
                else:
                    c = self.cell_by_name[v[1] + '.__dict__']
                self.add(c.val, vals)
                self.write(fn, c.idx, 'W', node, 'attribute store on module %s: .%s' % (v[1], name))
                self.generalise(c)
            elif v[0] == 'EXT':
                c = self.new_cell('ext:%s.%s' % (v[1], name), 'unknown', INF, self.site(fn, node))
                self.write(fn, c.idx, 'W', node, 'attribute store on external module %s: .%s' % (v[1], name))
            elif v[0] == 'C':
                k = self.classes[v[1]]
                if k.shared:
                    c = k.attr_cells.get(name, k.cell)
                    if fn.kind != 'module' or fn.is_exec:
                        self.write(fn, c.idx, 'W', node, 'attribute store on class object %s: .%s' % (k.name, name))
                        self.generalise(c)
            elif v[0] in ('F', 'B'):
                fc = self.cell_by_name.get(self.funcs[v[1]].qname)
                if fc is not None and (fn.kind != 'module' or fn.is_exec):
                    self.write(fn, fc.idx, 'W', node, 'attribute store on function object %s: .%s' % (self.funcs[v[1]].qname, name))
        tv = {v for v in base if v[0] == 'T'}
        if fn.kind == 'module' and not fn.is_exec:
            pass                                            # import-time initialisation (f.attr = .., Cls.x = ..) is not a query
        else:
            self.mutate_value(fn, tv, node, 'attribute store / delete .%s on a shared object' % name, explicit=True)
        self.add(self.attr.setdefault(name, set()), vals)

    def stmts(self, fn, body):
        for st in body:
            m = getattr(self, 'st_' + type(st).__name__, None)
            if m is None:
                raise TranslateError('%s: cannot translate statement %s' % (self.site(fn, st), type(st).__name__))
            m(fn, st)

    def st_Expr(self, fn, st):
        self.ev(fn, st.value)

    def st_Assign(self, fn, st):
        v = self.ev(fn, st.value)
        for t in st.targets:
            self.bind(fn, t, v, st)

    def st_AnnAssign(self, fn, st):
        if st.value is not None:
            self.bind(fn, st.target, self.ev(fn, st.value), st)

    def st_AugAssign(self, fn, st):
        v = self.ev(fn, st.value)
        load = ast.copy_location(type(st.target)(**{k: getattr(st.target, k) for k in st.target._fields if k != 'ctx'}, ctx=ast.Load()), st.target)
        cur = self.ev(fn, load)
        self.mutate_value(fn, cur, st, 'augmented assignment (in-place operator) on a shared object')
        self.bind(fn, st.target, self.copy(cur | v) | cur, st)

    def st_Delete(self, fn, st):
        for t in st.targets:
            if isinstance(t, ast.Name):
                if t.id in fn.globals_decl:
                    self.bind(fn, t, set(), st)
            elif isinstance(t, ast.Attribute):
                self.attr_store(fn, self.ev(fn, t.value), t.attr, set(), st)
            elif isinstance(t, ast.Subscript):
                self.ev(fn, t.slice)
                self.mutate_value(fn, self.ev(fn, t.value), st, 'item store / delete on a shared object', explicit=True)
            else:
                raise TranslateError('%s: cannot translate del target' % self.site(fn, st))

    def st_Return(self, fn, st):
        if st.value is not None:
            self.add(fn.ret, self.ev(fn, st.value))

    def st_If(self, fn, st):
        tv = self.ev(fn, st.test)
        g = None
        if self.guard is None and isinstance(st.test, (ast.Name, ast.Attribute)) and dotted(st.test):
            # `if <module-level flag>:` - the body is recorded under the guard (Shared.v SGuard)
            r = None
            if isinstance(st.test, ast.Name):
                r = self.lookup(fn, st.test.id)
            else:
                b = self.ev(fn, st.test.value)
                if len(b) == 1 and list(b)[0][0] == 'MOD':
                    r = self.lookup_global(list(b)[0][1], st.test.attr)
            if r is not None and r[0] == 'cell' and r[1].init_kind == 'const':
                g = r[1].idx
        if g is not None:
            self.guard = g
            try:
                self.stmts(fn, st.body)
            finally:
                self.guard = None
        else:
            self.stmts(fn, st.body)
        self.stmts(fn, st.orelse)

    def st_While(self, fn, st):
        self.ev(fn, st.test)
        self.stmts(fn, st.body)
        self.stmts(fn, st.orelse)

    def st_For(self, fn, st):
        it = self.ev(fn, st.iter)
        self.bind(fn, st.target, self.elem(it), st)
        self.stmts(fn, st.body)
        self.stmts(fn, st.orelse)
    st_AsyncFor = st_For

    def st_With(self, fn, st):
        for it in st.items:
            v = self.ev(fn, it.context_expr)
            if it.optional_vars is not None:
                self.bind(fn, it.optional_vars, v | self.elem({x for x in v if x[0] == 'T'}), st)
        self.stmts(fn, st.body)
    st_AsyncWith = st_With

    def st_Try(self, fn, st):
        self.stmts(fn, st.body)
        for h in st.handlers:
            if h.type is not None:
                self.ev(fn, h.type)
            self.stmts(fn, h.body)
        self.stmts(fn, st.orelse)
        self.stmts(fn, st.finalbody)
    st_TryStar = st_Try

    def st_Raise(self, fn, st):
        self.evs(fn, [st.exc, st.cause])

    def st_Assert(self, fn, st):
        self.evs(fn, [st.test, st.msg])

    def st_Pass(self, fn, st):
        pass
    st_Break = st_Continue = st_Global = st_Nonlocal = st_Pass

    def st_Import(self, fn, st):
        for a in st.names:
            nm = a.asname or a.name.split('.')[0]
            if fn.kind == 'module' and not fn.is_exec:
                continue
            self.externals.setdefault('import ' + a.name, set()).add(self.site(fn, st))
            val = {('EXT', a.name if a.asname else a.name.split('.')[0])}
            if nm in fn.globals_decl:
                self.bind(fn, ast.Name(id=nm, ctx=ast.Store()), set(), st)
            else:
                self.add(fn.env.setdefault(nm, set()), val)

    def st_ImportFrom(self, fn, st):
        if fn.kind == 'module' and not fn.is_exec:
            return
        for a in st.names:
            nm = a.asname or a.name
            if st.level >= 1:
                if st.module is None and a.name in MODULES:
                    val = {('MOD', a.name)}
                elif st.module in MODULES:
                    val = self.load_attr(fn, {('MOD', st.module)}, a.name, st)
                else:
                    raise TranslateError('%s: relative import outside the translated set' % self.site(fn, st))
            else:
                val = {('EXT', '%s.%s' % (st.module, a.name))}
                self.externals.setdefault('import %s.%s' % (st.module, a.name), set()).add(self.site(fn, st))
            self.add(fn.env.setdefault(nm, set()), val)

    def st_FunctionDef(self, fn, st):
        f2 = self.func_of_node[id(st)]
        if f2.cls is None and not (fn.kind == 'module' and not fn.is_exec):
            self.add(fn.env.setdefault(st.name, set()), {('F', f2.fid)})
            if st.name in fn.globals_decl:
                self.bind(fn, ast.Name(id=st.name, ctx=ast.Store()), {('F', f2.fid)}, st)
        # default values are evaluated here, in the defining scope
        for p, d in f2.defaults:
            v = self.ev(fn, d)
            c = f2.default_cells.get(p)
            if c is not None:
                self.add(c.val, v)
                v = v | {('T', c.idx, 0, 0)}
            self.add(f2.env.setdefault(p, set()), v)
    st_AsyncFunctionDef = st_FunctionDef

    def st_ClassDef(self, fn, st):
        k = self.class_of_node[id(st)]
        self.evs(fn, st.bases)
        if not (fn.kind == 'module' and not fn.is_exec) and not k.shared:
            self.add(fn.env.setdefault(st.name, set()), {('C', k.idx)})
        for s2 in st.body:
            if isinstance(s2, (ast.FunctionDef, ast.AsyncFunctionDef)):
                self.st_FunctionDef(fn, s2)
            elif isinstance(s2, ast.ClassDef):
                self.st_ClassDef(fn, s2)
            elif isinstance(s2, (ast.Assign, ast.AnnAssign)) and all(isinstance(t, ast.Name) for t in (s2.targets if isinstance(s2, ast.Assign) else [s2.target])):
                if s2.value is None:
                    continue
                v = self.ev(fn, s2.value)
                for t in (s2.targets if isinstance(s2, ast.Assign) else [s2.target]):
                    c = k.attr_cells.get(t.id)
                    if c is not None:
                        self.add(c.val, v)
                    else:
                        self.add(self.attr.setdefault(t.id, set()), v)
            elif isinstance(s2, (ast.Expr, ast.Pass)):
                if isinstance(s2, ast.Expr):
                    self.ev(fn, s2.value)
            else:
                raise TranslateError('%s: cannot translate class-body statement %s' % (self.site(fn, s2), type(s2).__name__))

    # ------------------------------------------------------------------------------------------------ driver
    def analyse_func(self, fn):
        if fn.kind == 'lambda':
            self.add(fn.ret, self.ev(fn, fn.node.body))
        elif fn.kind == 'module':
            self.stmts(fn, fn.node.body)
        else:
            self.stmts(fn, fn.node.body)

    def add_generated(self, items):
        for name, q, code in items:
            try:
                tree = ast.parse(code, '<main loop %s>' % name)
            except SyntaxError as e:
                raise TranslateError('generated main loop for %r does not parse: %s' % (q, e))
            g = self.new_func('<main loop:%s>' % name, tree, 'rbql_engine', None, kind='module')
            g.is_exec = True
            g.query = q
            g.exec_parent = None
            self.compute_locals(g, tree.body)
            self.declare_block(g, tree.body, None, False)
            self.generated.append(g)

    def run(self):
        rounds = 0
        while True:
            rounds += 1
            self.changed = False
            self.unknown_callees.clear()             # (reporting only: what the LAST round could not resolve)
            self.externals.clear()
            for fn in list(self.funcs):
                self.analyse_func(fn)
            if not self.changed:
                break
            if rounds > 60:
                raise TranslateError('the analysis does not reach a fixpoint after 60 rounds')
        self.rounds = rounds
        if not self.exec_sites:
            raise TranslateError('no exec() of the generated main loop found in the translated modules: the generated code cannot be linked')


def load_python_engine():
    pkg_root = os.path.join(REPO, 'rbql-py')
    for k in [k for k in sys.modules if k == 'rbql' or k.startswith('rbql.')]:
        del sys.modules[k]
    sys.path.insert(0, pkg_root)
    try:
        sys.dont_write_bytecode = True
        mod = importlib.import_module('rbql.rbql_engine')
    finally:
        sys.path.remove(pkg_root)
    if not os.path.abspath(mod.__file__).startswith(os.path.abspath(pkg_root)):
        raise TranslateError('imported rbql_engine from %s, not from %s' % (mod.__file__, pkg_root))
    return mod


def generated_python():
    E = load_python_engine()
    out = []
    for name, q, join in PROGRAMS:
        try:
            it = E.TableIterator([['1', 'x;y', '3'], ['2', 'z', '4']], None, True)
            wr = E.TableWriter([])
            reg = None
            if join:
                reg = E.ListTableRegistry([E.ListTableInfo('b', [['1', 'p'], ['2', 'q']], None)], True)
            ctx = E.RBQLContext(it, wr, '')
            E.shallow_parse_input_query(q, it, reg, ctx)
            code = E.generate_main_loop_code(ctx)
        except Exception as e:                       # noqa: BLE001
            raise TranslateError('%s: the code generator failed for query %r: %s: %s' % (E.__file__, q, type(e).__name__, e))
        out.append((name, q, code))
    return out


ENTRY_FUNCS = [('rbql_engine', 'query'), ('rbql_engine', 'query_table'), ('rbql_engine', 'exception_to_error_info'), ('rbql_csv', 'query_csv'),
               ('rbql_pandas', 'query_dataframe'), ('rbql_sqlite', 'query_sqlite_to_csv')]


def entry_points(A):
    named, others = [], []
    byq = {f.qname: f for f in A.funcs}
    for m, n in ENTRY_FUNCS:
        f = byq.get('%s.%s' % (m, n))
        if f is None:
            raise TranslateError('%s.py: public entry point %s not found' % (m, n))
        named.append(f)
    for k in A.classes:
        for mn, f in sorted(k.methods.items()):
            if (k.shared and re.search(r'(Iterator|Writer|Registry)$', k.name)) or (mn.startswith('__') and mn.endswith('__')):
                if f not in named and f not in others:
                    others.append(f)
    return named, others


def live(f, off, what):
    """the effects of f that are not under a guard assumed off: dict / set merged"""
    base = getattr(f, what)
    guarded = getattr(f, 'g_' + what)
    if isinstance(base, dict):
        out = {k: set(v) for k, v in base.items()}
        for g, d in guarded.items():
            if g not in off:
                for k, v in d.items():
                    out.setdefault(k, set()).update(v)
        return out
    out = set(base)
    for g, d in guarded.items():
        if g not in off:
            out |= d
    return out


def reach(A, f, off):
    seen = {f.fid}
    stack = [f]
    while stack:
        x = stack.pop()
        for c in sorted(live(x, off, 'calls')):
            if c not in seen:
                seen.add(c)
                stack.append(A.funcs[c])
    return sorted(seen)


def coq_ident(s):
    return re.sub(r'[^A-Za-z0-9_]', '_', s)


def comment(s):
    return s.replace('(*', '( *').replace('*)', '* )')


def main():
    if len(sys.argv) != 2:
        print('usage: translate_shared.py <out_dir>', file=sys.stderr)
        return 2
    outdir = sys.argv[1]
    os.makedirs(outdir, exist_ok=True)
    A = Analyzer()
    try:
        A.load()
        A.add_generated(generated_python())
        A.run()
        named, others = entry_points(A)
    except TranslateError as e:
        print('translate_shared: REFUSED (cannot translate): %s' % e, file=sys.stderr)
        return 2
    except RecursionError:
        print('translate_shared: REFUSED (cannot translate): expression nesting too deep', file=sys.stderr)
        return 2
    cells, funcs = A.cells, A.funcs
    guards = sorted({g for f in funcs for d in (f.g_reads, f.g_writes, f.g_calls) for g in d})
    off = [g for g in guards if cells[g].init_false]
    facts = {'repo': REPO, 'rounds': A.rounds, 'obligations': [], 'theorems': []}
    facts['flags_assumed_off'] = [{'cell': cells[g].name, 'site': cells[g].site, 'why': 'every module-level binding is the literal False / None / 0; used as `if <flag>:`'} for g in off]
    facts['flags_not_assumed_off'] = [cells[g].name for g in guards if g not in off]
    facts['cells'] = [{'idx': c.idx, 'name': c.name, 'kind': c.kind, 'mutable_depth': c.m, 'site': c.site} for c in cells]
    fl = []
    for f in funcs:
        fl.append({'fid': f.fid, 'name': f.qname, 'site': f.site, 'reads': sorted(cells[c].name for c in f.reads),
                   'writes': [{'cell': cells[c].name, 'how': 'rebind' if how == 'W' else 'mutate', 'sites': sorted('%s: %s' % x for x in sites)}
                              for (c, how), sites in sorted(f.writes.items())],
                   'calls': sorted(funcs[c].qname for c in f.calls),
                   'guarded': {cells[g].name: {'reads': sorted(cells[c].name for c in f.g_reads.get(g, ())),
                                               'writes': sorted(cells[c].name for (c, _h) in f.g_writes.get(g, {})),
                                               'calls': sorted(funcs[c].qname for c in f.g_calls.get(g, ()))}
                               for g in sorted(set(f.g_reads) | set(f.g_writes) | set(f.g_calls))}})
    facts['functions'] = fl
    ent = []
    all_writes = {}
    for f in named + others:
        R = reach(A, f, off)
        ws, rs = {}, set()
        for fid in R:
            g = funcs[fid]
            rs |= {cells[c].name for c in live(g, off, 'reads')}
            for (c, how), sites in live(g, off, 'writes').items():
                ws.setdefault(cells[c].name, []).extend('%s in %s: %s' % (x[0], g.qname, x[1]) for x in sorted(sites))
        for k, v in ws.items():
            all_writes.setdefault(k, [])
            for x in v:
                if x not in all_writes[k]:
                    all_writes[k].append(x)
        ent.append({'fid': f.fid, 'name': f.qname, 'named': f in named, 'reachable_functions': len(R), 'write_set': {k: sorted(set(v)) for k, v in sorted(ws.items())},
                    'read_set': sorted(rs)})
    facts['entries'] = ent
    facts['write_set_all_entries'] = {k: v for k, v in sorted(all_writes.items())}
    facts['writes_outside_entries'] = sorted({cells[c].name for f in funcs for (c, _h) in live(f, [], 'writes')} - set(all_writes))
    facts['externals'] = {k: sorted(v)[:6] for k, v in sorted(A.externals.items())}
    facts['unknown_callees'] = {k: sorted(v)[:6] for k, v in sorted(A.unknown_callees.items())}
    facts['generated_programs'] = [{'name': g.qname, 'query': g.query} for g in A.generated]
    facts['exec_sites'] = ['%s:%d' % (f.qname, ln) for f, ln in A.exec_sites]
    facts['stats'] = {'cells': len(cells), 'functions': len(funcs), 'classes': len(A.classes), 'entries': len(ent), 'named_entries': len(named),
                      'read_effects': sum(len(f.reads) for f in funcs), 'call_edges': sum(len(f.calls) for f in funcs),
                      'write_effects': sum(len(f.writes) for f in funcs), 'mutable_cells': sum(1 for c in cells if c.kind in ('container', 'instance', 'unknown'))}

    v = ['(* SharedFacts.v - GENERATED by harness/translate_shared.py from %s on every check run.  Not committed. *)' % REPO,
         'From Coq Require Import List NArith.', 'Import ListNotations.', 'From RBQL Require Import Base Isolation Shared Shared_Proofs.', 'From RBQL.Props Require Import C16.', '',
         '(* cells: ' + comment('; '.join('%d = %s [%s]' % (c.idx, c.name, c.kind) for c in cells)) + ' *)', '']
    v.append('Definition prog_py : prog := [')
    rows = []
    for f in funcs:
        def effects(reads, calls, writes):
            out = ['SRead %d%%N %d%%N' % (c, c) for c in sorted(reads)]
            out += ['SCall %d%%N' % c for c in sorted(calls)]
            out += ['%s %d%%N %d%%N' % ('SWrite' if how == 'W' else 'SMutate', c, c) for (c, how) in sorted(writes)]
            return out
        effs = effects(f.reads, f.calls, f.writes)
        for g in sorted(set(f.g_reads) | set(f.g_writes) | set(f.g_calls)):
            effs.append('SGuard %d%%N (star [%s])' % (g, '; '.join(effects(f.g_reads.get(g, ()), f.g_calls.get(g, ()), f.g_writes.get(g, {})))))
        rows.append('  (* %s *)\n  (%d%%N, star [%s])' % (comment(f.qname), f.fid, '; '.join(effs)))
    v.append(';\n'.join(rows))
    v.append('].')
    v.append('')
    v.append('Definition entries_py : list fid := [%s].' % '; '.join('%d%%N' % f.fid for f in named + others))
    v.append('(* shared flags assumed false in the initial store: %s *)' % comment(', '.join(cells[g].name for g in off) or 'none'))
    v.append('Definition off_py : list cell := [%s].' % '; '.join('%d%%N' % g for g in off))
    v.append('')
    evals, thms = [], []
    evals.append(('gen_shared_isolated', 'forallb (isolated off_py prog_py) entries_py'))
    thms.append('Theorem gen_shared_isolated : forallb (isolated off_py prog_py) entries_py = true.\nProof. vm_compute. reflexivity. Qed.\nPrint Assumptions gen_shared_isolated.')
    for f in named:
        nm = 'gen_shared_isolated_' + coq_ident(f.qname)
        evals.append((nm, 'isolated off_py prog_py %d%%N' % f.fid))
        thms.append('Theorem %s : isolated off_py prog_py %d%%N = true /\\ write_set off_py prog_py %d%%N = [].\nProof. vm_compute. split; reflexivity. Qed.\nPrint Assumptions %s.' % (nm, f.fid, f.fid, nm))
    sem = '(P V Y : Type) (rd : N -> V -> P -> option P) (loc : N -> P -> option P) (tst : N -> P -> bool) (wr : N -> P -> V) (mu : N -> V -> P -> V) (out : N -> P -> Y) (truthy : V -> bool)'
    app = 'P V Y rd loc tst wr mu out truthy prog_py'
    flg = '(forall c, mem c off_py = true -> truthy (g c) = false)'
    thms.append('Lemma gen_entry_isolated : forall e, In e entries_py -> isolated off_py prog_py e = true.\n'
                'Proof. intros e H. exact (proj1 (forallb_forall (isolated off_py prog_py) entries_py) gen_shared_isolated e H). Qed.')
    thms.append('Theorem gen_shared_noninterference : forall %s e1 e2, In e1 entries_py -> In e2 entries_py ->\n'
                '  forall (sched : list bool) (g : cell -> V) (p1 p2 : P), %s ->\n'
                '  run2 %s sched g (start P Y e1 p1) (start P Y e2 p2) =\n'
                '  (g, snd (solo %s (count_true sched) g (start P Y e1 p1)), snd (solo %s (count_false sched) g (start P Y e2 p2))).\n'
                'Proof. intros P V Y rd loc tst wr mu out truthy e1 e2 H1 H2. exact (C16_ir_interleaving P V Y rd loc tst wr mu out truthy prog_py off_py e1 e2 (gen_entry_isolated e1 H1) (gen_entry_isolated e2 H2)). Qed.\n'
                'Print Assumptions gen_shared_noninterference.' % (sem, flg, app, app, app))
    thms.append('Theorem gen_shared_history : forall %s (qs : list (fid * P * nat)),\n'
                '  (forall q, In q qs -> In (fst (fst q)) entries_py) -> forall g : cell -> V, %s ->\n'
                '  run_hist %s g qs = (g, map (solo_result %s g) qs).\n'
                'Proof. intros P V Y rd loc tst wr mu out truthy qs H. exact (C16_ir_history P V Y rd loc tst wr mu out truthy prog_py off_py qs (fun q Hq => gen_entry_isolated _ (H q Hq))). Qed.\n'
                'Print Assumptions gen_shared_history.' % (sem, flg, app, app))
    thms.append('Theorem gen_shared_store_unchanged : forall %s e, In e entries_py -> forall n g p, %s ->\n'
                '  fst (solo %s n g (start P Y e p)) = g.\n'
                'Proof. intros P V Y rd loc tst wr mu out truthy e H. exact (C16_ir_solo_store P V Y rd loc tst wr mu out truthy prog_py off_py e (gen_entry_isolated e H)). Qed.\n'
                'Print Assumptions gen_shared_store_unchanged.' % (sem, flg, app))
    v.append('(* ---- the value of every obligation, in the order of SharedFacts.json (all must be true) *)')
    for name, term in evals:
        v.append('Eval vm_compute in (%s).' % term)
        facts['obligations'].append(name)
    v.append('')
    v.append('(* ---- the obligations as theorems, and the instantiated corollaries *)')
    v.extend(thms)
    facts['theorems'] = [t for t in re.findall(r'^Theorem (\w+)', '\n'.join(thms), flags=re.M)]
    with open(os.path.join(outdir, 'SharedFacts.v'), 'w') as f:
        f.write('\n'.join(v) + '\n')
    with open(os.path.join(outdir, 'SharedFacts.json'), 'w') as f:
        json.dump(facts, f, indent=1)
    for k, sites in facts['write_set_all_entries'].items():
        print('translate_shared: shared write reachable from an entry point: %s <- %s' % (k, sites[0]), file=sys.stderr)
    return 0


if __name__ == '__main__':
    sys.exit(main())
