(* Static2.v — the ORDER of the checks of shallow_parse_input_query (rbql_engine.py / rbql.js) that are decided before
   the first input record is pulled, over a description of the request (which clauses the query text has, which of its
   names resolve, what the caller handed over): the checks of Engine.static_check (tags 10, 11, 12) plus the ones the
   engine model's query record cannot express - both SELECT and UPDATE, FROM lookup (Python, no bound input), unknown
   column names, column names unusable as variables, JOIN without a registry / with an unknown table, header on one table
   only, unresolvable ON sides, a join record lacking a key field, `=` in WHERE, UPDATE of an unknown field, LIMIT without
   an integer, unknown field in EXCEPT.
   The model is a list of steps (observable calls on the caller's objects, and checks) run in the code's order; the first
   failing check ends the run.  No proofs here (Static2_Proofs.v). *)
From RBQL Require Import Base Value Expr Writers Join Agg Engine.

Inductive port := PPy | PJs.

(* which of SELECT / UPDATE the text contains: one of them, "select .. update ..", "update .. select ..", neither *)
Inductive stmt := SSelect | SUpdate | SBothSU | SBothUS | SNeither.

Record jreq := {
  j_registry : bool;      (* a table registry was handed to query() *)
  j_found : bool;         (* the registry knows the table named after JOIN *)
  j_vars_ok : bool;       (* every b.name / b["name"] of the query is a column of the join header *)
  j_hdr : bool;           (* the join table has a header *)
  j_keys_ok : bool;       (* resolve_join_variables succeeds (JoinVars.v) *)
  j_nb : nat;             (* number of B records *)
  j_short : option nat    (* 1-based number of the first B record lacking a key field *)
}.

Record sreq := {
  r_port : port;
  r_bound : bool;         (* the caller handed over the input iterator (always so in rbql-js) *)
  r_from : option bool;   (* FROM clause of a query without bound input: Some (the registry knows the table) *)
  r_stmt : stmt;
  r_vars_ok : bool;       (* every a.name / a["name"] of the query is a column of the input header *)
  r_names_ok : bool;      (* direct mode: every column name is an identifier *)
  r_hdr : bool;           (* the input table has a header *)
  r_order : bool;
  r_group : bool;
  r_join : option jreq;
  r_where_assign : bool;  (* WHERE text matches [^><!=]=[^=] *)
  r_upd_unknown : bool;   (* an assignment target that is not a variable of the input table *)
  r_limit_bad : bool;     (* LIMIT not followed by an integer *)
  r_except : option bool  (* EXCEPT clause: Some (every listed field is a variable of the input table) *)
}.

(* calls the caller's objects see, in order: registry lookups, get_variables_map of the two iterators, every record pulled
   from the join iterator, the output writer's set_header *)
Inductive sev := ELookA | EVarsA | ELookB | EVarsB | EPullB | ESetHeader.

Inductive step :=
| Emit (e : sev)
| EmitN (n : nat) (e : sev)
| Check (bad : bool) (c : eclass) (tag : N) (nr : nat).

Definition stmt_is_update (s : stmt) : bool := match s with SUpdate => true | _ => false end.
Definition stmt_bad (s : stmt) : bool := match s with SSelect | SUpdate => false | _ => true end.

Definition input_steps (r : sreq) : list step :=
  match r_port r with
  | PJs => []
  | PPy =>
      if r_bound r then []
      else match r_from r with
           | Some found => [Emit ELookA; Check (negb found) CParsing 21 0]
           | None => [Check true CParsing 22 0]
           end
  end.

Definition join_steps (r : sreq) : list step :=
  match r_join r with
  | None => []
  | Some j =>
      [Check (negb (j_registry j)) CParsing 25 0;
       Emit ELookB;
       Check (negb (j_found j)) CParsing 26 0;
       Emit EVarsB;
       Check (negb (j_vars_ok j)) CParsing 33 0;
       Check (xorb (r_hdr r) (j_hdr j)) CIO 27 0;
       Check (negb (j_keys_ok j)) CParsing 34 0]
      ++ match j_short j with
         | Some k => [EmitN k EPullB; Check true CRuntime 28 k]
         | None => [EmitN (j_nb j) EPullB]
         end
  end.

Definition tail_steps (r : sreq) : list step :=
  if stmt_is_update (r_stmt r) then [Check (r_upd_unknown r) CParsing 30 0]
  else [Check (r_limit_bad r) CParsing 31 0;
        Check (match r_except r, r_join r with Some _, Some _ => true | _, _ => false end) CParsing 12 0;
        Check (match r_except r with Some false => true | _ => false end) CParsing 32 0].

(* everything that precedes set_header *)
Definition pre_steps (r : sreq) : list step :=
  [Check (stmt_bad (r_stmt r)) CParsing 20 0]
  ++ input_steps r
  ++ [Emit EVarsA;
      Check (negb (r_names_ok r)) CIO 24 0;
      Check (negb (r_vars_ok r)) CParsing 23 0;
      Check (r_order r && stmt_is_update (r_stmt r)) CParsing 10 0;
      Check (r_group r && (r_order r || stmt_is_update (r_stmt r))) CParsing 11 0]
  ++ join_steps r
  ++ [Check (r_where_assign r) CParsing 29 0]
  ++ tail_steps r.

Definition steps (r : sreq) : list step := pre_steps r ++ [Emit ESetHeader].

Fixpoint run_steps (l : list step) : list sev * option (eclass * N * nat) :=
  match l with
  | [] => ([], None)
  | Emit e :: t => let '(tr, x) := run_steps t in (e :: tr, x)
  | EmitN n e :: t => let '(tr, x) := run_steps t in (repeat e n ++ tr, x)
  | Check bad c tag nr :: t => if bad then ([], Some (c, tag, nr)) else run_steps t
  end.

Definition static2 (r : sreq) : list sev * option (eclass * N * nat) := run_steps (steps r).

(* the class each tag belongs to: a column name that cannot be a variable and a header on one table only are inconsistent
   input / configuration (IO handling); a join record without its key field is a query-execution error naming the B record;
   every other check is about the query text (parsing) *)
Definition class_of_tag (tag : N) : eclass :=
  if (tag =? 24)%N || (tag =? 27)%N then CIO else if (tag =? 28)%N then CRuntime else CParsing.

Definition eclass_eqb (a b : eclass) : bool :=
  match a, b with
  | CParsing, CParsing | CRuntime, CRuntime | CIO, CIO | COther, COther | CUnmodelled, CUnmodelled => true
  | _, _ => false
  end.

Definition step_ok (s : step) : bool :=
  match s with
  | Check _ c tag nr => eclass_eqb c (class_of_tag tag) && ((tag =? 28)%N || Nat.eqb nr 0)
  | Emit e | EmitN _ e => match e with ESetHeader => false | _ => true end
  end.

(* ---- the whole query: the static phase, then (if it passes) the engine model's run ---- *)
Section Query2.
Variable expr : Type.
Variable eval : env -> expr -> res val.

(* the request describes the same query as the engine model's record *)
Definition coherent (r : sreq) (q : query expr) : Prop :=
  r_order r = (match q_order q with Some _ => true | None => false end)
  /\ r_group r = (match q_group q with Some _ => true | None => false end)
  /\ stmt_is_update (r_stmt r) = is_update q /\ stmt_bad (r_stmt r) = false
  /\ (match r_join r, q_join q with Some _, Some _ | None, None => True | _, _ => False end)
  /\ (match r_except r, q_kind q with Some _, QExcept _ => True | None, QExcept _ => False | Some _, _ => False | None, _ => True end).

(* nothing wrong beyond what Engine.static_check knows about *)
Definition clean (r : sreq) : Prop :=
  (r_bound r = true \/ r_port r = PJs \/ r_from r = Some true)
  /\ r_vars_ok r = true /\ r_names_ok r = true
  /\ (match r_join r with
      | Some j => j_registry j = true /\ j_found j = true /\ j_vars_ok j = true /\ j_hdr j = r_hdr r /\ j_keys_ok j = true /\ j_short j = None
      | None => True end)
  /\ r_where_assign r = false /\ r_upd_unknown r = false /\ r_limit_bad r = false /\ r_except r <> Some false.

Definition query2 (w : nat -> bool) (r : sreq) (q : query expr) (hdr : option (list str)) (A B : list rec)
  : list sev * outcome :=
  match static2 r with
  | (tr, Some (c, tag, nr)) => (tr, {| o_chain := chain_init; o_pulls := 0;
                                     o_error := Some (c, nr, match c with CRuntime => XRuntime tag | _ => XParsing tag end) |})
  | (tr, None) => (tr, run eval w q hdr A B)
  end.
End Query2.

Arguments coherent {expr} r q.
Arguments query2 {expr} eval w r q hdr A B.
