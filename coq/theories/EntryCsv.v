(* EntryCsv.v — entry points of the CSV line-dialect area (codes 100-199); None for codes not owned.
   100 smart_split        L [pol; dlm; preserve; L lines]        -> L [ L [L fields; warn; L tags] per line ]   (tags: taken-as-quoted, quoted policies)
   101 split_quoted_general (no fast path)  L [dlm; line; preserve] -> L [L fields; warn]
   110 quote_field        L [lang; rfc; dlm; field]              -> str
   120 write_table        L [lang; pol; dlm; enc; opt header; rows] -> L [L lines; opt L [idx; errkind]; none; delim; opt expected read-back; exactly representable]
                          (read-back is given when no write fails and the table is representable up to CR -> LF in quoted_rfc fields)
   130 representable      L [pol; dlm; fields]                   -> L [representable; line_ok; good_dlm]
   131 table_representable L [pol; dlm; enc; rows of fields]     -> bool
   140 line round trip    L [pol; dlm; fields]                   -> L [line; L fields; warn]  (smart_split of join_line)
   policies: 0 simple, 1 quoted, 2 quoted_rfc, 3 whitespace, 4 monocolumn; lang: 0 py, 1 js
   cells: L [A 0; str] | L [A 1] (None) | L [A 2; Z] | L [A 3; L cells] *)
From RBQL Require Import Base Sx Csv CsvWriter CsvSpec.

Definition pol_of_sx (x : sx) : option policy :=
  match x with
  | A 0%N => Some Simple | A 1%N => Some Quoted | A 2%N => Some QuotedRfc
  | A 3%N => Some Whitespace | A 4%N => Some Monocolumn
  | _ => None
  end.
Definition lang_of_sx (x : sx) : option lang :=
  match x with A 0%N => Some LPy | A 1%N => Some LJs | _ => None end.

Fixpoint cell_of_sx (x : sx) : option cell :=
  match x with
  | L [A 0%N; s] => option_map CStr (str_of_sx s)
  | L [A 1%N] => Some CNone
  | L [A 2%N; z] => option_map CInt (Z_of_sx z)
  | L [A 3%N; L l] =>
      option_map CList
        ((fix go (l : list sx) : option (list cell) :=
            match l with
            | [] => Some []
            | h :: t => match cell_of_sx h, go t with Some a, Some r => Some (a :: r) | _, _ => None end
            end) l)
  | _ => None
  end.

Definition sx_of_werr (e : werr) : sx :=
  match e with ErrHeaderLen => A 1%N | ErrMono => A 2%N | ErrOther => A 3%N end.

Definition ep_smart_split (x : sx) : sx :=
  match x with
  | L [p; d; pr; ls] =>
      match pol_of_sx p, str_of_sx d, bool_of_sx pr, list_of_sx str_of_sx ls with
      | Some pol, Some dlm, Some preserve, Some lines =>
          sx_of_list (fun line =>
            let '(fs, w) := smart_split pol dlm preserve line in
            let tags := match pol with
                        | Quoted | QuotedRfc => map fst (fst (split_quoted_tagged dlm preserve line))
                        | _ => []
                        end in
            L [sx_of_list sx_of_str fs; sx_of_bool w; sx_of_list sx_of_bool tags]) lines
      | _, _, _, _ => ERR
      end
  | _ => ERR
  end.

Definition ep_split_general (x : sx) : sx :=
  match x with
  | L [d; l; pr] =>
      match str_of_sx d, str_of_sx l, bool_of_sx pr with
      | Some dlm, Some line, Some preserve =>
          let '(fs, w) := split_quoted_general dlm preserve line in L [sx_of_list sx_of_str fs; sx_of_bool w]
      | _, _, _ => ERR
      end
  | _ => ERR
  end.

Definition ep_quote_field (x : sx) : sx :=
  match x with
  | L [fl; rfc; d; f] =>
      match lang_of_sx fl, bool_of_sx rfc, str_of_sx d, str_of_sx f with
      | Some fl', Some rfc', Some dlm, Some fld => sx_of_str (quote_field fl' rfc' dlm fld)
      | _, _, _, _ => ERR
      end
  | _ => ERR
  end.

Definition ep_write_table (x : sx) : sx :=
  match x with
  | L [fl; p; d; A enc; h; rows] =>
      match lang_of_sx fl, pol_of_sx p, str_of_sx d,
            option_of_sx (list_of_sx cell_of_sx) h, list_of_sx (list_of_sx cell_of_sx) rows with
      | Some fl', Some pol, Some dlm, Some header, Some rs =>
          let '(lines, e, nf, df) := write_table fl' pol dlm header rs in
          let all_rows := match header with Some hd => hd :: rs | None => rs end in
          let norm := map (fun r => fst (normalize_fields dlm r)) all_rows in
          let readback :=
            match e with
            | Some _ => None
            | None => if good_dlm pol dlm && dlm_nl_free pol dlm && table_ok pol dlm enc norm then Some (map (map nl_norm) norm) else None
            end in
          L [sx_of_list sx_of_str lines;
             sx_of_option (fun ie => L [sx_of_nat (fst ie); sx_of_werr (snd ie)]) e;
             sx_of_bool nf; sx_of_bool df;
             sx_of_option (sx_of_list (sx_of_list sx_of_str)) readback;
             sx_of_bool (good_dlm pol dlm && dlm_nl_free pol dlm && table_representable pol dlm enc norm)]
      | _, _, _, _, _ => ERR
      end
  | _ => ERR
  end.

Definition ep_representable (x : sx) : sx :=
  match x with
  | L [p; d; fs] =>
      match pol_of_sx p, str_of_sx d, list_of_sx str_of_sx fs with
      | Some pol, Some dlm, Some fields =>
          L [sx_of_bool (representable pol dlm fields); sx_of_bool (line_ok pol dlm fields); sx_of_bool (good_dlm pol dlm)]
      | _, _, _ => ERR
      end
  | _ => ERR
  end.

Definition ep_table_representable (x : sx) : sx :=
  match x with
  | L [p; d; A enc; rows] =>
      match pol_of_sx p, str_of_sx d, list_of_sx (list_of_sx str_of_sx) rows with
      | Some pol, Some dlm, Some rs => sx_of_bool (good_dlm pol dlm && dlm_nl_free pol dlm && table_representable pol dlm enc rs)
      | _, _, _ => ERR
      end
  | _ => ERR
  end.

Definition ep_line_roundtrip (x : sx) : sx :=
  match x with
  | L [p; d; fs] =>
      match pol_of_sx p, str_of_sx d, list_of_sx str_of_sx fs with
      | Some pol, Some dlm, Some fields =>
          let line := join_line pol dlm fields in
          let '(back, w) := smart_split pol dlm false line in
          L [sx_of_str line; sx_of_list sx_of_str back; sx_of_bool w]
      | _, _, _ => ERR
      end
  | _ => ERR
  end.

Definition dispatch_csv (code : N) (x : sx) : option sx :=
  match code with
  | 100%N => Some (ep_smart_split x)
  | 101%N => Some (ep_split_general x)
  | 110%N => Some (ep_quote_field x)
  | 120%N => Some (ep_write_table x)
  | 130%N => Some (ep_representable x)
  | 131%N => Some (ep_table_representable x)
  | 140%N => Some (ep_line_roundtrip x)
  | _ => None
  end.
