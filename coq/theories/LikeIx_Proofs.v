(* LikeIx_Proofs.v — proofs about LikeIx.v: the index models of like_to_regex produce the text [render esc (Like.like_to_regex p)],
   the reader [parse_pattern] reads that text back into exactly Like.like_to_regex p (both flavours), hence C17_like_correct
   holds for the pattern TEXT; the tactic gen_fn_eq that closes the per-run obligations gen_<name>_eq of harness/gen_like_tie*.v.tmpl. *)
From RBQL Require Import Base Csv PyStr JsStr Like Like_Proofs PyStr_Proofs CsvIx_Proofs LikeIx.

(* ---------------------------------------------------------------- primitives at natural-number positions *)

Lemma py_str_item_nat s k c : nth_error s k = Some c -> py_str_item s (Z.of_nat k) = [c].
Proof.
  intros H. unfold py_str_item, py_pos.
  assert ((Z.of_nat k <? 0)%Z = false) as E by (apply Z.ltb_ge; lia).
  rewrite E. cbv zeta. rewrite E. rewrite Nat2Z.id, H. reflexivity.
Qed.

Lemma js_charat_nat s k c : nth_error s k = Some c -> js_charat s (Z.of_nat k) = [c].
Proof.
  intros H. unfold js_charat.
  assert ((Z.of_nat k <? 0)%Z = false) as E by (apply Z.ltb_ge; lia).
  rewrite E. rewrite Nat2Z.id, H. reflexivity.
Qed.

Lemma js_substring_nat s a b : (a <= b)%nat -> (b <= length s)%nat ->
  js_substring s (Z.of_nat a) (Some (Z.of_nat b)) = firstn (b - a) (skipn a s).
Proof.
  intros Hab Hb. unfold js_substring, js_clamp.
  replace (Z.to_nat (Z.min (Z.max 0 (Z.of_nat a)) (Z.of_nat (length s)))) with a by lia.
  replace (Z.to_nat (Z.min (Z.max 0 (Z.of_nat b)) (Z.of_nat (length s)))) with b by lia.
  rewrite Nat.max_r, Nat.min_l by lia. reflexivity.
Qed.

Lemma py_range_from_0 n : py_range_from 0 (Z.of_nat n) = map Z.of_nat (seq 0 n).
Proof. unfold py_range_from. rewrite Z.sub_0_r, Nat2Z.id. apply map_ext. intros k. apply Z.add_0_l. Qed.

Lemma nth_error_skipn_cons {A} (l : list A) : forall i c, nth_error l i = Some c -> skipn i l = c :: skipn (S i) l.
Proof.
  induction l as [|x l IH]; intros i c H; destruct i as [|i]; try discriminate.
  - cbn in H. injection H as ->. reflexivity.
  - cbn [nth_error] in H. cbn [skipn]. rewrite (IH _ _ H). reflexivity.
Qed.

Lemma firstn_snoc {A} (l : list A) : forall k c, nth_error l k = Some c -> firstn (S k) l = firstn k l ++ [c].
Proof.
  induction l as [|x l IH]; intros k c H; destruct k as [|k]; try discriminate.
  - cbn in H. injection H as ->. reflexivity.
  - cbn [nth_error] in H. change (firstn (S (S k)) (x :: l)) with (x :: firstn (S k) l). rewrite (IH _ _ H). reflexivity.
Qed.

Lemma nth_error_skipn_add {A} (l : list A) : forall p k, nth_error (skipn p l) k = nth_error l (p + k).
Proof.
  induction l as [|x l IH]; intros p k.
  - rewrite skipn_nil. destruct k, p; reflexivity.
  - destruct p as [|p]; [reflexivity|]. cbn [skipn Nat.add nth_error]. apply IH.
Qed.

(* ---------------------------------------------------------------- the loop *)

Section LikeLoop.
  Variable pat : str.
  Variable item : Z -> str.
  Variable slice : Z -> Z -> str.
  Variable esc : str -> str.
  Hypothesis Hitem : forall k c, nth_error pat k = Some c -> item (Z.of_nat k) = [c].
  Hypothesis Hslice : forall a b, (a <= b)%nat -> (b <= length pat)%nat -> slice (Z.of_nat a) (Z.of_nat b) = firstn (b - a) (skipn a pat).

  Lemma like_step_at i p conv c : nth_error pat i = Some c ->
    like_step item slice esc (conv, Z.of_nat p) (Z.of_nat i) =
      if N.eqb c 95 then ((conv ++ esc (slice (Z.of_nat p) (Z.of_nat i))) ++ [46%N], Z.of_nat (S i))
      else if N.eqb c 37 then ((conv ++ esc (slice (Z.of_nat p) (Z.of_nat i))) ++ [46%N; 42%N], Z.of_nat (S i))
      else (conv, Z.of_nat p).
  Proof.
    intros Hn. unfold like_step. rewrite (Hitem _ _ Hn). cbn [str_eqb]. rewrite !andb_true_r.
    replace (Z.of_nat i + 1)%Z with (Z.of_nat (S i)) by lia.
    destruct (N.eqb c 95), (N.eqb c 37); reflexivity.
  Qed.

  Lemma like_loop : forall k i p conv, (i + k = length pat)%nat -> (p <= i)%nat ->
    exists conv' p', fold_left (like_step item slice esc) (map Z.of_nat (seq i k)) (conv, Z.of_nat p) = (conv', Z.of_nat p') /\ (p' <= length pat)%nat /\
      conv' ++ esc (firstn (length pat - p') (skipn p' pat)) = conv ++ flat_map (render_tok esc) (l2r (skipn i pat) (rev (firstn (i - p) (skipn p pat)))).
  Proof.
    induction k as [|k IH]; intros i p conv Hik Hpi.
    - exists conv, p. split; [reflexivity|]. split; [lia|].
      rewrite (skipn_all2 pat (n := i)) by lia. cbn [l2r flat_map render_tok]. rewrite rev_involutive, app_nil_r.
      replace (length pat) with i by lia. reflexivity.
    - destruct (nth_error pat i) as [c|] eqn:Hn; [|apply nth_error_None in Hn; lia].
      cbn [seq map fold_left]. rewrite (like_step_at _ _ _ _ Hn). rewrite (nth_error_skipn_cons _ _ _ Hn). cbn [l2r]. unfold UND, PCT.
      destruct (N.eqb c 95) eqn:E1; [|destruct (N.eqb c 37) eqn:E2].
      + destruct (IH (S i) (S i) ((conv ++ esc (slice (Z.of_nat p) (Z.of_nat i))) ++ [46%N])) as [conv' [p' [Hf [Hp Heq]]]]; [lia|lia|].
        exists conv', p'. split; [exact Hf|]. split; [exact Hp|]. rewrite Heq. rewrite Nat.sub_diag. cbn [firstn rev flat_map render_tok].
        rewrite Hslice by lia. rewrite rev_involutive. rewrite <- !app_assoc. reflexivity.
      + destruct (IH (S i) (S i) ((conv ++ esc (slice (Z.of_nat p) (Z.of_nat i))) ++ [46%N; 42%N])) as [conv' [p' [Hf [Hp Heq]]]]; [lia|lia|].
        exists conv', p'. split; [exact Hf|]. split; [exact Hp|]. rewrite Heq. rewrite Nat.sub_diag. cbn [firstn rev flat_map render_tok].
        rewrite Hslice by lia. rewrite rev_involutive. rewrite <- !app_assoc. reflexivity.
      + destruct (IH (S i) p conv) as [conv' [p' [Hf [Hp Heq]]]]; [lia|lia|].
        exists conv', p'. split; [exact Hf|]. split; [exact Hp|]. rewrite Heq.
        replace (S i - p)%nat with (S (i - p)) by lia.
        rewrite (firstn_snoc (skipn p pat) (i - p) c) by (rewrite nth_error_skipn_add; replace (p + (i - p))%nat with i by lia; exact Hn).
        rewrite rev_app_distr. reflexivity.
  Qed.

  Lemma like_ix_generic_correct : like_ix_generic (zlen pat) item slice esc = render esc (like_to_regex pat).
  Proof.
    unfold like_ix_generic, zlen. rewrite py_range_from_0.
    destruct (like_loop (length pat) 0 0 []) as [conv' [p' [Hf [Hp Heq]]]]; [reflexivity|lia|].
    match goal with |- context [fold_left ?f ?l ?a] => replace (fold_left f l a) with (conv', Z.of_nat p') by (symmetry; exact Hf) end.
    replace (Z.max 0 (Z.of_nat (length pat))) with (Z.of_nat (length pat)) by lia.
    rewrite Hslice by lia. cbn [skipn firstn Nat.sub rev app] in Heq. rewrite Heq. reflexivity.
  Qed.
End LikeLoop.

Theorem ix_like_to_regex_correct (pat : str) : ix_like_to_regex pat = render py_re_escape (like_to_regex pat).
Proof.
  change (ix_like_to_regex pat) with (like_ix_generic (zlen pat) (py_str_item pat) (fun p i => py_slice pat (Some p) (Some i)) py_re_escape).
  apply like_ix_generic_correct; [apply py_str_item_nat|intros a b Hab Hb; apply py_slice_nat; lia].
Qed.

Theorem jsix_like_to_regex_correct (pat : str) : jsix_like_to_regex pat = render jsix_regexp_escape (like_to_regex pat).
Proof.
  change (jsix_like_to_regex pat) with (like_ix_generic (zlen pat) (js_charat pat) (fun p i => js_substring pat p (Some i)) jsix_regexp_escape).
  apply like_ix_generic_correct; [apply js_charat_nat|intros a b Hab Hb; apply js_substring_nat; lia].
Qed.

(* ---------------------------------------------------------------- the pattern text read back *)

Lemma not_meta c : existsb (N.eqb c) rx_meta = false ->
  N.eqb c 92 = false /\ N.eqb c 46 = false /\ N.eqb c 42 = false /\ N.eqb c 36 = false.
Proof.
  intros H. repeat split;
    match goal with |- N.eqb c ?k = false => destruct (N.eqb c k) eqn:X; [apply N.eqb_eq in X; subst c; vm_compute in H; discriminate|reflexivity] end.
Qed.

Section ReadBack.
  Variable fl : flavour.
  Variable cls : list ch.
  Hypothesis Hmeta : forall c, existsb (N.eqb c) rx_meta = true -> existsb (N.eqb c) cls = true.
  Hypothesis Hesc : forall c, existsb (N.eqb c) cls = true -> escapable fl c = true.
  Let esc := escape_class cls [92%N] [].

  Lemma esc_app a b : esc (a ++ b) = esc a ++ esc b.
  Proof. unfold esc, escape_class. apply flat_map_app. Qed.

  Lemma parse_escape : forall s rest run ad, parse_body fl (esc s ++ rest) run ad = parse_body fl rest (rev s ++ run) ad.
  Proof.
    induction s as [|c s IH]; intros rest run ad; [reflexivity|].
    change (esc (c :: s)) with ((if existsb (N.eqb c) cls then [92%N] ++ c :: [] else [c]) ++ esc s).
    destruct (existsb (N.eqb c) cls) eqn:E.
    - cbn [app]. cbn [parse_body]. rewrite N.eqb_refl. rewrite (Hesc _ E). rewrite IH. cbn [rev]. rewrite <- app_assoc. reflexivity.
    - destruct (existsb (N.eqb c) rx_meta) eqn:M; [rewrite (Hmeta _ M) in E; discriminate|].
      destruct (not_meta _ M) as (A & B & C & D). cbn [app]. cbn [parse_body]. rewrite A, B, C, D, M. rewrite IH. cbn [rev]. rewrite <- app_assoc. reflexivity.
  Qed.

  (* the text of the rest of a LIKE pattern *)
  Definition pat_text (pat : str) : str :=
    flat_map (fun c => if N.eqb c 95 then [46%N] else if N.eqb c 37 then [46%N; 42%N] else esc [c]) pat.

  Lemma render_l2r : forall pat run, flat_map (render_tok esc) (l2r pat run) = esc (rev run) ++ pat_text pat.
  Proof.
    induction pat as [|c t IH]; intros run.
    - cbn [l2r flat_map render_tok pat_text]. reflexivity.
    - cbn [l2r pat_text flat_map]. unfold UND, PCT. fold (pat_text t).
      destruct (N.eqb c 95) eqn:E1; [|destruct (N.eqb c 37) eqn:E2].
      + cbn [flat_map render_tok]. rewrite IH. reflexivity.
      + cbn [flat_map render_tok]. rewrite IH. reflexivity.
      + rewrite IH. cbn [rev]. rewrite esc_app, <- app_assoc. reflexivity.
  Qed.

  Lemma parse_pat_text : forall pat run ad, parse_body fl (pat_text pat ++ [36%N]) run ad = Some (pend ad (l2r pat run)).
  Proof.
    induction pat as [|c t IH]; intros run ad.
    - reflexivity.
    - cbn [pat_text flat_map l2r]. unfold UND, PCT. fold (pat_text t).
      destruct (N.eqb c 95) eqn:E1; [|destruct (N.eqb c 37) eqn:E2].
      + cbn [app]. change (parse_body fl (46%N :: pat_text t ++ [36%N]) run ad)
          with (option_map (fun r => pend ad (RLit (rev run) :: r)) (parse_body fl (pat_text t ++ [36%N]) [] true)).
        rewrite IH. reflexivity.
      + cbn [app]. change (parse_body fl (46%N :: 42%N :: pat_text t ++ [36%N]) run ad)
          with (option_map (fun r => pend ad (RLit (rev run) :: r)) (option_map (cons RStar) (parse_body fl (pat_text t ++ [36%N]) [] false))).
        rewrite IH. reflexivity.
      + rewrite <- app_assoc. rewrite parse_escape. cbn [rev app]. apply IH.
  Qed.

  Theorem parse_render (pat : str) : parse_pattern fl (render esc (like_to_regex pat)) = Some (like_to_regex pat).
  Proof.
    unfold render, like_to_regex. rewrite render_l2r. cbn [rev]. change (esc []) with (@nil ch). cbn [app].
    unfold parse_pattern. rewrite N.eqb_refl. rewrite parse_pat_text. reflexivity.
  Qed.

  Theorem regex_like_render (t p : str) : regex_like fl (render esc (like_to_regex p)) t = like fl t p.
  Proof. unfold regex_like. rewrite parse_render. reflexivity. Qed.
End ReadBack.

Ltac enum_class H :=
  cbn [existsb rx_meta py_re_special] in H;
  repeat (apply orb_true_iff in H; destruct H as [H|H]); try discriminate;
  apply N.eqb_eq in H; subst; reflexivity.

Lemma py_meta_escaped : forall c, existsb (N.eqb c) rx_meta = true -> existsb (N.eqb c) py_re_special = true.
Proof. intros c H. unfold rx_meta in H. enum_class H. Qed.
Lemma py_special_escapable : forall c, existsb (N.eqb c) py_re_special = true -> escapable Py c = true.
Proof. intros c H. unfold py_re_special in H. enum_class H. Qed.
Lemma js_meta_escaped : forall c, existsb (N.eqb c) rx_meta = true ->
  existsb (N.eqb c) [46; 42; 43; 63; 94; 36; 123; 125; 40; 41; 124; 91; 93; 92]%N = true.
Proof. intros c H. unfold rx_meta in H. enum_class H. Qed.
Lemma js_special_escapable : forall c, existsb (N.eqb c) [46; 42; 43; 63; 94; 36; 123; 125; 40; 41; 124; 91; 93; 92]%N = true -> escapable Js c = true.
Proof. intros c H. enum_class H. Qed.

(* the text that like_to_regex of either port produces is read back (by the reader of this fragment) as exactly the token list of Like.v *)
Theorem ix_like_text_read_back (p : str) : parse_pattern Py (ix_like_to_regex p) = Some (like_to_regex p).
Proof. rewrite ix_like_to_regex_correct. apply (parse_render Py py_re_special py_meta_escaped py_special_escapable). Qed.

Theorem jsix_like_text_read_back (p : str) : parse_pattern Js (jsix_like_to_regex p) = Some (like_to_regex p).
Proof. rewrite jsix_like_to_regex_correct. apply (parse_render Js _ js_meta_escaped js_special_escapable). Qed.

(* C17_like_correct for the pattern TEXT *)
Theorem ix_like_correct (t p : str) : single_line Py t -> (regex_like Py (ix_like_to_regex p) t = true <-> SqlLike t p).
Proof. intros H. unfold regex_like. rewrite ix_like_text_read_back. apply (like_correct Py t p H). Qed.

Theorem jsix_like_correct (t p : str) : single_line Js t -> (regex_like Js (jsix_like_to_regex p) t = true <-> SqlLike t p).
Proof. intros H. unfold regex_like. rewrite jsix_like_text_read_back. apply (like_correct Js t p H). Qed.

(* ---------------------------------------------------------------- the per-run obligations *)

Lemma zmax0_zlen {A} (l : list A) : Z.max 0 (zlen l) = zlen l.
Proof. unfold zlen. lia. Qed.

(* an accumulator that every step only extends on the right may start with a prefix: state = (text, b) *)
Lemma fold_left_prefix2 {B X} (f : str * B -> X -> str * B) (pre : str) :
  (forall c b x, f (pre ++ c, b) x = (pre ++ fst (f (c, b) x), snd (f (c, b) x))) ->
  forall l c b, fold_left f l (pre ++ c, b) = (pre ++ fst (fold_left f l (c, b)), snd (fold_left f l (c, b))).
Proof.
  intros H. induction l as [|x l IH]; intros c b; [reflexivity|].
  cbn [fold_left]. rewrite H. destruct (f (c, b) x) as [c1 b1]. cbn [fst snd]. apply IH.
Qed.

Lemma fold_left_prefix2_nil {B X} (f : str * B -> X -> str * B) (pre : str) :
  (forall c b x, f (pre ++ c, b) x = (pre ++ fst (f (c, b) x), snd (f (c, b) x))) ->
  forall l b, fold_left f l (pre, b) = (pre ++ fst (fold_left f l ([], b)), snd (fold_left f l ([], b))).
Proof. intros H l b. rewrite <- (app_nil_r pre) at 1. apply fold_left_prefix2. exact H. Qed.

Create HintDb fnnorm.
#[export] Hint Rewrite @zmax0_zlen Z.max_id app_nil_l app_nil_r : fnnorm.
#[export] Hint Rewrite <- app_assoc : fnnorm.
#[export] Hint Unfold jsix_regexp_escape : ixinline.

Ltac fn_leaf :=
  cbn [fst snd app] in *; autorewrite with fnnorm; cbn [app];
  first [ reflexivity | congruence | gen_arith; first [ exfalso; lia | repeat f_equal; lia ] | idtac ].

Ltac fn_pointwise :=
  intros; repeat match goal with p : (_ * _)%type |- _ => destruct p end;
  autounfold with genhelpers ixinline; cbv beta zeta; autorewrite with gencsv; autorewrite with fnnorm; gen_break; fn_leaf.

(* a text accumulator that starts with a literal prefix on one side only: move the prefix out of the loop *)
Ltac fn_prefix :=
  repeat match goal with
         | |- context [fold_left ?f ?l (?c :: ?cs, ?b)] =>
             rewrite (fold_left_prefix2_nil f (c :: cs)) by (solve [fn_pointwise])
         end.

Ltac fn_loops :=
  repeat match goal with
         | |- ?L = ?R =>
             match L with
             | context [@fold_left ?A ?B ?f1 ?l ?a] =>
                 match R with
                 | context [@fold_left ?A2 ?B2 ?f2 ?l2 ?a2] =>
                     first [ constr_eq f1 f2; fail 1
                           | let H := fresh "Hloop" in
                             assert (H : @fold_left A B f1 l a = @fold_left A2 B2 f2 l2 a2) by (apply fold_left_ext; solve [fn_pointwise]);
                             rewrite H; clear H ]
                 end
             end
         end.

(* gen_fn_eq g h: the generated definition g equals the hand definition h, for all arguments *)
Ltac gen_fn_eq g h :=
  intros;
  first [ reflexivity
        | solve [gen_csv_eq g h]
        | unfold g, h; autounfold with genhelpers ixinline; cbv beta zeta; autorewrite with gencsv; autorewrite with fnnorm;
          first [ reflexivity
                | fn_prefix; cbv beta iota zeta; fn_loops; gen_loops; gen_break; fn_leaf ] ].
