(* Parser_TokensJoin_Proofs.v — C08_token_spelling, part 8: the ON condition of a JOIN. parse_join_expression returns
   the same table id and the same list of variable pairs whatever the spelling of the condition:  =  or  == ,
   any number of spaces around it (including none), ON / AND in any letter case (JS: also &&), any number (>= 1) of
   spaces around ON and AND.  (Swapping the two sides of a pair swaps the pair: the engine normalises the sides later,
   in resolve_join_variables, which the model does not cover.) *)
From RBQL Require Import Base Parser Parser_Spelling_Proofs Parser_Tokens_Proofs Parser_TokensQuery_Proofs.
Local Open Scope N_scope.

Definition jvar_ok (v : str) : bool := nonempty v && forallb not_sp_eq v.

(* one pair and how it is spelled; the separator spelling refers to the separator BEFORE the next pair *)
Record jpair := mkJpair {
  jp_l : str; jp_r : str;                (* the two variables *)
  jp_eq2 : bool;                         (* == instead of = *)
  jp_x : nat; jp_y : nat;                (* spaces before / after the equality sign (>= 0) *)
  jp_c : nat; jp_and : str; jp_d : nat }.   (* extra spaces, the spelled AND, extra spaces *)
Definition eq_txt (e : bool) : str := if e then [EQ; EQ] else [EQ].
Definition render_pair (p : jpair) : str := jp_l p ++ sps (jp_x p) ++ eq_txt (jp_eq2 p) ++ sps (jp_y p) ++ jp_r p.
Fixpoint render_pairs (ps : list jpair) : str :=
  match ps with
  | [] => []
  | [p] => render_pair p
  | p :: r => render_pair p ++ sps (S (jp_c p)) ++ jp_and p ++ sps (S (jp_d p)) ++ render_pairs r
  end.
Definition render_join (tid : str) (a : nat) (onw : str) (b : nat) (ps : list jpair) : str :=
  tid ++ sps (S a) ++ onw ++ sps (S b) ++ render_pairs ps.

Definition and_tok (fl : lang) (w : str) : Prop := case_rel K_AND w \/ (fl = LJs /\ w = [38; 38]).
Definition jpair_ok (fl : lang) (p : jpair) : Prop := jvar_ok (jp_l p) = true /\ jvar_ok (jp_r p) = true /\ and_tok fl (jp_and p).

Lemma span_by_all : forall f v rest, forallb f v = true -> match rest with [] => True | c :: _ => f c = false end ->
  span_by f (v ++ rest) = (v, rest).
Proof.
  intros f v rest H R. induction v as [|c v IH]; cbn [app span_by].
  - destruct rest as [|c r]; [reflexivity|]. cbn [span_by]. rewrite R. reflexivity.
  - cbn [forallb] in H. apply andb_true_iff in H. destruct H as [H1 H2]. rewrite H1, (IH H2). reflexivity.
Qed.

Lemma jvar_head : forall v, jvar_ok v = true -> exists c t, v = c :: t /\ is_sp c = false /\ N.eqb c EQ = false.
Proof.
  intros v H. unfold jvar_ok in H. apply andb_true_iff in H. destruct H as [N F]. destruct v as [|c t]; [discriminate N|].
  exists c, t. split; [reflexivity|]. cbn [forallb] in F. apply andb_true_iff in F. destruct F as [F _].
  unfold not_sp_eq in F. apply negb_true_iff in F. apply orb_false_iff in F. exact F.
Qed.

(* the pair scanner on a rendered pair followed by the end of the text or a space *)
Lemma join_pair_render : forall p rest, jvar_ok (jp_l p) = true -> jvar_ok (jp_r p) = true ->
  match rest with [] => True | c :: _ => is_sp c = true end ->
  join_pair (render_pair p ++ rest) = Some (jp_l p, jp_r p, rest).
Proof.
  intros p rest HL HR R. unfold join_pair, render_pair. rewrite <- !app_assoc.
  destruct (jvar_head _ HL) as [cl [tl [EL [NL1 NL2]]]]. destruct (jvar_head _ HR) as [cr [tr [ER [NR1 NR2]]]].
  unfold jvar_ok in HL, HR. apply andb_true_iff in HL. destruct HL as [_ FL]. apply andb_true_iff in HR. destruct HR as [_ FR].
  assert (S1 : span_by not_sp_eq (jp_l p ++ sps (jp_x p) ++ eq_txt (jp_eq2 p) ++ sps (jp_y p) ++ jp_r p ++ rest)
               = (jp_l p, sps (jp_x p) ++ eq_txt (jp_eq2 p) ++ sps (jp_y p) ++ jp_r p ++ rest)).
  { apply span_by_all; [exact FL|]. destruct (jp_x p); [destruct (jp_eq2 p)|]; reflexivity. }
  rewrite S1. rewrite drop_sp_sps.
  assert (S2 : span_by not_sp_eq (jp_r p ++ rest) = (jp_r p, rest)).
  { apply span_by_all; [exact FR|]. destruct rest as [|c r]; [exact I|]. unfold not_sp_eq. rewrite R. reflexivity. }
  assert (D2 : drop_sp (sps (jp_y p) ++ jp_r p ++ rest) = jp_r p ++ rest).
  { rewrite drop_sp_sps. rewrite ER. apply drop_sp_nonsp. exact NR1. }
  assert (FIN : forall X : option (str * str * str), match jp_l p with [] => None | _ :: _ => match jp_r p with [] => None | _ :: _ => X end end = X).
  { intro X. rewrite EL, ER. reflexivity. }
  destruct (jp_eq2 p); cbn [eq_txt app].
  - rewrite (drop_sp_nonsp EQ _ eq_refl). change (N.eqb EQ EQ) with true. cbv iota. rewrite D2, S2.
    rewrite <- (FIN (Some (jp_l p, jp_r p, rest))). destruct (jp_l p); reflexivity.
  - rewrite (drop_sp_nonsp EQ _ eq_refl). change (N.eqb EQ EQ) with true. cbv iota.
    assert (R3 : match sps (jp_y p) ++ jp_r p ++ rest with e2 :: r2' => if N.eqb e2 EQ then r2' else sps (jp_y p) ++ jp_r p ++ rest | [] => sps (jp_y p) ++ jp_r p ++ rest end
                 = sps (jp_y p) ++ jp_r p ++ rest).
    { destruct (jp_y p) as [|y]; [|reflexivity]. cbn [sps repeat app]. rewrite ER. cbn [app]. rewrite NR2. reflexivity. }
    rewrite R3, D2, S2. rewrite <- (FIN (Some (jp_l p, jp_r p, rest))). destruct (jp_l p); reflexivity.
Qed.

Lemma render_pairs_head : forall fl p r, jpair_ok fl p -> exists c t, render_pairs (p :: r) = c :: t /\ is_sp c = false.
Proof.
  intros fl p r [HL _]. destruct (jvar_head _ HL) as [c [t [E [N _]]]]. exists c.
  destruct r as [|p2 r]; cbn [render_pairs]; unfold render_pair; rewrite E; cbn [app]; eexists; (split; [reflexivity | exact N]).
Qed.

Lemma join_and_render : forall fl c w d rest, and_tok fl w -> (exists x t, rest = x :: t /\ is_sp x = false) ->
  join_and fl (sps (S c) ++ w ++ sps (S d) ++ rest) = Some rest.
Proof.
  intros fl c w d rest A [x [t [-> NX]]]. unfold join_and.
  assert (E1 : eat_sp1 (sps (S c) ++ w ++ sps (S d) ++ x :: t) = Some (drop_sp (w ++ sps (S d) ++ x :: t))).
  { cbn [sps repeat app eat_sp1]. change (is_sp SP) with true. cbv iota. change (repeat SP c) with (sps c). rewrite drop_sp_sps. reflexivity. }
  rewrite E1.
  assert (E3 : eat_sp1 (sps (S d) ++ x :: t) = Some (x :: t)).
  { cbn [sps repeat app eat_sp1]. change (is_sp SP) with true. cbv iota. change (repeat SP d) with (sps d). rewrite drop_sp_sps.
    rewrite (drop_sp_nonsp x t NX). reflexivity. }
  destruct A as [A|[-> ->]].
  - rewrite (word_drop K_AND w _ A eq_refl ltac:(discriminate)). rewrite (eat_ci_case fl K_AND w _ A). exact E3.
  - cbn [app]. rewrite (drop_sp_nonsp 38 _ eq_refl). cbn [eat_ci K_AND]. cbn [eat_ch]. change (N.eqb 38 38) with true. cbv iota. exact E3.
Qed.

Lemma join_pairs_render : forall fl ps fuel, ps <> [] -> Forall (jpair_ok fl) ps -> (length ps <= fuel)%nat ->
  join_pairs fuel fl (render_pairs ps) = Some (map (fun p => (jp_l p, jp_r p)) ps).
Proof.
  intros fl. induction ps as [|p r IH]; intros fuel NE OK LE; [contradiction|].
  destruct fuel as [|fuel]; [cbn [length] in LE; lia|]. inversion OK as [|? ? [HL [HR HA]] OKr]; subst.
  destruct r as [|p2 r].
  - cbn [render_pairs join_pairs map]. rewrite <- (app_nil_r (render_pair p)). rewrite (join_pair_render p [] HL HR I). reflexivity.
  - change (render_pairs (p :: p2 :: r)) with (render_pair p ++ sps (S (jp_c p)) ++ jp_and p ++ sps (S (jp_d p)) ++ render_pairs (p2 :: r)).
    cbn [join_pairs]. rewrite (join_pair_render p _ HL HR) by reflexivity.
    change (sps (S (jp_c p)) ++ jp_and p ++ sps (S (jp_d p)) ++ render_pairs (p2 :: r))
      with (SP :: (sps (jp_c p) ++ jp_and p ++ sps (S (jp_d p)) ++ render_pairs (p2 :: r))) at 1.
    cbv iota. change (SP :: (sps (jp_c p) ++ jp_and p ++ sps (S (jp_d p)) ++ render_pairs (p2 :: r)))
      with (sps (S (jp_c p)) ++ jp_and p ++ sps (S (jp_d p)) ++ render_pairs (p2 :: r)).
    inversion OKr as [|? ? OK2 _]; subst.
    rewrite (join_and_render fl _ _ _ _ HA (render_pairs_head fl p2 r OK2)).
    rewrite (IH fuel ltac:(discriminate) OKr) by (cbn [length] in *; lia). reflexivity.
Qed.

(* the spelling of the ON condition does not matter *)
Theorem join_on_equiv : forall fl tid a onw b ps,
  forallb not_sp tid = true -> edge_ok fl (render_join tid a onw b ps) = true ->
  case_rel K_ON onw -> ps <> [] -> Forall (jpair_ok fl) ps ->
  parse_join_expression fl (render_join tid a onw b ps) = Ok (tid, map (fun p => (jp_l p, jp_r p)) ps).
Proof.
  intros fl tid a onw b ps TS E CO NE OK. unfold parse_join_expression.
  pose proof (strip_span fl _ 0 0 E) as SS. cbn [sps repeat app] in SS. rewrite app_nil_r in SS. rewrite SS.
  unfold render_join.
  assert (TN : tid <> []).
  { intros ->. unfold edge_ok, render_join in E. cbn [app sps repeat] in E.
    match type of E with match rev ?X with _ => _ end = _ => destruct (rev X) as [|d0 r0] end; [discriminate E|].
    change (negb (txt_ws fl SP) && negb (txt_ws fl d0) = true) in E. rewrite txt_ws_SP in E. discriminate E. }
  assert (S1 : span_by not_sp (tid ++ sps (S a) ++ onw ++ sps (S b) ++ render_pairs ps) = (tid, sps (S a) ++ onw ++ sps (S b) ++ render_pairs ps)).
  { apply span_by_all; [exact TS | reflexivity]. }
  rewrite S1. destruct tid as [|t0 tid']; [contradiction|].
  assert (E1 : eat_sp1 (sps (S a) ++ onw ++ sps (S b) ++ render_pairs ps) = Some (onw ++ sps (S b) ++ render_pairs ps)).
  { cbn [sps repeat app eat_sp1]. change (is_sp SP) with true. cbv iota. change (repeat SP a) with (sps a). rewrite drop_sp_sps.
    apply f_equal. apply (word_drop K_ON onw _ CO eq_refl). discriminate. }
  rewrite E1. rewrite (eat_ci_case fl K_ON onw _ CO).
  destruct ps as [|p r]; [contradiction|]. inversion OK as [|? ? OKp _]; subst.
  destruct (render_pairs_head fl p r OKp) as [c [t [EH NH]]].
  assert (E2 : eat_sp1 (sps (S b) ++ render_pairs (p :: r)) = Some (render_pairs (p :: r))).
  { cbn [sps repeat app eat_sp1]. change (is_sp SP) with true. cbv iota. change (repeat SP b) with (sps b). rewrite drop_sp_sps.
    rewrite EH. rewrite (drop_sp_nonsp c t NH). reflexivity. }
  rewrite E2. rewrite (join_pairs_render fl (p :: r) _ NE OK); [reflexivity|].
  clear. generalize (p :: r). intro l. induction l as [|q l IH]; [cbn; lia|].
  destruct l as [|q2 l]; [cbn [length]; lia|].
  change (render_pairs (q :: q2 :: l)) with (render_pair q ++ sps (S (jp_c q)) ++ jp_and q ++ sps (S (jp_d q)) ++ render_pairs (q2 :: l)).
  rewrite !app_length. cbn [length] in *. rewrite sps_length. lia.
Qed.
Print Assumptions join_on_equiv.
