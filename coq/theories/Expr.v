(* Expr.v — the deep-embedded expression fragment (DESIGN 3.3) and its evaluator.
   The engine model (Engine.v) is parametric in the evaluator; this file is the concrete
   instance used by the executable entry points and rendered to Python / JS by the harness. *)
From RBQL Require Import Base Value Like.
From Coq Require Import QArith.

(* exceptions raised while evaluating the generated loop body for one record *)
Inductive xerr :=
| XType            (* TypeError and the like: any exception that is neither of the classes below *)
| XValue           (* ValueError *)
| XBadField (idx : nat)   (* InternalBadFieldError(idx): safe_join_get / safe_set *)
| XParsing (tag : N)      (* RbqlParsingError raised from inside the loop (1 = only one UNNEST, 2 = invalid keyword in aggregate query, 3 = wrong aggregation usage) *)
| XRuntime (tag : N)      (* RbqlRuntimeError raised inside the loop (1 = non-constant group column, 2 = numeric conversion, 3 = strict left join, 4 = update join multi-match) *)
| XUnmodelled.            (* the case lies outside the modelled fragment: the harness drops it, never compares it *)

Inductive res (T : Type) := Ok (v : T) | Err (e : xerr).
Arguments Ok {T} v.
Arguments Err {T} e.

Definition bind {T U} (r : res T) (f : T -> res U) : res U :=
  match r with Ok v => f v | Err e => Err e end.
Notation "'do' x <- r ; k" := (bind r (fun x => k)) (at level 200, x pattern, r at level 100, k at level 200).

(* the b-side of the current evaluation *)
Inductive binfo :=
| BNoJoin                                   (* query without JOIN *)
| BNull                                     (* UPDATE ... JOIN without a match: bNR, bNF, record_b = None *)
| BRec (bnr : option nat) (bnf : nat) (r : rec).   (* a join match (bnr = None for LEFT JOIN's null record) *)

Record env := { e_nr : nat; e_nf : nat; e_a : rec; e_b : binfo; e_nu : nat }.

Inductive tbl := TA | TB.

Inductive expr :=
| EFld (t : tbl) (i : nat)          (* aN / a[N] / a.name / a["name"] with 0-based column i: safe_get *)
| ENR | ENF | EBNR | EBNF | ENU
| ELit (a : atom)
| EAdd (x y : expr)                 (* + : numbers, or two strings, or two lists *)
| EEq (x y : expr) | ENe (x y : expr) | ELt (x y : expr) | ELe (x y : expr)
| EAnd (x y : expr) | EOr (x y : expr) | ENot (x : expr)
| ELen (x : expr)                   (* len() *)
| EInt (x : expr)                   (* int() *)
| ELike (x y : expr)                (* like(text, pattern) *)
| ECond (c x y : expr)              (* x if c else y   /   c ? x : y *)
| EList (l : list expr)             (* [e1, .., ek] of atoms *)
(* lower-case min / max / sum in their Python builtin meaning (several arguments, or one list argument) *)
| EMinMax (is_max : bool) (l : list expr)     (* max(x, y, ..) / min(x, y, ..), two or more arguments *)
| EMinMaxL (is_max : bool) (x : expr)         (* max(list) / min(list) *)
| ESumL (x : expr).                           (* sum(list) *)

Definition safe_get (r : rec) (i : nat) : atom := nth i r ANone.

Definition b_field (b : binfo) (i : nat) : atom :=
  match b with BRec _ _ r => safe_get r i | _ => ANone end.

Definition opt_nat_atom (o : option nat) : atom :=
  match o with Some n => AInt (Z.of_nat n) | None => ANone end.

Definition add_atoms (a b : atom) : res val :=
  match a, b with
  | AStr s, AStr t => Ok (VA (AStr (s ++ t)))
  | AFlt _, _ | _, AFlt _ =>
      match num_of a, num_of b with
      | Some x, Some y => Ok (VA (AFlt (Qred (x + y))))
      | _, _ => Err XType
      end
  | _, _ =>
      match a, b with
      | ANone, _ | _, ANone | AStr _, _ | _, AStr _ => Err XType
      | _, _ => match num_of a, num_of b with
                | Some x, Some y => Ok (VA (AInt (Qnum (Qred (x + y)))))
                | _, _ => Err XType
                end
      end
  end.

(* builtin max / min: the first maximal / minimal element (Python keeps the earlier one on ties) *)
Fixpoint fold_minmax (is_max : bool) (cur : atom) (l : list atom) : res atom :=
  match l with
  | [] => Ok cur
  | x :: t =>
      match (if is_max then atom_ltb cur x else atom_ltb x cur) with
      | Some true => fold_minmax is_max x t
      | Some false => fold_minmax is_max cur t
      | None => Err XType
      end
  end.
Definition builtin_minmax (is_max : bool) (l : list atom) : res val :=
  match l with
  | [] => Err XValue                        (* max() arg is an empty sequence *)
  | x :: t => match fold_minmax is_max x t with Ok a => Ok (VA a) | Err e => Err e end
  end.
Fixpoint builtin_sum (acc : atom) (l : list atom) : res val :=
  match l with
  | [] => Ok (VA acc)
  | x :: t => match add_atoms acc x with
              | Ok (VA a) => match acc, x with
                             | AStr _, _ | _, AStr _ => Err XType      (* sum() refuses strings *)
                             | _, _ => builtin_sum a t
                             end
              | Ok (VL _) => Err XUnmodelled
              | Err e => Err e
              end
  end.

Definition as_atom (v : val) : res atom :=
  match v with VA a => Ok a | VL _ => Err XUnmodelled end.

Section Eval.
Variable fl : flavour.

Fixpoint eval (en : env) (e : expr) : res val :=
  match e with
  | EFld TA i => Ok (VA (safe_get (e_a en) i))
  | EFld TB i => Ok (VA (b_field (e_b en) i))
  | ENR => Ok (VInt (Z.of_nat (e_nr en)))
  | ENF => Ok (VInt (Z.of_nat (e_nf en)))
  | EBNR => match e_b en with
            | BRec bnr _ _ => Ok (VA (opt_nat_atom bnr))
            | BNull => Ok VNone
            | BNoJoin => Err XUnmodelled
            end
  | EBNF => match e_b en with
            | BRec _ bnf _ => Ok (VInt (Z.of_nat bnf))
            | BNull => Ok VNone
            | BNoJoin => Err XUnmodelled
            end
  | ENU => Ok (VInt (Z.of_nat (e_nu en)))
  | ELit a => Ok (VA a)
  | EAdd x y =>
      do vx <- eval en x; do vy <- eval en y;
      match vx, vy with
      | VA a, VA b => add_atoms a b
      | VL a, VL b => Ok (VL (a ++ b))
      | _, _ => Err XType
      end
  | EEq x y => do vx <- eval en x; do vy <- eval en y; Ok (VBool (val_eqb vx vy))
  | ENe x y => do vx <- eval en x; do vy <- eval en y; Ok (VBool (negb (val_eqb vx vy)))
  | ELt x y =>
      do vx <- eval en x; do vy <- eval en y;
      match vx, vy with
      | VA a, VA b => match atom_ltb a b with Some r => Ok (VBool r) | None => Err XType end
      | _, _ => Err XUnmodelled
      end
  | ELe x y =>
      do vx <- eval en x; do vy <- eval en y;
      match vx, vy with
      | VA a, VA b => match atom_ltb b a with Some r => Ok (VBool (negb r)) | None => Err XType end
      | _, _ => Err XUnmodelled
      end
  | EAnd x y => do vx <- eval en x; if truthy vx then eval en y else Ok vx
  | EOr x y => do vx <- eval en x; if truthy vx then Ok vx else eval en y
  | ENot x => do vx <- eval en x; Ok (VBool (negb (truthy vx)))
  | ELen x =>
      do vx <- eval en x;
      match vx with
      | VA (AStr s) => Ok (VInt (Z.of_nat (length s)))
      | VL l => Ok (VInt (Z.of_nat (length l)))
      | _ => Err XType
      end
  | EInt x =>
      do vx <- eval en x;
      match vx with
      | VA (AStr s) => match parse_int s with Some z => Ok (VInt z) | None => Err XValue end
      | VA (AInt z) => Ok (VInt z)
      | VA (ABool b) => Ok (VInt (Z_of_bool b))
      | VA ANone => Err XType
      | _ => Err XUnmodelled
      end
  | ELike x y =>
      do vx <- eval en x; do vy <- eval en y;
      match vx, vy with
      | VA (AStr t), VA (AStr p) => Ok (VBool (like fl t p))
      | _, _ => Err XType
      end
  | ECond c x y => do vc <- eval en c; if truthy vc then eval en x else eval en y
  | EList l =>
      match (fix go (l : list expr) : res (list atom) :=
               match l with
               | [] => Ok []
               | h :: t => do vh <- eval en h; do ah <- as_atom vh; do r <- go t; Ok (ah :: r)
               end) l with
      | Ok a => Ok (VL a)
      | Err e => Err e
      end
  | EMinMax is_max l =>
      match (fix go (l : list expr) : res (list atom) :=
               match l with
               | [] => Ok []
               | h :: t => do vh <- eval en h; do ah <- as_atom vh; do r <- go t; Ok (ah :: r)
               end) l with
      | Ok (a :: b :: r) => builtin_minmax is_max (a :: b :: r)
      | Ok _ => Err XUnmodelled              (* fewer than two arguments: the aggregate / single-iterable forms *)
      | Err e => Err e
      end
  | EMinMaxL is_max x =>
      do vx <- eval en x;
      match vx with VL l => builtin_minmax is_max l | VA _ => Err XUnmodelled end
  | ESumL x =>
      do vx <- eval en x;
      match vx with VL l => builtin_sum (AInt 0) l | VA _ => Err XUnmodelled end
  end.
End Eval.
