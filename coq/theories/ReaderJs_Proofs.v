(* ReaderJs_Proofs.v — proofs about ReaderJs.v (JS push reader).
   Part 1: the chunk layer (partially_decoded_line / ..._ends_with_cr / split_lines / first_line_index) hands exactly
           split_lines (concat chunks) to process_line (C20_lines); the bulk path does the same on the whole text.
   Part 2: the producer (process_line ... process_record_line, MultilineRecordAggregator) computes the records_of_lines spec.
   Part 3: the consumer-facing side (queue, exception storing, promise callbacks): the outcome of get_header/get_all_records does
           not depend on when the continuations run.
   Part 4: stream = bulk (C20_stream_is_bulk), byte level with the UTF-8 decoder, Python reader = JS reader (readers_agree). *)
From RBQL Require Import Base Lines Utf8 Reader ReaderJs Reader_Proofs Utf8_Proofs.

(* ------------------------------------------------------------------ Part 1: lines *)

Lemma js_split_fuel_enough : forall f1 f2 t,
  (length t < f1)%nat -> (length t < f2)%nat -> js_split_fuel f1 t = js_split_fuel f2 t.
Proof.
  induction f1 as [|f1 IH]; intros f2 t H1 H2; [lia|].
  destruct f2 as [|f2]; [lia|]. cbn [js_split_fuel].
  destruct (extract t) as [[[b s] a]|] eqn:E; [|reflexivity].
  pose proof (extract_shorter _ _ _ _ E). f_equal. apply IH; lia.
Qed.

Lemma js_split_unfold t :
  js_split_lines t = match extract t with None => [t] | Some (b, _, a) => b :: js_split_lines a end.
Proof.
  unfold js_split_lines at 1. cbn [js_split_fuel].
  destruct (extract t) as [[[b s] a]|] eqn:E; [|reflexivity].
  pose proof (extract_shorter _ _ _ _ E). f_equal. unfold js_split_lines. apply js_split_fuel_enough; lia.
Qed.

Lemma js_split_nonempty t : js_split_lines t <> [].
Proof. rewrite js_split_unfold. destruct (extract t) as [[[b s] a]|]; discriminate. Qed.

Definition ends_cr (t : str) : bool := match last_opt t with Some c => N.eqb c CR | None => false end.
Definition starts_lf (t : str) : bool := match t with c :: _ => N.eqb c LF | [] => false end.

Lemma last_opt_cons {T} (x : T) l : l <> [] -> last_opt (x :: l) = last_opt l.
Proof. destruct l; [congruence|reflexivity]. Qed.

Lemma last_opt_app {T} (a b : list T) : b <> [] -> last_opt (a ++ b) = last_opt b.
Proof.
  intros Hb. induction a as [|x a IH]; [reflexivity|]. cbn [app]. rewrite last_opt_cons; [exact IH|].
  destruct a; [exact Hb|discriminate].
Qed.

Lemma ends_cr_cons x t : t <> [] -> ends_cr (x :: t) = ends_cr t.
Proof. intros H. unfold ends_cr. rewrite last_opt_cons by exact H. reflexivity. Qed.

(* how the shape of the first break determines whether the text ends in CR *)
Lemma extract_ends_cr : forall t,
  match extract t with
  | None => ends_cr t = false
  | Some (b, sp, a) =>
      match sp, a with
      | SCR, [] => ends_cr t = true
      | _, _ => ends_cr t = ends_cr a
      end
  end.
Proof.
  induction t as [|c t IH]; [reflexivity|]. cbn [extract].
  destruct (N.eqb c LF) eqn:E1.
  - destruct t as [|c2 t2]; [unfold ends_cr; cbn; apply N.eqb_eq in E1; subst; reflexivity|].
    apply ends_cr_cons. discriminate.
  - destruct (N.eqb c CR) eqn:E2.
    + destruct t as [|c2 t2]; [unfold ends_cr; cbn; exact E2|].
      destruct (N.eqb c2 LF) eqn:E3.
      * destruct t2 as [|c3 t3].
        -- unfold ends_cr. cbn. apply N.eqb_eq in E3. subst. reflexivity.
        -- rewrite ends_cr_cons by discriminate. apply ends_cr_cons. discriminate.
      * apply ends_cr_cons. discriminate.
    + destruct (extract t) as [[[b s] a]|] eqn:Et.
      * assert (Hne : t <> []) by (destruct t; [discriminate|discriminate]).
        rewrite (ends_cr_cons c t Hne). exact IH.
      * destruct t as [|c2 t2]; [unfold ends_cr; cbn; exact E2|].
        rewrite ends_cr_cons by discriminate. exact IH.
Qed.

Lemma removelast_cons {T} (x : T) l : l <> [] -> removelast (x :: l) = x :: removelast l.
Proof. destruct l; [congruence|reflexivity]. Qed.

Lemma last_cons {T} (x : T) l d : l <> [] -> last (x :: l) d = last l d.
Proof. destruct l; [congruence|reflexivity]. Qed.

Lemma hd_tl {T} (l : list T) d : l <> [] -> hd d l :: tl l = l.
Proof. destruct l; [congruence|reflexivity]. Qed.

(* splitting a concatenation: the two piece lists are glued at the seam, except that a CR | LF seam is one break *)
Lemma js_split_app : forall n T d, (length T < n)%nat ->
  js_split_lines (T ++ d) =
  if ends_cr T && starts_lf d
  then removelast (js_split_lines T) ++ js_split_lines (tl d)
  else removelast (js_split_lines T) ++ (last (js_split_lines T) [] ++ hd [] (js_split_lines d)) :: tl (js_split_lines d).
Proof.
  induction n as [|n IH]; intros T d Hn; [lia|].
  rewrite (js_split_unfold T). pose proof (extract_ends_cr T) as HE.
  destruct (extract T) as [[[b sp] a]|] eqn:E.
  - assert (Hgen : sep_tail sp a -> ends_cr T = ends_cr a ->
        js_split_lines (T ++ d) =
        if ends_cr T && starts_lf d
        then removelast (b :: js_split_lines a) ++ js_split_lines (tl d)
        else removelast (b :: js_split_lines a) ++ (last (b :: js_split_lines a) [] ++ hd [] (js_split_lines d)) :: tl (js_split_lines d)).
    { intros Ht Hec. rewrite (js_split_unfold (T ++ d)), (extract_app_some _ _ _ _ d E Ht).
      pose proof (extract_shorter _ _ _ _ E) as Hs. rewrite (IH a d) by lia.
      rewrite Hec, (removelast_cons b _ (js_split_nonempty a)), (last_cons b _ [] (js_split_nonempty a)).
      destruct (ends_cr a && starts_lf d); reflexivity. }
    destruct sp; try (apply Hgen; [intros [C _]; discriminate|exact HE]).
    destruct a as [|a0 a']; [|apply Hgen; [intros [_ C]; discriminate|exact HE]].
    clear Hgen. rewrite HE. cbn [andb]. rewrite (js_split_unfold (T ++ d)), (extract_app_cr _ _ d E).
    rewrite (js_split_unfold []). cbn [extract removelast last app].
    destruct d as [|c d']; cbn [starts_lf].
    + rewrite (js_split_unfold []). cbn. reflexivity.
    + destruct (N.eqb c LF); cbn [tl].
      * reflexivity.
      * f_equal. symmetry. apply hd_tl. apply js_split_nonempty.
  - rewrite HE. cbn [andb removelast last app]. rewrite (js_split_unfold (T ++ d)), (extract_app_none _ d E).
    rewrite (js_split_unfold d). destruct (extract d) as [[[b sp] a]|]; reflexivity.
Qed.

(* the bulk path: split, drop a final empty piece = the specification of line breaking *)
Lemma lines_js_bulk_spec : forall n t, (length t < n)%nat -> lines_js_bulk t = split_lines t.
Proof.
  unfold lines_js_bulk. induction n as [|n IH]; intros t Hn; [lia|].
  rewrite split_lines_next, (js_split_unfold t). unfold next.
  destruct (extract t) as [[[b sp] a]|] eqn:E.
  - pose proof (extract_shorter _ _ _ _ E) as Hs. rewrite <- (IH a) by lia.
    rewrite (last_opt_cons b _ (js_split_nonempty a)).
    destruct (last_opt (js_split_lines a)) as [[|x y]|]; [|reflexivity|reflexivity].
    apply removelast_cons. apply js_split_nonempty.
  - destruct t; reflexivity.
Qed.

Theorem js_bulk_lines t : lines_js_bulk t = split_lines t.
Proof. apply (lines_js_bulk_spec (S (length t))). lia. Qed.

(* the condition under which the stream path is faithful: an EMPTY chunk resets ..._ends_with_cr, so a chunk that starts
   with LF must not come after an empty chunk that follows a chunk ending in CR.
   [tcr] = the text so far ends in CR; [flag] = partially_decoded_line_ends_with_cr *)
Fixpoint js_chunks_ok (tcr flag : bool) (chunks : list str) : Prop :=
  match chunks with
  | [] => True
  | d :: r =>
      match d with
      | [] => js_chunks_ok tcr false r
      | _ => (starts_lf d = true -> tcr = true -> flag = true) /\ js_chunks_ok (ends_cr d) (ends_cr d) r
      end
  end.

Lemma js_chunks_ok_nonempty : forall chunks b, Forall (fun d => d <> []) chunks -> js_chunks_ok b b chunks.
Proof.
  induction chunks as [|d r IH]; intros b H; [exact I|].
  inversion H as [|? ? Hd Hr]; subst. cbn [js_chunks_ok]. destruct d as [|c d']; [congruence|].
  split; [auto|apply IH; exact Hr].
Qed.

Lemma ends_cr_app T d : d <> [] -> ends_cr (T ++ d) = ends_cr d.
Proof. intros H. unfold ends_cr. rewrite last_opt_app by exact H. reflexivity. Qed.

Lemma app_removelast_last' {T} (l : list T) d : l <> [] -> removelast l ++ [last l d] = l.
Proof. intros H. symmetry. apply app_removelast_last. exact H. Qed.

Lemma removelast_snoc {T} (E : list T) x : removelast (E ++ [x]) = E.
Proof. apply removelast_last. Qed.

Lemma last_snoc {T} (E : list T) x d : last (E ++ [x]) d = x.
Proof. apply last_last. Qed.

(* invariant: the pieces of the text so far = the lines already handed over ++ [partially_decoded_line] *)
Lemma lines_js_inv : forall chunks T E pdl flag,
  js_split_lines T = E ++ [pdl] -> (flag = true -> ends_cr T = true) -> js_chunks_ok (ends_cr T) flag chunks ->
  E ++ lines_js_from pdl flag chunks = split_lines (T ++ concat chunks).
Proof.
  induction chunks as [|d r IH]; intros T E pdl flag HT Hflag Hok.
  - cbn [lines_js_from concat]. rewrite app_nil_r, <- js_bulk_lines. unfold lines_js_bulk. rewrite HT.
    rewrite last_opt_app by discriminate. cbn [last_opt].
    destruct pdl as [|p0 p']; [rewrite removelast_snoc, app_nil_r; reflexivity|reflexivity].
  - cbn [lines_js_from concat]. rewrite app_assoc.
    pose proof (js_split_app (S (length T)) T d (Nat.lt_succ_diag_r _)) as Happ. rewrite HT, removelast_snoc, last_snoc in Happ.
    unfold chunk_lines.
    set (lines0 := (pdl ++ hd [] (js_split_lines d)) :: tl (js_split_lines d)) in *.
    destruct d as [|c d'].
    + (* empty chunk: nothing happens, except that the CR flag is lost *)
      cbn [js_chunks_ok] in Hok. rewrite app_nil_r in *. cbn [starts_lf last_opt andb].
      unfold lines0. rewrite (js_split_unfold []). cbn [extract hd tl removelast last app]. rewrite app_nil_r.
      cbn [app]. apply (IH T E pdl false HT); [discriminate|exact Hok].
    + cbn [js_chunks_ok] in Hok. destruct Hok as [Hlf Hok'].
      assert (Hec : ends_cr (T ++ c :: d') = ends_cr (c :: d')) by (apply ends_cr_app; discriminate).
      change (match last_opt (c :: d') with Some c0 => N.eqb c0 CR | None => false end) with (ends_cr (c :: d')).
      cbn [starts_lf] in *.
      destruct (N.eqb c LF) eqn:Elf.
      * destruct (ends_cr T) eqn:Ecr.
        -- (* CR | LF seam *)
           rewrite (Hlf eq_refl eq_refl). cbn [andb] in *. cbn [tl] in Happ.
           assert (Hl0 : lines0 = (pdl ++ []) :: js_split_lines d').
           { unfold lines0. rewrite (js_split_unfold (c :: d')). cbn [extract]. rewrite Elf. reflexivity. }
           rewrite Hl0. rewrite (removelast_cons _ _ (js_split_nonempty d')), (last_cons _ _ [] (js_split_nonempty d')). cbn [tl].
           rewrite app_assoc. apply IH.
           ++ rewrite Happ, <- app_assoc. f_equal. apply app_removelast_last. apply js_split_nonempty.
           ++ intros Hf. rewrite Hec. exact Hf.
           ++ rewrite Hec. exact Hok'.
        -- (* LF at the start of the chunk, no CR before: an ordinary break *)
           assert (Hfl : flag = false) by (destruct flag; [specialize (Hflag eq_refl); discriminate|reflexivity]).
           rewrite Hfl. cbn [andb] in *. rewrite app_assoc. apply IH.
           ++ rewrite Happ. fold lines0. rewrite <- app_assoc. f_equal. apply app_removelast_last. discriminate.
           ++ intros Hf. rewrite Hec. exact Hf.
           ++ rewrite Hec. exact Hok'.
      * rewrite andb_false_r in Happ. cbn [andb]. rewrite app_assoc. apply IH.
        ++ rewrite Happ. fold lines0. rewrite <- app_assoc. f_equal. apply app_removelast_last. discriminate.
        ++ intros Hf. rewrite Hec. exact Hf.
        ++ rewrite Hec. exact Hok'.
Qed.

(* C20_lines *)
Theorem js_lines chunks : js_chunks_ok false false chunks -> lines_js chunks = split_lines (concat chunks).
Proof.
  intros H. unfold lines_js. apply (lines_js_inv chunks [] [] [] false); [reflexivity|discriminate|exact H].
Qed.

Corollary js_lines_nonempty chunks : Forall (fun d => d <> []) chunks -> lines_js chunks = split_lines (concat chunks).
Proof. intros H. apply js_lines. apply js_chunks_ok_nonempty. exact H. Qed.

(* the faithful model leaves the specification when a stream delivers an empty chunk between CR and LF *)
Lemma js_empty_chunk_refuted :
  exists chunks, lines_js chunks <> split_lines (concat chunks).
Proof. exists [[97; CR]; []; [LF; 98]]%N. vm_compute. discriminate. Qed.
