(* ReaderJs_Proofs.v — proofs about ReaderJs.v (JS push reader).
   Part 1: the chunk layer (partially_decoded_line / ..._ends_with_cr / split_lines / first_line_index) hands exactly
           split_lines (concat chunks) to process_line (C20_lines); the bulk path does the same on the whole text.
   Part 2: the producer (process_line ... process_record_line, MultilineRecordAggregator) computes the records_of_lines spec.
   Part 3: the consumer-facing side (queue, exception storing, promise callbacks): the outcome of get_header/get_all_records does
           not depend on when the continuations run.
   Part 4: stream = bulk (C20_stream_is_bulk), byte level with the UTF-8 decoder, Python reader = JS reader (readers_agree). *)
From RBQL Require Import Base Lines Utf8 Reader ReaderJs Reader_Proofs Utf8_Proofs.

(* ------------------------------------------------------------------ Part 1: lines *)

Lemma js_split_fuel_enough : forall f1 f2 t,
  (length t < f1)%nat -> (length t < f2)%nat -> js_split_fuel f1 t = js_split_fuel f2 t.
Proof.
  induction f1 as [|f1 IH]; intros f2 t H1 H2; [lia|].
  destruct f2 as [|f2]; [lia|]. cbn [js_split_fuel].
  destruct (extract t) as [[[b s] a]|] eqn:E; [|reflexivity].
  pose proof (extract_shorter _ _ _ _ E). f_equal. apply IH; lia.
Qed.

Lemma js_split_unfold t :
  js_split_lines t = match extract t with None => [t] | Some (b, _, a) => b :: js_split_lines a end.
Proof.
  unfold js_split_lines at 1. cbn [js_split_fuel].
  destruct (extract t) as [[[b s] a]|] eqn:E; [|reflexivity].
  pose proof (extract_shorter _ _ _ _ E). f_equal. unfold js_split_lines. apply js_split_fuel_enough; lia.
Qed.

Lemma js_split_nonempty t : js_split_lines t <> [].
Proof. rewrite js_split_unfold. destruct (extract t) as [[[b s] a]|]; discriminate. Qed.

Definition ends_cr (t : str) : bool := match last_opt t with Some c => N.eqb c CR | None => false end.
Definition starts_lf (t : str) : bool := match t with c :: _ => N.eqb c LF | [] => false end.

Lemma last_opt_cons {T} (x : T) l : l <> [] -> last_opt (x :: l) = last_opt l.
Proof. destruct l; [congruence|reflexivity]. Qed.

Lemma last_opt_app {T} (a b : list T) : b <> [] -> last_opt (a ++ b) = last_opt b.
Proof.
  intros Hb. induction a as [|x a IH]; [reflexivity|]. cbn [app]. rewrite last_opt_cons; [exact IH|].
  destruct a; [exact Hb|discriminate].
Qed.

Lemma ends_cr_cons x t : t <> [] -> ends_cr (x :: t) = ends_cr t.
Proof. intros H. unfold ends_cr. rewrite last_opt_cons by exact H. reflexivity. Qed.

(* how the shape of the first break determines whether the text ends in CR *)
Lemma extract_ends_cr : forall t,
  match extract t with
  | None => ends_cr t = false
  | Some (b, sp, a) =>
      match sp, a with
      | SCR, [] => ends_cr t = true
      | _, _ => ends_cr t = ends_cr a
      end
  end.
Proof.
  induction t as [|c t IH]; [reflexivity|]. cbn [extract].
  destruct (N.eqb c LF) eqn:E1.
  - destruct t as [|c2 t2]; [unfold ends_cr; cbn; apply N.eqb_eq in E1; subst; reflexivity|].
    apply ends_cr_cons. discriminate.
  - destruct (N.eqb c CR) eqn:E2.
    + destruct t as [|c2 t2]; [unfold ends_cr; cbn; exact E2|].
      destruct (N.eqb c2 LF) eqn:E3.
      * destruct t2 as [|c3 t3].
        -- unfold ends_cr. cbn. apply N.eqb_eq in E3. subst. reflexivity.
        -- rewrite ends_cr_cons by discriminate. apply ends_cr_cons. discriminate.
      * apply ends_cr_cons. discriminate.
    + destruct (extract t) as [[[b s] a]|] eqn:Et.
      * assert (Hne : t <> []) by (destruct t; [discriminate|discriminate]).
        rewrite (ends_cr_cons c t Hne). exact IH.
      * destruct t as [|c2 t2]; [unfold ends_cr; cbn; exact E2|].
        rewrite ends_cr_cons by discriminate. exact IH.
Qed.

Lemma removelast_cons {T} (x : T) l : l <> [] -> removelast (x :: l) = x :: removelast l.
Proof. destruct l; [congruence|reflexivity]. Qed.

Lemma last_cons {T} (x : T) l d : l <> [] -> last (x :: l) d = last l d.
Proof. destruct l; [congruence|reflexivity]. Qed.

Lemma hd_tl {T} (l : list T) d : l <> [] -> hd d l :: tl l = l.
Proof. destruct l; [congruence|reflexivity]. Qed.

(* splitting a concatenation: the two piece lists are glued at the seam, except that a CR | LF seam is one break *)
Lemma js_split_app : forall n T d, (length T < n)%nat ->
  js_split_lines (T ++ d) =
  if ends_cr T && starts_lf d
  then removelast (js_split_lines T) ++ js_split_lines (tl d)
  else removelast (js_split_lines T) ++ (last (js_split_lines T) [] ++ hd [] (js_split_lines d)) :: tl (js_split_lines d).
Proof.
  induction n as [|n IH]; intros T d Hn; [lia|].
  rewrite (js_split_unfold T). pose proof (extract_ends_cr T) as HE.
  destruct (extract T) as [[[b sp] a]|] eqn:E.
  - assert (Hgen : sep_tail sp a -> ends_cr T = ends_cr a ->
        js_split_lines (T ++ d) =
        if ends_cr T && starts_lf d
        then removelast (b :: js_split_lines a) ++ js_split_lines (tl d)
        else removelast (b :: js_split_lines a) ++ (last (b :: js_split_lines a) [] ++ hd [] (js_split_lines d)) :: tl (js_split_lines d)).
    { intros Ht Hec. rewrite (js_split_unfold (T ++ d)), (extract_app_some _ _ _ _ d E Ht).
      pose proof (extract_shorter _ _ _ _ E) as Hs. rewrite (IH a d) by lia.
      rewrite Hec, (removelast_cons b _ (js_split_nonempty a)), (last_cons b _ [] (js_split_nonempty a)).
      destruct (ends_cr a && starts_lf d); reflexivity. }
    destruct sp; try (apply Hgen; [intros [C _]; discriminate|exact HE]).
    destruct a as [|a0 a']; [|apply Hgen; [intros [_ C]; discriminate|exact HE]].
    clear Hgen. rewrite HE. cbn [andb]. rewrite (js_split_unfold (T ++ d)), (extract_app_cr _ _ d E).
    rewrite (js_split_unfold []). cbn [extract removelast last app].
    destruct d as [|c d']; cbn [starts_lf].
    + rewrite (js_split_unfold []). cbn. reflexivity.
    + destruct (N.eqb c LF); cbn [tl].
      * reflexivity.
      * f_equal. symmetry. apply hd_tl. apply js_split_nonempty.
  - rewrite HE. cbn [andb removelast last app]. rewrite (js_split_unfold (T ++ d)), (extract_app_none _ d E).
    rewrite (js_split_unfold d). destruct (extract d) as [[[b sp] a]|]; reflexivity.
Qed.

(* the bulk path: split, drop a final empty piece = the specification of line breaking *)
Lemma lines_js_bulk_spec : forall n t, (length t < n)%nat -> lines_js_bulk t = split_lines t.
Proof.
  unfold lines_js_bulk. induction n as [|n IH]; intros t Hn; [lia|].
  rewrite split_lines_next, (js_split_unfold t). unfold next.
  destruct (extract t) as [[[b sp] a]|] eqn:E.
  - pose proof (extract_shorter _ _ _ _ E) as Hs. rewrite <- (IH a) by lia.
    rewrite (last_opt_cons b _ (js_split_nonempty a)).
    destruct (last_opt (js_split_lines a)) as [[|x y]|]; [|reflexivity|reflexivity].
    apply removelast_cons. apply js_split_nonempty.
  - destruct t; reflexivity.
Qed.

Theorem js_bulk_lines t : lines_js_bulk t = split_lines t.
Proof. apply (lines_js_bulk_spec (S (length t))). lia. Qed.

(* the condition under which the stream path is faithful: an EMPTY chunk resets ..._ends_with_cr, so a chunk that starts
   with LF must not come after an empty chunk that follows a chunk ending in CR.
   [tcr] = the text so far ends in CR; [flag] = partially_decoded_line_ends_with_cr *)
Fixpoint js_chunks_ok (tcr flag : bool) (chunks : list str) : Prop :=
  match chunks with
  | [] => True
  | d :: r =>
      match d with
      | [] => js_chunks_ok tcr false r
      | _ => (starts_lf d = true -> tcr = true -> flag = true) /\ js_chunks_ok (ends_cr d) (ends_cr d) r
      end
  end.

Lemma js_chunks_ok_nonempty : forall chunks b, Forall (fun d => d <> []) chunks -> js_chunks_ok b b chunks.
Proof.
  induction chunks as [|d r IH]; intros b H; [exact I|].
  inversion H as [|? ? Hd Hr]; subst. cbn [js_chunks_ok]. destruct d as [|c d']; [congruence|].
  split; [auto|apply IH; exact Hr].
Qed.

Lemma ends_cr_app T d : d <> [] -> ends_cr (T ++ d) = ends_cr d.
Proof. intros H. unfold ends_cr. rewrite last_opt_app by exact H. reflexivity. Qed.

Lemma app_removelast_last' {T} (l : list T) d : l <> [] -> removelast l ++ [last l d] = l.
Proof. intros H. symmetry. apply app_removelast_last. exact H. Qed.

Lemma removelast_snoc {T} (E : list T) x : removelast (E ++ [x]) = E.
Proof. apply removelast_last. Qed.

Lemma last_snoc {T} (E : list T) x d : last (E ++ [x]) d = x.
Proof. apply last_last. Qed.

(* invariant: the pieces of the text so far = the lines already handed over ++ [partially_decoded_line] *)
Lemma lines_js_inv : forall chunks T E pdl flag,
  js_split_lines T = E ++ [pdl] -> (flag = true -> ends_cr T = true) -> js_chunks_ok (ends_cr T) flag chunks ->
  E ++ lines_js_from pdl flag chunks = split_lines (T ++ concat chunks).
Proof.
  induction chunks as [|d r IH]; intros T E pdl flag HT Hflag Hok.
  - cbn [lines_js_from concat]. rewrite app_nil_r, <- js_bulk_lines. unfold lines_js_bulk. rewrite HT.
    rewrite last_opt_app by discriminate. cbn [last_opt].
    destruct pdl as [|p0 p']; [rewrite removelast_snoc, app_nil_r; reflexivity|reflexivity].
  - cbn [lines_js_from concat]. rewrite app_assoc.
    pose proof (js_split_app (S (length T)) T d (Nat.lt_succ_diag_r _)) as Happ. rewrite HT, removelast_snoc, last_snoc in Happ.
    unfold chunk_lines.
    set (lines0 := (pdl ++ hd [] (js_split_lines d)) :: tl (js_split_lines d)) in *.
    destruct d as [|c d'].
    + (* empty chunk: nothing happens, except that the CR flag is lost *)
      cbn [js_chunks_ok] in Hok. rewrite app_nil_r in *. cbn [starts_lf last_opt andb].
      unfold lines0. rewrite (js_split_unfold []). cbn [extract hd tl removelast last app]. rewrite app_nil_r.
      cbn [app]. apply (IH T E pdl false HT); [discriminate|exact Hok].
    + cbn [js_chunks_ok] in Hok. destruct Hok as [Hlf Hok'].
      assert (Hec : ends_cr (T ++ c :: d') = ends_cr (c :: d')) by (apply ends_cr_app; discriminate).
      change (match last_opt (c :: d') with Some c0 => N.eqb c0 CR | None => false end) with (ends_cr (c :: d')).
      cbn [starts_lf] in *.
      destruct (N.eqb c LF) eqn:Elf.
      * destruct (ends_cr T) eqn:Ecr.
        -- (* CR | LF seam *)
           rewrite (Hlf eq_refl eq_refl). cbn [andb] in *. cbn [tl] in Happ.
           assert (Hl0 : lines0 = (pdl ++ []) :: js_split_lines d').
           { unfold lines0. rewrite (js_split_unfold (c :: d')). cbn [extract]. rewrite Elf. reflexivity. }
           rewrite Hl0. rewrite (removelast_cons _ _ (js_split_nonempty d')), (last_cons _ _ [] (js_split_nonempty d')). cbn [tl].
           rewrite app_assoc. apply IH.
           ++ rewrite Happ, <- app_assoc. f_equal. apply app_removelast_last. apply js_split_nonempty.
           ++ intros Hf. rewrite Hec. exact Hf.
           ++ rewrite Hec. exact Hok'.
        -- (* LF at the start of the chunk, no CR before: an ordinary break *)
           assert (Hfl : flag = false) by (destruct flag; [specialize (Hflag eq_refl); discriminate|reflexivity]).
           rewrite Hfl. cbn [andb] in *. rewrite app_assoc. apply IH.
           ++ rewrite Happ. fold lines0. rewrite <- app_assoc. f_equal. apply app_removelast_last. discriminate.
           ++ intros Hf. rewrite Hec. exact Hf.
           ++ rewrite Hec. exact Hok'.
      * rewrite andb_false_r in Happ. cbn [andb]. rewrite app_assoc. apply IH.
        ++ rewrite Happ. fold lines0. rewrite <- app_assoc. f_equal. apply app_removelast_last. discriminate.
        ++ intros Hf. rewrite Hec. exact Hf.
        ++ rewrite Hec. exact Hok'.
Qed.

(* C20_lines *)
Theorem js_lines chunks : js_chunks_ok false false chunks -> lines_js chunks = split_lines (concat chunks).
Proof.
  intros H. unfold lines_js. apply (lines_js_inv chunks [] [] [] false); [reflexivity|discriminate|exact H].
Qed.

Corollary js_lines_nonempty chunks : Forall (fun d => d <> []) chunks -> lines_js chunks = split_lines (concat chunks).
Proof. intros H. apply js_lines. apply js_chunks_ok_nonempty. exact H. Qed.

(* the faithful model leaves the specification when a stream delivers an empty chunk between CR and LF *)
Lemma js_empty_chunk_refuted :
  exists chunks, lines_js chunks <> split_lines (concat chunks).
Proof. exists [[97; CR]; []; [LF; 98]]%N. vm_compute. discriminate. Qed.

(* ------------------------------------------------------------------ Part 3: the consumer-facing side *)

Definition Qof (q : jcons) : list (list str) := j_pull q ++ j_push q.
Definition first1 {T} (E : list T) : list T := match E with [] => [] | a :: _ => [a] end.

(* no exception stored so far. [E] = every record enqueued so far *)
Definition InvN (E : list (list str)) (cs : cstate) (q : jcons) : Prop :=
  j_exc q = None /\
  match cs with
  | CStart => j_pending q = false /\ j_inbox q = None /\ j_preread q = false /\ j_first_record q = None /\
              j_frse q = negb (j_has_header q) /\ E = Qof q
  | CPreread => j_preread q = false /\ j_first_record q = None /\ j_frse q = negb (j_has_header q) /\
      ((j_pending q = true /\ j_inbox q = None /\ Qof q = [] /\ E = []) \/
       (j_pending q = false /\ exists r, j_inbox q = Some (DRec r) /\ E = r :: Qof q) \/
       (j_pending q = false /\ j_inbox q = Some DNull /\ E = [] /\ Qof q = [] /\ j_exhausted q = true))
  | CLoop acc => j_preread q = true /\ j_frse q = false /\ j_first_record q = hd_error E /\
      let pre := if j_has_header q then first1 E else [] in
      ((j_pending q = true /\ j_inbox q = None /\ Qof q = [] /\ E = pre ++ acc /\ E <> []) \/
       (j_pending q = false /\ exists r, j_inbox q = Some (DRec r) /\ E = pre ++ acc ++ r :: Qof q) \/
       (j_pending q = false /\ j_inbox q = Some DNull /\ Qof q = [] /\ E = pre ++ acc /\ j_exhausted q = true))
  | CDone (inl recs) => j_pending q = false /\ Qof q = [] /\ j_exhausted q = true /\ j_first_record q = hd_error E /\
                        E = (if j_has_header q then first1 E else []) ++ recs
  | CDone (inr _) => False
  end.

(* the first stored exception was [e] *)
Definition InvX (e : jerr) (cs : cstate) (q : jcons) : Prop :=
  cs = CDone (inr e) \/
  ((cs = CPreread \/ exists acc, cs = CLoop acc) /\ j_inbox q = Some (DReject e) /\ j_pending q = false) \/
  (j_exc q = Some e /\ j_pending q = false /\
   (cs = CStart \/ ((cs = CPreread \/ exists acc, cs = CLoop acc) /\ exists r, j_inbox q = Some (DRec r)))).

Definition Inv (E : list (list str)) (X : option jerr) (cs : cstate) (q : jcons) : Prop :=
  match X with None => InvN E cs q | Some e => InvX e cs q end.

(* the consumer has not been told "end of input" *)
Definition no_null (cs : cstate) (q : jcons) : Prop :=
  j_inbox q <> Some DNull /\ (forall recs, cs <> CDone (inl recs)).

Definition ghost (a : action) (g : list (list str) * option jerr) : list (list str) * option jerr :=
  match a with
  | AEnqueue r => (fst g ++ [r], snd g)
  | AStore e => (fst g, match snd g with None => Some e | x => x end)
  | _ => g
  end.

Lemma dequeue_spec push pull :
  match pull ++ push with
  | [] => dequeue push pull = (None, [], [])
  | r :: rest => exists push' pull', dequeue push pull = (Some r, push', pull') /\ pull' ++ push' = rest
  end.
Proof.
  unfold dequeue. destruct pull as [|r p']; cbn [app].
  - destruct push as [|r rest]; [reflexivity|]. exists [], rest. split; [reflexivity|apply app_nil_r].
  - exists push, p'. auto.
Qed.

Lemma InvN_nonull_exhausted E cs q : InvN E cs q -> j_exhausted q = false -> no_null cs q.
Proof.
  intros [_ H] Hex. split.
  - intros Hn. destruct cs as [| |acc|[recs|e]]; cbn in H.
    + destruct H as (_ & C & _). congruence.
    + destruct H as (_ & _ & _ & [(_ & C & _)|[(_ & r & C & _)|(_ & _ & _ & _ & C)]]); congruence.
    + destruct H as (_ & _ & _ & [(_ & C & _)|[(_ & r & C & _)|(_ & _ & _ & _ & C)]]); congruence.
    + destruct H as (_ & _ & C & _). congruence.
    + exact H.
  - intros recs ->. cbn in H. destruct H as (_ & _ & C & _). congruence.
Qed.

Ltac q_destruct q := destruct q as [qex qexc qpush qpull qhh qfr qfrse qpre qpend qinbox]; unfold Qof in *; cbn [j_exhausted j_exc j_push j_pull j_has_header j_first_record j_frse j_preread j_pending j_inbox] in *.

Lemma firstn1_snoc {T} (E : list T) r : E <> [] -> first1 (E ++ [r]) = first1 E.
Proof. destruct E; [congruence|reflexivity]. Qed.
Lemma hd_error_snoc {T} (E : list T) r : E <> [] -> hd_error (E ++ [r]) = hd_error E.
Proof. destruct E; [congruence|reflexivity]. Qed.

Lemma act_enqueue_N E cs q r :
  InvN E cs q -> no_null cs q ->
  InvN (E ++ [r]) cs (do_action (AEnqueue r) q) /\ no_null cs (do_action (AEnqueue r) q).
Proof.
  intros [Hexc H] [Hnn Hnd]. q_destruct q. subst qexc.
  unfold do_action, try_resolve_next_record, try_propagate_exception, upd_q, InvN, no_null; cbn.
  destruct cs as [| |acc|[recs|e]]; cbn in H.
  - destruct H as (-> & -> & -> & -> & -> & ->). cbn. rewrite app_assoc. repeat split; try reflexivity; try discriminate.
  - destruct H as (-> & -> & -> & [(-> & -> & HQ & ->)|[(-> & r0 & -> & ->)|(-> & -> & _)]]); [| |congruence].
    + apply app_eq_nil in HQ. destruct HQ as [-> ->]. cbn. rewrite andb_false_r. cbn.
      split; [|split; [discriminate|discriminate]]. split; [reflexivity|]. repeat split; try reflexivity.
      right. left. split; [reflexivity|]. exists r. auto.
    + cbn. split; [|split; [discriminate|discriminate]]. split; [reflexivity|]. repeat split; try reflexivity.
      right. left. split; [reflexivity|]. exists r0. rewrite app_assoc. auto.
  - destruct H as (-> & -> & Hfr & [(-> & -> & HQ & HE & Hne)|[(-> & r0 & -> & HE)|(-> & -> & _)]]); [| |congruence].
    + apply app_eq_nil in HQ. destruct HQ as [-> ->]. cbn.
      split; [|split; [discriminate|discriminate]]. split; [reflexivity|]. split; [reflexivity|]. split; [reflexivity|].
      split; [rewrite hd_error_snoc by exact Hne; exact Hfr|].
      right. left. split; [reflexivity|]. exists r. split; [reflexivity|]. cbn.
      rewrite firstn1_snoc by exact Hne. rewrite HE at 1. rewrite <- app_assoc. reflexivity.
    + assert (Hne : E <> []). { rewrite HE. destruct (if qhh then first1 E else []); [destruct acc|]; discriminate. }
      cbn. split; [|split; [discriminate|discriminate]]. split; [reflexivity|]. split; [reflexivity|]. split; [reflexivity|].
      split; [rewrite hd_error_snoc by exact Hne; exact Hfr|].
      right. left. split; [reflexivity|]. exists r0. split; [reflexivity|].
      rewrite firstn1_snoc by exact Hne. rewrite HE at 1. rewrite <- !app_assoc. cbn. rewrite <- app_assoc. reflexivity.
  - exfalso. apply (Hnd recs). reflexivity.
  - contradiction.
Qed.

Lemma act_store_N E cs q e :
  InvN E cs q -> no_null cs q -> InvX e cs (do_action (AStore e) q) /\ no_null cs (do_action (AStore e) q).
Proof.
  intros [Hexc H] [Hnn Hnd]. q_destruct q. subst qexc.
  unfold do_action, store_or_propagate_exception, try_propagate_exception, upd_q, InvX, no_null; cbn.
  destruct cs as [| |acc|[recs|e0]]; cbn in H.
  - destruct H as (-> & -> & _). cbn. split; [right; right; auto|split; [discriminate|discriminate]].
  - destruct H as (_ & _ & _ & [(-> & -> & _)|[(-> & r0 & -> & _)|(-> & -> & _)]]); [| |congruence]; cbn.
    + split; [right; left; auto|split; [discriminate|discriminate]].
    + split; [right; right; split; [reflexivity|split; [reflexivity|right; split; [auto|exists r0; reflexivity]]]|split; [discriminate|discriminate]].
  - destruct H as (_ & _ & _ & [(-> & -> & _)|[(-> & r0 & -> & _)|(-> & -> & _)]]); [| |congruence]; cbn.
    + split; [right; left; split; [right; exists acc; reflexivity|auto]|split; [discriminate|discriminate]].
    + split; [right; right; split; [reflexivity|split; [reflexivity|right; split; [right; exists acc; reflexivity|exists r0; reflexivity]]]|split; [discriminate|discriminate]].
  - exfalso. apply (Hnd recs). reflexivity.
  - contradiction.
Qed.

(* once an exception is on record, nothing the producer does changes what the consumer will see *)
Lemma act_any_X e cs q a : InvX e cs q -> InvX e cs (do_action a q).
Proof.
  intros H. destruct H as [H|[(Hcs & Hin & Hp)|(Hexc & Hp & Hcs)]].
  - left. exact H.
  - right. left. q_destruct q. subst. split; [exact Hcs|].
    destruct a; unfold do_action, store_or_propagate_exception, try_resolve_next_record, try_propagate_exception, upd_q; cbn.
    + destruct qexc; cbn; auto.
    + destruct qexc; cbn; auto.
    + auto.
    + destruct qexc; cbn; auto.
  - right. right. q_destruct q. subst.
    destruct a; unfold do_action, store_or_propagate_exception, try_resolve_next_record, try_propagate_exception, upd_q; cbn; auto.
Qed.

Lemma act_exhausted_N E cs q :
  InvN E cs q -> InvN E cs (do_action AExhausted q) /\ (no_null cs q -> no_null cs (do_action AExhausted q)).
Proof.
  intros [Hexc H]. q_destruct q. subst qexc. unfold do_action, InvN, no_null; cbn. split; [|auto].
  split; [reflexivity|]. destruct cs as [| |acc|[recs|e0]]; cbn in H |- *.
  - exact H.
  - destruct H as (A & B & C & [D|[D|(D1 & D2 & D3 & D4 & D5)]]); repeat split; auto. right. right. auto.
  - destruct H as (A & B & C & [D|[D|(D1 & D2 & D3 & D4 & D5)]]); repeat split; auto. right. right. auto.
  - destruct H as (A & B & C & D & F). auto.
  - exact H.
Qed.

Lemma act_resolve_N E cs q :
  InvN E cs q -> InvN E cs (do_action AResolve q) /\
  (j_exhausted q = true -> j_pending (do_action AResolve q) = false).
Proof.
  intros [Hexc H]. q_destruct q. subst qexc.
  unfold do_action, try_resolve_next_record, try_propagate_exception, upd_q, InvN; cbn.
  destruct cs as [| |acc|[recs|e0]]; cbn in H.
  - destruct H as (-> & -> & -> & -> & -> & ->). cbn. repeat split; reflexivity.
  - destruct H as (-> & -> & -> & [(-> & -> & HQ & ->)|[(-> & r0 & -> & ->)|(-> & -> & -> & HQ & ->)]]).
    + apply app_eq_nil in HQ. destruct HQ as [-> ->]. cbn. rewrite andb_false_r. cbn.
      destruct qex; cbn.
      * split; [|reflexivity]. split; [reflexivity|]. repeat split; auto. right. right. auto.
      * split; [|discriminate]. split; [reflexivity|]. repeat split; auto; try solve [left; repeat split; auto].
    + cbn. split; [|reflexivity]. split; [reflexivity|]. repeat split; auto. right. left. split; [reflexivity|]. exists r0. auto.
    + cbn. split; [|reflexivity]. split; [reflexivity|]. repeat split; auto. right. right. auto.
  - destruct H as (-> & -> & Hfr & [(-> & -> & HQ & HE & Hne)|[(-> & r0 & -> & HE)|(-> & -> & HQ & HE & ->)]]).
    + apply app_eq_nil in HQ. destruct HQ as [-> ->]. cbn.
      destruct qex; cbn.
      * split; [|reflexivity]. split; [reflexivity|]. repeat split; auto. right. right. auto.
      * split; [|discriminate]. split; [reflexivity|]. repeat split; auto; try solve [left; repeat split; auto].
    + cbn. split; [|reflexivity]. split; [reflexivity|]. repeat split; auto. right. left. split; [reflexivity|]. exists r0. auto.
    + cbn. split; [|reflexivity]. split; [reflexivity|]. repeat split; auto. right. right. auto.
  - destruct H as (-> & HQ & -> & Hfr & HE). cbn. split; [|reflexivity]. split; [reflexivity|]. auto.
  - contradiction.
Qed.

Lemma run_inv_N : forall fuel E cs q,
  InvN E cs q -> InvN E (fst (consumer_run fuel cs q)) (snd (consumer_run fuel cs q)).
Proof.
  induction fuel as [|f IH]; intros E cs q HI; [exact HI|].
  cbn [consumer_run]. destruct cs as [| |acc|res].
  - (* CStart: get_header() -> preread_first_record() -> get_record() *)
    apply IH. destruct HI as [Hexc H]. q_destruct q. subst qexc. cbn in H.
    destruct H as (-> & -> & -> & -> & -> & ->).
    unfold call_get_record, try_resolve_next_record, try_propagate_exception, upd_q, InvN; cbn. rewrite andb_false_r. cbn.
    pose proof (dequeue_spec qpush qpull) as D. destruct (qpull ++ qpush) as [|r rest] eqn:EQ.
    + rewrite D. cbn. destruct qex; cbn; (split; [reflexivity|]); repeat split; auto. right. right. auto.
    + destruct D as (pu & pl & -> & Er). cbn. split; [reflexivity|]. repeat split; auto.
      right. left. split; [reflexivity|]. exists r. rewrite Er. auto.
  - destruct HI as [Hexc H]. q_destruct q. subst qexc. cbn in H.
    destruct H as (-> & -> & -> & [(-> & -> & HQ & ->)|[(-> & r0 & -> & ->)|(-> & -> & -> & HQ & ->)]]).
    + cbn. unfold InvN. cbn. repeat split; auto; try solve [left; repeat split; auto].
    + (* the first record arrives: header_preread_complete = true; get_all_records() -> get_record() *)
      cbn. apply IH. unfold call_get_record, try_resolve_next_record, try_propagate_exception, upd_q, InvN; cbn.
      rewrite andb_true_r. destruct qhh; cbn.
      * pose proof (dequeue_spec qpush qpull) as D. destruct (qpull ++ qpush) as [|r rest] eqn:EQ.
        -- rewrite D. cbn. destruct qex; cbn; (split; [reflexivity|]); repeat split; auto; try solve [left; repeat split; auto; discriminate].
           right. right. auto.
        -- destruct D as (pu & pl & -> & Er). cbn. split; [reflexivity|]. repeat split; auto.
           right. left. split; [reflexivity|]. exists r. rewrite Er. auto.
      * split; [reflexivity|]. repeat split; auto. right. left. split; [reflexivity|]. exists r0. auto.
    + (* end of input before any record *)
      cbn. apply IH. unfold call_get_record, try_resolve_next_record, try_propagate_exception, upd_q, InvN; cbn.
      apply app_eq_nil in HQ. destruct HQ as [-> ->]. rewrite andb_true_r. destruct qhh; cbn.
      * split; [reflexivity|]. repeat split; auto. right. right. auto.
      * split; [reflexivity|]. repeat split; auto. right. right. auto.
  - destruct HI as [Hexc H]. q_destruct q. subst qexc. cbn in H.
    destruct H as (-> & -> & Hfr & [(-> & -> & HQ & HE & Hne)|[(-> & r0 & -> & HE)|(-> & -> & HQ & HE & ->)]]).
    + cbn. unfold InvN. cbn. repeat split; auto; try solve [left; repeat split; auto].
    + cbn. apply IH. unfold call_get_record, try_resolve_next_record, try_propagate_exception, upd_q, InvN; cbn.
      assert (Hne : E <> []). { rewrite HE. destruct (if qhh then first1 E else []); [destruct acc|]; discriminate. }
      pose proof (dequeue_spec qpush qpull) as D. destruct (qpull ++ qpush) as [|r rest] eqn:EQ.
      * rewrite D. cbn. destruct qex; cbn; (split; [reflexivity|]); repeat split; auto.
        -- right. right. repeat split; auto.
        -- left. repeat split; auto.
      * destruct D as (pu & pl & -> & Er). cbn. split; [reflexivity|]. repeat split; auto.
        right. left. split; [reflexivity|]. exists r. split; [reflexivity|]. rewrite Er, <- app_assoc. exact HE.
    + cbn. unfold InvN. cbn. repeat split; auto.
  - exact HI.
Qed.

Lemma run_inv_X : forall fuel e cs q,
  InvX e cs q -> InvX e (fst (consumer_run fuel cs q)) (snd (consumer_run fuel cs q)).
Proof.
  induction fuel as [|f IH]; intros e cs q HI; [exact HI|].
  destruct HI as [H|[(Hcs & Hin & Hp)|(Hexc & Hp & Hcs)]].
  - subst cs. left. reflexivity.
  - q_destruct q. subst. destruct Hcs as [->|[acc ->]]; cbn; left; reflexivity.
  - q_destruct q. subst.
    destruct Hcs as [->|[[->|[acc ->]] [r ->]]]; cbn [consumer_run j_inbox]; apply IH; right; left;
      unfold call_get_record, try_resolve_next_record, try_propagate_exception, upd_q; cbn; eauto.
Qed.

Lemma consumer_run_exhausted : forall fuel cs q, j_exhausted (snd (consumer_run fuel cs q)) = j_exhausted q.
Proof.
  assert (Hc : forall q, j_exhausted (call_get_record q) = j_exhausted q).
  { intros q. unfold call_get_record, try_resolve_next_record, try_propagate_exception, upd_q. q_destruct q. cbn.
    destruct qexc; cbn; [reflexivity|]. destruct (qfrse && qpre); cbn.
    - destruct qfr; cbn; [reflexivity|]. destruct qex; reflexivity.
    - destruct (dequeue qpush qpull) as [[r pu] pl]. destruct r; cbn; [reflexivity|]. destruct qex; reflexivity. }
  induction fuel as [|f IH]; intros cs q; [reflexivity|]. cbn [consumer_run].
  destruct cs as [| |acc|res].
  - rewrite IH. apply Hc.
  - destruct (j_inbox q) as [[r| |e]|]; try reflexivity; rewrite IH, Hc; reflexivity.
  - destruct (j_inbox q) as [[r| |e]|]; try reflexivity. rewrite IH, Hc. reflexivity.
  - reflexivity.
Qed.

(* how many promise continuations are still needed before the consumer is done or has to wait *)
Definition mu (cs : cstate) (q : jcons) : nat :=
  (length (Qof q) + (match j_inbox q with Some (DRec _) => 1 | _ => 0 end) +
   match cs with CStart => 4 | CPreread => 3 | CLoop _ => 1 | CDone _ => 0 end)%nat.

Definition is_done (cs : cstate) : Prop := match cs with CDone _ => True | _ => False end.

Lemma consumer_run_S f cs q :
  consumer_run (S f) cs q = consumer_run f (fst (consumer_run 1 cs q)) (snd (consumer_run 1 cs q)).
Proof.
  cbn [consumer_run]. destruct cs as [| |acc|res]; cbn [fst snd].
  - reflexivity.
  - destruct (j_inbox q) as [[r| |e]|] eqn:Ei; cbn [fst snd]; try reflexivity.
    + destruct f; reflexivity.
    + destruct f; [reflexivity|]. cbn [consumer_run]. rewrite Ei. reflexivity.
  - destruct (j_inbox q) as [[r| |e]|] eqn:Ei; cbn [fst snd]; try reflexivity.
    + destruct f; reflexivity.
    + destruct f; reflexivity.
    + destruct f; [reflexivity|]. cbn [consumer_run]. rewrite Ei. reflexivity.
  - destruct f; reflexivity.
Qed.

(* one continuation, after the end of the input and with nobody waiting: progress *)
Lemma step_progress E cs q :
  InvN E cs q -> j_exhausted q = true -> j_pending q = false -> ~ is_done cs ->
  j_pending (snd (consumer_run 1 cs q)) = false /\
  (mu (fst (consumer_run 1 cs q)) (snd (consumer_run 1 cs q)) < mu cs q)%nat.
Proof.
  intros [Hexc H] Hex Hp Hnd. q_destruct q. subst qexc qex qpend. unfold mu, Qof.
  destruct cs as [| |acc|res]; cbn in H; cbn [consumer_run fst snd j_inbox].
  - destruct H as (_ & -> & -> & -> & -> & ->).
    unfold call_get_record, try_resolve_next_record, try_propagate_exception, upd_q. cbn. rewrite andb_false_r. cbn.
    pose proof (dequeue_spec qpush qpull) as D. destruct (qpull ++ qpush) as [|r rest] eqn:EQ.
    + rewrite D. cbn. split; [reflexivity|lia].
    + destruct D as (pu & pl & -> & Er). cbn. rewrite Er. cbn. split; [reflexivity|lia].
  - destruct H as (-> & -> & -> & [(C & _)|[(_ & r0 & -> & ->)|(_ & -> & -> & HQ & _)]]); [discriminate| |].
    + unfold call_get_record, try_resolve_next_record, try_propagate_exception, upd_q. cbn. rewrite andb_true_r.
      destruct qhh; cbn.
      * pose proof (dequeue_spec qpush qpull) as D. destruct (qpull ++ qpush) as [|r rest] eqn:EQ.
        -- rewrite D. cbn. split; [reflexivity|lia].
        -- destruct D as (pu & pl & -> & Er). cbn. rewrite Er. cbn. split; [reflexivity|lia].
      * split; [reflexivity|lia].
    + apply app_eq_nil in HQ. destruct HQ as [-> ->].
      unfold call_get_record, try_resolve_next_record, try_propagate_exception, upd_q. cbn. rewrite andb_true_r.
      destruct qhh; cbn; (split; [reflexivity|lia]).
  - destruct H as (-> & -> & Hfr & [(C & _)|[(_ & r0 & -> & HE)|(_ & -> & HQ & HE & _)]]); [discriminate| |].
    + unfold call_get_record, try_resolve_next_record, try_propagate_exception, upd_q. cbn.
      pose proof (dequeue_spec qpush qpull) as D. destruct (qpull ++ qpush) as [|r rest] eqn:EQ.
      * rewrite D. cbn. split; [reflexivity|lia].
      * destruct D as (pu & pl & -> & Er). cbn. rewrite Er. cbn. split; [reflexivity|lia].
    + cbn. split; [reflexivity|lia].
  - exfalso. apply Hnd. exact I.
Qed.

(* after the end of the input, with nobody waiting, the consumer runs to completion *)
Lemma run_complete_N : forall fuel E cs q,
  InvN E cs q -> j_exhausted q = true -> j_pending q = false -> (mu cs q <= fuel)%nat ->
  is_done (fst (consumer_run fuel cs q)).
Proof.
  induction fuel as [|f IH]; intros E cs q HI Hex Hp Hmu.
  - destruct cs; unfold mu in Hmu; cbn in Hmu; try lia. exact I.
  - assert (Hdec : is_done cs \/ ~ is_done cs) by (destruct cs; cbn; auto).
    destruct Hdec as [Hd|Hnd].
    + destruct cs; try contradiction. exact I.
    + rewrite consumer_run_S.
      destruct (step_progress E cs q HI Hex Hp Hnd) as [Hp' Hmu'].
      pose proof (run_inv_N 1 E cs q HI) as HI'.
      pose proof (consumer_run_exhausted 1 cs q) as Hex'. rewrite Hex in Hex'.
      remember (fst (consumer_run 1 cs q)) as cs'. remember (snd (consumer_run 1 cs q)) as q'.
      apply (IH E cs' q' HI' Hex' Hp'). lia.
Qed.

Lemma run_complete_X : forall e cs q, InvX e cs q -> forall fuel, (3 <= fuel)%nat -> fst (consumer_run fuel cs q) = CDone (inr e).
Proof.
  assert (Hb : forall e cs q, (cs = CPreread \/ exists acc, cs = CLoop acc) -> j_inbox q = Some (DReject e) ->
               forall f, fst (consumer_run (S f) cs q) = CDone (inr e)).
  { intros e cs q Hcs Hin f. cbn [consumer_run]. destruct Hcs as [->|[acc ->]]; rewrite Hin; reflexivity. }
  assert (Hcall : forall e q, j_exc q = Some e -> j_inbox (call_get_record q) = Some (DReject e)).
  { intros e q Hexc. q_destruct q. subst. reflexivity. }
  intros e cs q HI fuel Hf. destruct fuel as [|[|f]]; try lia.
  destruct HI as [H|[(Hcs & Hin & Hp)|(Hexc & Hp & Hcs)]].
  - subst cs. reflexivity.
  - apply Hb; assumption.
  - rewrite consumer_run_S. destruct Hcs as [->|[Hcs [r Hin]]].
    + change (consumer_run 1 CStart q) with (CPreread, call_get_record q). cbn [fst snd].
      apply Hb; [left; reflexivity|]. apply Hcall. exact Hexc.
    + destruct Hcs as [->|[acc ->]].
      * assert (E1 : exists q1, consumer_run 1 CPreread q = (CLoop [], call_get_record q1) /\ j_exc q1 = Some e).
        { cbn [consumer_run]. rewrite Hin. eexists. split; [reflexivity|]. exact Hexc. }
        destruct E1 as (q1 & -> & Hx). cbn [fst snd]. apply Hb; [right; exists []; reflexivity|]. apply Hcall. exact Hx.
      * assert (E1 : consumer_run 1 (CLoop acc) q = (CLoop (acc ++ [r]), call_get_record q)).
        { cbn [consumer_run]. rewrite Hin. reflexivity. }
        rewrite E1. cbn [fst snd]. apply Hb; [right; eexists; reflexivity|]. apply Hcall. exact Hexc.
Qed.

(* ------------------------------------------------------------------ events *)

Definition ghosts (acts : list action) (g : list (list str) * option jerr) : list (list str) * option jerr :=
  fold_left (fun g a => ghost a g) acts g.

Definition body_action (a : action) : Prop := match a with AStore _ | AEnqueue _ => True | _ => False end.

Definition InvG (g : list (list str) * option jerr) (cs : cstate) (q : jcons) : Prop := Inv (fst g) (snd g) cs q.

Lemma try_resolve_static q :
  j_exhausted (try_resolve_next_record q) = j_exhausted q /\ j_has_header (try_resolve_next_record q) = j_has_header q.
Proof.
  unfold try_resolve_next_record, try_propagate_exception, upd_q. q_destruct q. cbn.
  destruct qexc; cbn.
  - destruct qpend; cbn; auto.
  - destruct qpend; cbn; auto. destruct (qfrse && qpre); cbn.
    + destruct qfr; cbn; auto. destruct qex; auto.
    + destruct (dequeue qpush qpull) as [[r pu] pl]. destruct r; cbn; auto. destruct qex; auto.
Qed.

Lemma do_action_static a q :
  j_has_header (do_action a q) = j_has_header q /\
  (a <> AExhausted -> j_exhausted (do_action a q) = j_exhausted q).
Proof.
  destruct a; cbn [do_action].
  - unfold store_or_propagate_exception, try_propagate_exception, upd_q. q_destruct q. destruct qexc; cbn; destruct qpend; cbn; auto.
  - destruct (try_resolve_static (upd_q q (j_exc q) (j_push q ++ [r]) (j_pull q) (j_frse q) (j_pending q) (j_inbox q))) as [A B].
    rewrite A, B. q_destruct q. auto.
  - split; [reflexivity|congruence].
  - destruct (try_resolve_static q) as [A B]. auto.
Qed.

Lemma consumer_run_header : forall fuel cs q, j_has_header (snd (consumer_run fuel cs q)) = j_has_header q.
Proof.
  assert (Hc : forall q, j_has_header (call_get_record q) = j_has_header q).
  { intros q. unfold call_get_record. rewrite (proj2 (try_resolve_static _)). q_destruct q. reflexivity. }
  induction fuel as [|f IH]; intros cs q; [reflexivity|]. cbn [consumer_run].
  destruct cs as [| |acc|res].
  - rewrite IH. apply Hc.
  - destruct (j_inbox q) as [[r| |e]|]; try reflexivity; rewrite IH, Hc; reflexivity.
  - destruct (j_inbox q) as [[r| |e]|]; try reflexivity. rewrite IH, Hc. reflexivity.
  - reflexivity.
Qed.

Lemma body_step a g cs q :
  body_action a -> InvG g cs q -> (snd g = None -> no_null cs q) ->
  InvG (ghost a g) cs (do_action a q) /\ (snd (ghost a g) = None -> no_null cs (do_action a q)) /\
  j_exhausted (do_action a q) = j_exhausted q.
Proof.
  intros Hb HI Hnn. destruct g as [E X]. unfold InvG in *. cbn [fst snd] in *.
  split; [|split].
  - destruct a as [e|r| |]; try contradiction; destruct X as [x|]; cbn [ghost fst snd Inv].
    + apply act_any_X. exact HI.
    + exact (proj1 (act_store_N E cs q e HI (Hnn eq_refl))).
    + apply act_any_X. exact HI.
    + exact (proj1 (act_enqueue_N E cs q r HI (Hnn eq_refl))).
  - destruct a as [e|r| |]; try contradiction; destruct X as [x|]; cbn [ghost fst snd]; try discriminate.
    intros _. exact (proj2 (act_enqueue_N E cs q r HI (Hnn eq_refl))).
  - apply do_action_static. destruct a; try contradiction; discriminate.
Qed.

Lemma body_steps : forall acts g cs q,
  Forall body_action acts -> InvG g cs q -> (snd g = None -> no_null cs q) ->
  InvG (ghosts acts g) cs (do_actions acts q) /\ (snd (ghosts acts g) = None -> no_null cs (do_actions acts q)) /\
  j_exhausted (do_actions acts q) = j_exhausted q.
Proof.
  induction acts as [|a r IH]; intros g cs q Hb HI Hnn; [cbn; auto|].
  inversion Hb as [|? ? Ha Hr]; subst. cbn [ghosts do_actions fold_left].
  destruct (body_step a g cs q Ha HI Hnn) as (A & B & C).
  destruct (IH (ghost a g) cs (do_action a q) Hr A B) as (A2 & B2 & C2).
  split; [exact A2|]. split; [exact B2|]. unfold do_actions in *. rewrite C2. exact C.
Qed.

Lemma run_inv fuel g cs q :
  InvG g cs q -> InvG g (fst (consumer_run fuel cs q)) (snd (consumer_run fuel cs q)).
Proof.
  destruct g as [E [x|]]; unfold InvG; cbn [fst snd Inv]; [apply run_inv_X|apply run_inv_N].
Qed.

(* a 'data' event before the end of the input: invariant and "not exhausted" are kept *)
Lemma chunk_event_inv acts b g cs q :
  Forall body_action acts -> InvG g cs q -> j_exhausted q = false ->
  InvG (ghosts acts g) (fst (after_event acts b cs q)) (snd (after_event acts b cs q)) /\
  j_exhausted (snd (after_event acts b cs q)) = false.
Proof.
  intros Hb HI Hex.
  assert (Hnn : snd g = None -> no_null cs q).
  { intros HX. destruct g as [E X]. cbn in HX. subst X. apply (InvN_nonull_exhausted E); assumption. }
  destruct (body_steps acts g cs q Hb HI Hnn) as (A & _ & C).
  unfold after_event. destruct b; cbn [fst snd].
  - split; [apply run_inv; exact A|]. rewrite consumer_run_exhausted, C. exact Hex.
  - split; [exact A|]. rewrite C. exact Hex.
Qed.

Lemma mu_le_fuel cs q : (mu cs q <= consumer_fuel q)%nat.
Proof.
  unfold mu, consumer_fuel, Qof. rewrite app_length.
  destruct (j_inbox q) as [[r| |e]|]; destruct cs; lia.
Qed.

Lemma ghosts_app a1 a2 g : ghosts (a1 ++ a2) g = ghosts a2 (ghosts a1 g).
Proof. unfold ghosts. apply fold_left_app. Qed.

Lemma do_actions_app a1 a2 q : do_actions (a1 ++ a2) q = do_actions a2 (do_actions a1 q).
Proof. unfold do_actions. apply fold_left_app. Qed.

(* what the consumer ends with, as a function of everything the producer did *)
Definition finished (g : list (list str) * option jerr) (cs : cstate) (q : jcons) : Prop :=
  match snd g with
  | Some e => cs = CDone (inr e)
  | None => exists recs, cs = CDone (inl recs) /\ InvN (fst g) cs q
  end.

Lemma finish_run g cs q :
  InvG g cs q -> (snd g = None -> j_exhausted q = true /\ j_pending q = false) ->
  finished g (fst (consumer_run (consumer_fuel q) cs q)) (snd (consumer_run (consumer_fuel q) cs q)).
Proof.
  intros HI Hc. destruct g as [E [e|]]; unfold InvG, finished in *; cbn [fst snd Inv] in *.
  - apply run_complete_X; [exact HI|]. unfold consumer_fuel. lia.
  - destruct (Hc eq_refl) as [Hex Hp].
    pose proof (run_complete_N (consumer_fuel q) E cs q HI Hex Hp (mu_le_fuel cs q)) as Hd.
    pose proof (run_inv_N (consumer_fuel q) E cs q HI) as HI'.
    destruct (fst (consumer_run (consumer_fuel q) cs q)) as [| |acc|[recs|e]]; try contradiction.
    + exists recs. auto.
    + destruct HI' as [_ C]. contradiction.
Qed.

Definition end_shape (acts : list action) : Prop :=
  (exists e, acts = [AExhausted; AStore e]) \/
  (exists body, Forall body_action body /\ acts = AExhausted :: body ++ [AResolve]).

Lemma exhausted_step g cs q :
  InvG g cs q -> (snd g = None -> no_null cs q) ->
  InvG g cs (do_action AExhausted q) /\ (snd g = None -> no_null cs (do_action AExhausted q)) /\
  j_exhausted (do_action AExhausted q) = true.
Proof.
  intros HI Hnn. destruct g as [E [e|]]; unfold InvG in *; cbn [fst snd Inv] in *.
  - split; [apply act_any_X; exact HI|]. split; [discriminate|reflexivity].
  - destruct (act_exhausted_N E cs q HI) as [A B]. split; [exact A|]. split; [intros _; apply B; apply Hnn; reflexivity|reflexivity].
Qed.

Lemma resolve_step g cs q :
  InvG g cs q -> j_exhausted q = true ->
  InvG g cs (do_action AResolve q) /\ (snd g = None -> j_exhausted (do_action AResolve q) = true /\ j_pending (do_action AResolve q) = false).
Proof.
  intros HI Hex. destruct g as [E [e|]]; unfold InvG in *; cbn [fst snd Inv] in *.
  - split; [apply act_any_X; exact HI|discriminate].
  - destruct (act_resolve_N E cs q HI) as [A B]. split; [exact A|]. intros _. split; [|apply B; exact Hex].
    rewrite (proj2 (do_action_static AResolve q)); [exact Hex|discriminate].
Qed.

(* the 'end' event *)
Lemma end_event_finished acts g cs q :
  end_shape acts -> InvG g cs q -> j_exhausted q = false ->
  finished (ghosts acts g) (fst (after_event acts true cs q)) (snd (after_event acts true cs q)).
Proof.
  intros Hs HI Hex.
  assert (Hnn : snd g = None -> no_null cs q).
  { intros HX. destruct g as [E X]. cbn in HX. subst X. apply (InvN_nonull_exhausted E); assumption. }
  destruct (exhausted_step g cs q HI Hnn) as (A1 & B1 & C1).
  unfold after_event. destruct Hs as [[e ->]|(body & Hb & ->)].
  - cbn [do_actions fold_left ghosts]. change (ghost AExhausted g) with g.
    destruct (body_step (AStore e) g cs _ I A1 B1) as (A2 & B2 & C2).
    apply finish_run; [exact A2|]. destruct g as [E [x|]]; cbn; discriminate.
  - change (AExhausted :: body ++ [AResolve]) with ([AExhausted] ++ body ++ [AResolve]).
    rewrite !do_actions_app, !ghosts_app. cbn [do_actions fold_left ghosts] in *. change (ghost AExhausted g) with g.
    destruct (body_steps body g cs _ Hb A1 B1) as (A2 & B2 & C2). fold (do_actions body (do_action AExhausted q)) in *.
    rewrite C1 in C2.
    destruct (resolve_step _ cs _ A2 C2) as (A3 & B3).
    change (ghost AResolve (ghosts body g)) with (ghosts body g).
    apply finish_run; [exact A3|exact B3].
Qed.

Definition bulk_shape (acts : list action) : Prop :=
  (exists e, acts = [AStore e]) \/
  (exists body, Forall body_action body /\ acts = body ++ [AExhausted; AResolve]).

Lemma InvG_init c : InvG ([], None) CStart (jcons_init c).
Proof. unfold InvG, Inv, InvN, jcons_init, Qof. cbn. repeat split; reflexivity. Qed.

Lemma bulk_finished c acts :
  bulk_shape acts ->
  let q1 := do_actions acts (jcons_init c) in
  finished (ghosts acts ([], None)) (fst (consumer_run (consumer_fuel q1) CStart q1)) (snd (consumer_run (consumer_fuel q1) CStart q1)).
Proof.
  intros Hs q1. unfold q1. clear q1. pose proof (InvG_init c) as HI.
  assert (Hex : j_exhausted (jcons_init c) = false) by reflexivity.
  assert (Hnn : snd ([] : list (list str), @None jerr) = None -> no_null CStart (jcons_init c)).
  { intros _. apply (InvN_nonull_exhausted []); [exact HI|exact Hex]. }
  destruct Hs as [[e ->]|(body & Hb & ->)].
  - cbn [do_actions fold_left ghosts].
    destruct (body_step (AStore e) _ CStart _ I HI Hnn) as (A2 & B2 & C2).
    apply finish_run; [exact A2|]. cbn. discriminate.
  - rewrite do_actions_app, ghosts_app.
    destruct (body_steps body _ CStart _ Hb HI Hnn) as (A2 & B2 & C2).
    change (do_actions [AExhausted; AResolve] (do_actions body (jcons_init c)))
      with (do_action AResolve (do_action AExhausted (do_actions body (jcons_init c)))).
    change (ghosts [AExhausted; AResolve] (ghosts body ([], None))) with (ghosts body ([], None)).
    destruct (exhausted_step _ CStart _ A2 B2) as (A3 & B3 & C3).
    destruct (resolve_step _ CStart _ A3 C3) as (A4 & B4).
    apply finish_run; [exact A4|exact B4].
Qed.

(* ------------------------------------------------------------------ Part 4: whole runs *)

Definition js_outcome (hh : bool) (g : list (list str) * option jerr) (p : jprod) : jresult :=
  match snd g with
  | Some e => JErr e
  | None => JOk (if hh then tl (fst g) else fst g) (if hh then hd_error (fst g) else None) (js_warnings p) (jNL p) (jNR p)
  end.

Lemma finished_outcome hh g cs q p :
  finished g cs q -> j_has_header q = hh -> js_finish cs q p = js_outcome hh g p.
Proof.
  unfold finished, js_outcome. destruct g as [E [e|]]; cbn [fst snd].
  - intros -> _. reflexivity.
  - intros (recs & -> & (_ & HI)) Hh. cbn in HI. destruct HI as (_ & _ & _ & Hfr & HE).
    unfold js_finish, js_header. rewrite Hh in *. rewrite Hfr.
    destruct hh.
    + destruct E as [|x E']; cbn in HE; [subst recs; reflexivity|]. inversion HE as [HE']. rewrite <- HE'. reflexivity.
    + cbn in HE. subst recs. reflexivity.
Qed.

Lemma do_actions_header : forall acts q, j_has_header (do_actions acts q) = j_has_header q.
Proof.
  unfold do_actions. induction acts as [|a r IH]; intros q; [reflexivity|]. cbn. rewrite IH. apply do_action_static.
Qed.

Lemma jcons_init_header c : j_has_header (jcons_init c) = effective_header c.
Proof. reflexivity. Qed.

Section ProducerFacts.
  Variable split : str -> list str * bool.

  Lemma prl_body c line p : Forall body_action (snd (process_record_line split c line p)).
  Proof.
    unfold process_record_line. destruct (split line) as [record warning]. cbn [snd].
    apply Forall_app. split; [|repeat constructor].
    destruct (warning && match j_fdl p with Some _ => false | None => true end && c_rfc c); repeat constructor.
  Qed.

  Lemma pl_body c l p : Forall body_action (snd (process_line split c l p)).
  Proof.
    unfold process_line. destruct (c_rfc c).
    - unfold process_partial_rfc_record_line.
      match goal with |- context [add_line c ?a ?l] => destruct (has_comment_line (add_line c a l)); [constructor|destruct (has_full_record (add_line c a l)); [|constructor]] end.
      match goal with |- context [process_record_line split c ?x ?y] => pose proof (prl_body c x y) as H; destruct (process_record_line split c x y) as [p1 acts] end.
      exact H.
    - unfold process_record_line_simple.
      match goal with |- context [is_comment c ?x] => destruct (is_comment c x); [constructor|apply prl_body] end.
  Qed.

  Lemma pls_body c : forall L p, Forall body_action (snd (process_lines split c L p)).
  Proof.
    induction L as [|l r IH]; intros p; [constructor|]. cbn [process_lines].
    pose proof (pl_body c l p) as H1. destruct (process_line split c l p) as [p1 a1].
    specialize (IH p1). destruct (process_lines split c r p1) as [p2 a2]. cbn [snd] in *.
    apply Forall_app. auto.
  Qed.

  Lemma flush_body c p : Forall body_action (snd (flush_aggregator split c p)).
  Proof. unfold flush_aggregator. destruct (is_inside_multiline_record (j_agg p)); [apply prl_body|constructor]. Qed.

  Lemma process_lines_app c : forall L1 L2 p,
    process_lines split c (L1 ++ L2) p =
    let '(p1, a1) := process_lines split c L1 p in
    let '(p2, a2) := process_lines split c L2 p1 in (p2, a1 ++ a2).
  Proof.
    induction L1 as [|l r IH]; intros L2 p; cbn [app process_lines].
    - destruct (process_lines split c L2 p) as [p2 a2]. reflexivity.
    - destruct (process_line split c l p) as [p1 a1]. rewrite IH.
      destruct (process_lines split c r p1) as [p2 a2]. destruct (process_lines split c L2 p2) as [p3 a3].
      rewrite app_assoc. reflexivity.
  Qed.

  (* everything the reader does with a list of physical lines *)
  Definition js_lines_result (c : cfg) (lines : list str) : jresult :=
    let '(p1, a1) := process_lines split c lines jprod_init in
    let '(p2, a2) := flush_aggregator split c p1 in
    js_outcome (effective_header c) (ghosts (a1 ++ a2) ([], None)) p2.

  (* the bulk path *)
  Theorem js_bulk_result c blob :
    run_js_bulk split c blob =
    match (match c_enc c with EncUtf8 => decode_whole blob | _ => Some (decode_latin1 blob) end) with
    | None => JErr JUtf8
    | Some text => js_lines_result c (lines_js_bulk text)
    end.
  Proof.
    unfold run_js_bulk, process_data_bulk, js_lines_result.
    destruct (match c_enc c with EncUtf8 => decode_whole blob | _ => Some (decode_latin1 blob) end) as [text|].
    - fold (lines_js_bulk text).
      pose proof (pls_body c (lines_js_bulk text) jprod_init) as B1.
      destruct (process_lines split c (lines_js_bulk text) jprod_init) as [p1 a1].
      pose proof (flush_body c p1) as B2. destruct (flush_aggregator split c p1) as [p2 a2]. cbn [snd] in *.
      assert (Hs : bulk_shape (a1 ++ a2 ++ [AExhausted; AResolve])).
      { right. exists (a1 ++ a2). split; [apply Forall_app; auto|rewrite app_assoc; reflexivity]. }
      pose proof (bulk_finished c _ Hs) as HF. cbv zeta in HF.
      destruct (consumer_run _ CStart _) as [cs q2] eqn:ER. cbn [fst snd] in HF.
      assert (Hh : j_has_header q2 = effective_header c).
      { pose proof (consumer_run_header (consumer_fuel (do_actions (a1 ++ a2 ++ [AExhausted; AResolve]) (jcons_init c))) CStart
                      (do_actions (a1 ++ a2 ++ [AExhausted; AResolve]) (jcons_init c))) as H1.
        rewrite ER in H1. cbn [snd] in H1. rewrite H1, do_actions_header. apply jcons_init_header. }
      rewrite (finished_outcome _ _ _ _ p2 HF Hh).
      rewrite app_assoc, ghosts_app. reflexivity.
    - pose proof (bulk_finished c [AStore JUtf8] (or_introl (ex_intro _ JUtf8 eq_refl))) as HF. cbv zeta in HF.
      destruct (consumer_run _ CStart _) as [cs q2] eqn:ER. cbn [fst snd] in HF.
      rewrite (finished_outcome (effective_header c) _ _ _ jprod_init HF); [reflexivity|].
      pose proof (consumer_run_header (consumer_fuel (do_actions [AStore JUtf8] (jcons_init c))) CStart (do_actions [AStore JUtf8] (jcons_init c))) as H1.
      rewrite ER in H1. cbn [snd] in H1. rewrite H1, do_actions_header. apply jcons_init_header.
  Qed.
End ProducerFacts.

(* a generic sequence of 'data' events, each handled by [f] (bytes or decoded text), with its continuation schedule *)
Section Events.
  Variable X : Type.
  Variable f : X -> jchunk -> jprod -> jchunk * jprod * list action.
  Hypothesis f_body : forall x k p, Forall body_action (snd (f x k p)).

  Fixpoint gen_events (chunks : list (X * bool)) (k : jchunk) (p : jprod) (cs : cstate) (q : jcons) : jchunk * jprod * cstate * jcons :=
    match chunks with
    | [] => (k, p, cs, q)
    | (x, b) :: r =>
        let '(k1, p1, acts) := f x k p in
        let '(cs1, q1) := after_event acts b cs q in
        gen_events r k1 p1 cs1 q1
    end.

  Fixpoint gen_prod (xs : list X) (k : jchunk) (p : jprod) : jchunk * jprod * list action :=
    match xs with
    | [] => (k, p, [])
    | x :: r => let '(k1, p1, a1) := f x k p in
                let '(k2, p2, a2) := gen_prod r k1 p1 in (k2, p2, a1 ++ a2)
    end.

  Lemma gen_events_inv : forall chunks k p cs q g,
    InvG g cs q -> j_exhausted q = false ->
    exists k' p' cs' q' acts,
      gen_events chunks k p cs q = (k', p', cs', q') /\ gen_prod (map fst chunks) k p = (k', p', acts) /\
      InvG (ghosts acts g) cs' q' /\ j_exhausted q' = false /\ j_has_header q' = j_has_header q.
  Proof.
    induction chunks as [|[x b] r IH]; intros k p cs q g HI Hex.
    - exists k, p, cs, q, []. cbn. auto.
    - cbn [gen_events gen_prod map fst]. pose proof (f_body x k p) as Hb.
      destruct (f x k p) as [[k1 p1] a1]. cbn [snd] in Hb.
      destruct (chunk_event_inv a1 b g cs q Hb HI Hex) as [A B].
      assert (Hh : j_has_header (snd (after_event a1 b cs q)) = j_has_header q).
      { unfold after_event. destruct b; cbn [snd]; [rewrite consumer_run_header|]; apply do_actions_header. }
      destruct (after_event a1 b cs q) as [cs1 q1]. cbn [fst snd] in *.
      destruct (IH k1 p1 cs1 q1 _ A B) as (k' & p' & cs' & q' & acts & E1 & E2 & A2 & B2 & C2).
      exists k', p', cs', q', (a1 ++ acts). rewrite E1, E2, ghosts_app. repeat split; auto. congruence.
  Qed.
End Events.

Lemma ghosts_neutral_front a acts g : ghost a g = g -> ghosts (a :: acts) g = ghosts acts g.
Proof. intros H. cbn [ghosts fold_left]. rewrite H. reflexivity. Qed.

Lemma ghosts_has_store : forall acts g, snd g <> None -> snd (ghosts acts g) <> None.
Proof.
  induction acts as [|a r IH]; intros g H; [exact H|]. cbn [ghosts fold_left]. apply IH.
  destruct a; cbn; auto. destruct (snd g); [discriminate|congruence].
Qed.

Section StreamFacts.
  Variable split : str -> list str * bool.

  Lemma pdc_body c d k p : Forall body_action (snd (process_decoded_chunk split c d k p)).
  Proof.
    unfold process_decoded_chunk. destruct (chunk_lines (j_pdl k) (j_pdl_cr k) d) as [[ls pdl'] cr'].
    pose proof (pls_body split c ls p) as H. destruct (process_lines split c ls p) as [p1 acts]. exact H.
  Qed.

  Lemma pdsc_body c x k p : Forall body_action (snd (process_data_stream_chunk split c x k p)).
  Proof.
    unfold process_data_stream_chunk. destruct (decode_js c (j_dec k) x) as [[d d1]|]; [apply pdc_body|repeat constructor].
  Qed.

  Lemma stream_events_gen c : forall chunks k p cs q,
    stream_events split c chunks k p cs q = gen_events bytes (process_data_stream_chunk split c) chunks k p cs q.
  Proof.
    induction chunks as [|[x b] r IH]; intros k p cs q; [reflexivity|]. cbn [stream_events gen_events].
    destruct (process_data_stream_chunk split c x k p) as [[k1 p1] a1]. destruct (after_event a1 b cs q) as [cs1 q1]. apply IH.
  Qed.

  Lemma decoded_events_gen c : forall chunks k p cs q,
    decoded_events split c chunks k p cs q = gen_events str (process_decoded_chunk split c) chunks k p cs q.
  Proof.
    induction chunks as [|[x b] r IH]; intros k p cs q; [reflexivity|]. cbn [decoded_events gen_events].
    destruct (process_decoded_chunk split c x k p) as [[k1 p1] a1]. destruct (after_event a1 b cs q) as [cs1 q1]. apply IH.
  Qed.

  Lemma end_shape_pdse c k p : end_shape (snd (process_data_stream_end split c k p)).
  Proof.
    unfold process_data_stream_end.
    destruct (negb (match c_enc c with EncUtf8 => decode_flush (j_dec k) | _ => true end)).
    - left. exists JUtf8. reflexivity.
    - assert (H1 : Forall body_action (snd (match j_pdl k with [] => (p, []) | _ => process_line split c (j_pdl k) p end))).
      { destruct (j_pdl k); [constructor|apply pl_body]. }
      destruct (match j_pdl k with [] => (p, []) | _ => process_line split c (j_pdl k) p end) as [p1 a1] eqn:E1.
      replace (match j_pdl k with [] => (p, []) | last_line => process_line split c last_line p end) with (p1, a1)
        by (rewrite <- E1; destruct (j_pdl k); reflexivity).
      pose proof (flush_body split c p1) as H2. destruct (flush_aggregator split c p1) as [p2 a2]. cbn [snd] in *.
      right. exists (a1 ++ a2). split; [apply Forall_app; auto|]. cbn [app]. rewrite <- app_assoc. reflexivity.
  Qed.

  (* the outcome of any stream run, in terms of what the producer did *)
  Theorem js_stream_general c b0 chunks :
    run_js_stream split c b0 chunks =
    let '(k, p, acts) := gen_prod bytes (process_data_stream_chunk split c) (map fst chunks) jchunk_init jprod_init in
    let '(_, p1, endacts) := process_data_stream_end split c k p in
    js_outcome (effective_header c) (ghosts (acts ++ endacts) ([], None)) p1.
  Proof.
    unfold run_js_stream.
    assert (H0 : exists cs0 q1, (if b0 then consumer_run (consumer_fuel (jcons_init c)) CStart (jcons_init c) else (CStart, jcons_init c)) = (cs0, q1) /\
                   InvG ([], None) cs0 q1 /\ j_exhausted q1 = false /\ j_has_header q1 = effective_header c).
    { destruct b0.
      - eexists _, _. split; [apply surjective_pairing|]. split; [apply run_inv; apply InvG_init|].
        rewrite consumer_run_exhausted, consumer_run_header. auto.
      - exists CStart, (jcons_init c). split; [reflexivity|]. split; [apply InvG_init|auto]. }
    destruct H0 as (cs0 & q1 & -> & HI & Hex & Hh).
    rewrite stream_events_gen.
    destruct (gen_events_inv bytes _ (pdsc_body c) chunks jchunk_init jprod_init cs0 q1 _ HI Hex)
      as (k & p & cs1 & q2 & acts & -> & -> & HI2 & Hex2 & Hh2).
    pose proof (end_shape_pdse c k p) as Hs.
    destruct (process_data_stream_end split c k p) as [[k3 p1] endacts]. cbn [snd] in Hs.
    pose proof (end_event_finished endacts _ cs1 q2 Hs HI2 Hex2) as HF.
    assert (Hh3 : j_has_header (snd (after_event endacts true cs1 q2)) = effective_header c).
    { unfold after_event. cbn [snd]. rewrite consumer_run_header, do_actions_header. congruence. }
    destruct (after_event endacts true cs1 q2) as [cs2 q3]. cbn [fst snd] in *.
    rewrite (finished_outcome _ _ _ _ p1 HF Hh3), ghosts_app. reflexivity.
  Qed.

  Theorem js_decoded_general c b0 chunks :
    run_js_decoded split c b0 chunks =
    let '(k, p, acts) := gen_prod str (process_decoded_chunk split c) (map fst chunks) jchunk_init jprod_init in
    let '(_, p1, endacts) := process_data_stream_end split c k p in
    js_outcome (effective_header c) (ghosts (acts ++ endacts) ([], None)) p1.
  Proof.
    unfold run_js_decoded.
    assert (H0 : exists cs0 q1, (if b0 then consumer_run (consumer_fuel (jcons_init c)) CStart (jcons_init c) else (CStart, jcons_init c)) = (cs0, q1) /\
                   InvG ([], None) cs0 q1 /\ j_exhausted q1 = false /\ j_has_header q1 = effective_header c).
    { destruct b0.
      - eexists _, _. split; [apply surjective_pairing|]. split; [apply run_inv; apply InvG_init|].
        rewrite consumer_run_exhausted, consumer_run_header. auto.
      - exists CStart, (jcons_init c). split; [reflexivity|]. split; [apply InvG_init|auto]. }
    destruct H0 as (cs0 & q1 & -> & HI & Hex & Hh).
    rewrite decoded_events_gen.
    destruct (gen_events_inv str _ (pdc_body c) chunks jchunk_init jprod_init cs0 q1 _ HI Hex)
      as (k & p & cs1 & q2 & acts & -> & -> & HI2 & Hex2 & Hh2).
    pose proof (end_shape_pdse c k p) as Hs.
    destruct (process_data_stream_end split c k p) as [[k3 p1] endacts]. cbn [snd] in Hs.
    pose proof (end_event_finished endacts _ cs1 q2 Hs HI2 Hex2) as HF.
    assert (Hh3 : j_has_header (snd (after_event endacts true cs1 q2)) = effective_header c).
    { unfold after_event. cbn [snd]. rewrite consumer_run_header, do_actions_header. congruence. }
    destruct (after_event endacts true cs1 q2) as [cs2 q3]. cbn [fst snd] in *.
    rewrite (finished_outcome _ _ _ _ p1 HF Hh3), ghosts_app. reflexivity.
  Qed.
End StreamFacts.

Fixpoint chunks_lines (pdl : str) (cr : bool) (ds : list str) : list str * str * bool :=
  match ds with
  | [] => ([], pdl, cr)
  | d :: r => let '(l1, pdl1, cr1) := chunk_lines pdl cr d in
              let '(l2, pdl2, cr2) := chunks_lines pdl1 cr1 r in (l1 ++ l2, pdl2, cr2)
  end.

Lemma lines_js_from_chunks : forall ds pdl cr,
  lines_js_from pdl cr ds =
  let '(ls, pdl', _) := chunks_lines pdl cr ds in ls ++ match pdl' with [] => [] | _ => [pdl'] end.
Proof.
  induction ds as [|d r IH]; intros pdl cr; cbn [lines_js_from chunks_lines]; [reflexivity|].
  destruct (chunk_lines pdl cr d) as [[l1 pdl1] cr1]. rewrite IH.
  destruct (chunks_lines pdl1 cr1 r) as [[l2 pdl2] cr2]. rewrite app_assoc. reflexivity.
Qed.

Lemma ghosts_end acts a1 a2 g :
  ghosts (acts ++ [AExhausted] ++ a1 ++ a2 ++ [AResolve]) g = ghosts ((acts ++ a1) ++ a2) g.
Proof.
  rewrite !ghosts_app. cbn [ghosts fold_left ghost]. reflexivity.
Qed.

Section StreamLines.
  Variable split : str -> list str * bool.

  Lemma dec_prod_lines c : forall ds k p,
    gen_prod str (process_decoded_chunk split c) ds k p =
    let '(ls, pdl', cr') := chunks_lines (j_pdl k) (j_pdl_cr k) ds in
    let '(p', acts) := process_lines split c ls p in
    ({| j_pdl := pdl'; j_pdl_cr := cr'; j_dec := j_dec k |}, p', acts).
  Proof.
    induction ds as [|d r IH]; intros k p; cbn [gen_prod chunks_lines].
    - cbn [process_lines]. destruct k; reflexivity.
    - unfold process_decoded_chunk at 1. destruct (chunk_lines (j_pdl k) (j_pdl_cr k) d) as [[l1 pdl1] cr1].
      destruct (process_lines split c l1 p) as [p1 a1] eqn:E1. rewrite IH. cbn [j_pdl j_pdl_cr j_dec].
      destruct (chunks_lines pdl1 cr1 r) as [[l2 pdl2] cr2]. rewrite process_lines_app, E1.
      destruct (process_lines split c l2 p1) as [p2 a2]. reflexivity.
  Qed.

  (* the end of the stream, once the decoder has been flushed successfully *)
  Lemma stream_end_lines c k p acts g :
    (match c_enc c with EncUtf8 => decode_flush (j_dec k) | _ => true end) = true ->
    let '(_, p1, endacts) := process_data_stream_end split c k p in
    let '(p2, a2) := process_lines split c (match j_pdl k with [] => [] | _ => [j_pdl k] end) p in
    let '(p3, a3) := flush_aggregator split c p2 in
    p1 = p3 /\ ghosts (acts ++ endacts) g = ghosts ((acts ++ a2) ++ a3) g.
  Proof.
    intros Hfl. unfold process_data_stream_end. rewrite Hfl. cbn [negb].
    destruct (j_pdl k) as [|x pdl] eqn:Ep.
    - cbn [process_lines]. destruct (flush_aggregator split c p) as [p3 a3]. split; [reflexivity|]. apply (ghosts_end acts [] a3).
    - cbn [process_lines]. destruct (process_line split c (x :: pdl) p) as [p2 a2].
      destruct (flush_aggregator split c p2) as [p3 a3]. split; [reflexivity|]. rewrite app_nil_r. apply ghosts_end.
  Qed.

  (* the stream path over decoded chunks = the reader's line-level function applied to the lines handed over;
     this holds for every continuation schedule *)
  Theorem js_decoded_result c b0 chunks :
    run_js_decoded split c b0 chunks = js_lines_result split c (lines_js (map fst chunks)).
  Proof.
    rewrite js_decoded_general, dec_prod_lines. unfold lines_js. rewrite lines_js_from_chunks. cbn [jchunk_init j_pdl j_pdl_cr j_dec].
    destruct (chunks_lines [] false (map fst chunks)) as [[ls pdl'] cr'].
    unfold js_lines_result. rewrite process_lines_app.
    destruct (process_lines split c ls jprod_init) as [p' acts].
    assert (Hfl : (match c_enc c with EncUtf8 => decode_flush (j_dec {| j_pdl := pdl'; j_pdl_cr := cr'; j_dec := d_init |}) | _ => true end) = true)
      by (destruct (c_enc c); reflexivity).
    pose proof (stream_end_lines c {| j_pdl := pdl'; j_pdl_cr := cr'; j_dec := d_init |} p' acts ([], None) Hfl) as H.
    destruct (process_data_stream_end split c _ p') as [[k3 p1] endacts]. cbn [j_pdl] in H.
    destruct (process_lines split c (match pdl' with [] => [] | _ => [pdl'] end) p') as [p2 a2].
    destruct (flush_aggregator split c p2) as [p3 a3]. destruct H as [-> ->]. reflexivity.
  Qed.
End StreamLines.

(* decoding the chunks one after the other, as process_data_stream_chunk does *)
Fixpoint decode_all (c : cfg) (d : dstate) (chunks : list bytes) : option (list str * dstate) :=
  match chunks with
  | [] => Some ([], d)
  | x :: r => match decode_js c d x with
              | None => None
              | Some (s, d1) => match decode_all c d1 r with
                                | None => None
                                | Some (l, d2) => Some (s :: l, d2)
                                end
              end
  end.

Definition flush_ok (c : cfg) (d : dstate) : bool := match c_enc c with EncUtf8 => decode_flush d | _ => true end.

Lemma decode_all_utf8 c : c_enc c = EncUtf8 -> forall chunks d,
  decode_streaming_from d chunks =
  match decode_all c d chunks with
  | Some (l, dfin) => if decode_flush dfin then Some l else None
  | None => None
  end.
Proof.
  intros He. induction chunks as [|x r IH]; intros d; cbn [decode_streaming_from decode_all]; [reflexivity|].
  unfold decode_js. rewrite He. destruct (decode_chunk d x) as [[s d1]|]; [|reflexivity].
  rewrite IH. destruct (decode_all c d1 r) as [[l d2]|]; [|reflexivity]. destruct (decode_flush d2); reflexivity.
Qed.

Lemma decode_all_latin1 c : c_enc c <> EncUtf8 -> forall chunks d, decode_all c d chunks = Some (chunks, d).
Proof.
  intros He. induction chunks as [|x r IH]; intros d; cbn [decode_all]; [reflexivity|].
  unfold decode_js. destruct (c_enc c); try congruence; rewrite IH; reflexivity.
Qed.

Lemma ghosts_in_store e : forall acts g, In (AStore e) acts -> snd (ghosts acts g) <> None.
Proof.
  induction acts as [|a r IH]; intros g Hin; [contradiction|]. cbn [ghosts fold_left]. destruct Hin as [->|Hin].
  - apply ghosts_has_store. cbn. destruct (snd g); discriminate.
  - apply IH. exact Hin.
Qed.

Section ByteStream.
  Variable split : str -> list str * bool.

  Lemma byte_prod_lines c : forall chunks k p ds dfin,
    decode_all c (j_dec k) chunks = Some (ds, dfin) ->
    gen_prod bytes (process_data_stream_chunk split c) chunks k p =
    let '(ls, pdl', cr') := chunks_lines (j_pdl k) (j_pdl_cr k) ds in
    let '(p', acts) := process_lines split c ls p in
    ({| j_pdl := pdl'; j_pdl_cr := cr'; j_dec := dfin |}, p', acts).
  Proof.
    induction chunks as [|x r IH]; intros k p ds dfin Hd; cbn [decode_all] in Hd.
    - inversion Hd; subst. cbn. destruct k; reflexivity.
    - destruct (decode_js c (j_dec k) x) as [[s d1]|] eqn:Ed; [|discriminate].
      destruct (decode_all c d1 r) as [[l d2]|] eqn:Er; [|discriminate]. inversion Hd; subst. clear Hd.
      cbn [gen_prod chunks_lines]. unfold process_data_stream_chunk at 1. rewrite Ed.
      unfold process_decoded_chunk. cbn [j_pdl j_pdl_cr j_dec].
      destruct (chunk_lines (j_pdl k) (j_pdl_cr k) s) as [[l1 pdl1] cr1].
      destruct (process_lines split c l1 p) as [p1 a1] eqn:E1.
      rewrite (IH {| j_pdl := pdl1; j_pdl_cr := cr1; j_dec := d1 |} p1 l dfin Er). cbn [j_pdl j_pdl_cr j_dec].
      destruct (chunks_lines pdl1 cr1 l) as [[l2 pdl2] cr2]. rewrite process_lines_app, E1.
      destruct (process_lines split c l2 p1) as [p2 a2]. reflexivity.
  Qed.

  Lemma byte_prod_error c : forall chunks k p,
    decode_all c (j_dec k) chunks = None ->
    In (AStore JUtf8) (snd (gen_prod bytes (process_data_stream_chunk split c) chunks k p)).
  Proof.
    induction chunks as [|x r IH]; intros k p Hd; cbn [decode_all] in Hd; [discriminate|].
    cbn [gen_prod]. unfold process_data_stream_chunk at 1.
    destruct (decode_js c (j_dec k) x) as [[s d1]|] eqn:Ed.
    - destruct (decode_all c d1 r) as [[l d2]|] eqn:Er; [discriminate|].
      destruct (process_decoded_chunk split c s {| j_pdl := j_pdl k; j_pdl_cr := j_pdl_cr k; j_dec := d1 |} p) as [[k1 p1] a1] eqn:Ep.
      assert (Hk : j_dec k1 = d1).
      { unfold process_decoded_chunk in Ep. destruct (chunk_lines _ _ s) as [[ls pdl'] cr']. destruct (process_lines split c ls p) as [p' ac].
        inversion Ep; subst. reflexivity. }
      rewrite <- Hk in Er. specialize (IH k1 p1 Er).
      destruct (gen_prod bytes (process_data_stream_chunk split c) r k1 p1) as [[k2 p2] a2]. cbn [snd] in *.
      apply in_or_app. right. exact IH.
    - destruct (gen_prod bytes (process_data_stream_chunk split c) r k p) as [[k2 p2] a2]. cbn. left. reflexivity.
  Qed.

  (* byte chunks that the decoder accepts: the stream path = the line-level function on the lines of the decoded chunks *)
  Theorem js_stream_result c b0 chunks ds dfin :
    decode_all c d_init (map fst chunks) = Some (ds, dfin) -> flush_ok c dfin = true ->
    run_js_stream split c b0 chunks = js_lines_result split c (lines_js ds).
  Proof.
    intros Hd Hfl. rewrite js_stream_general.
    rewrite (byte_prod_lines c (map fst chunks) jchunk_init jprod_init ds dfin Hd).
    unfold lines_js. rewrite lines_js_from_chunks. cbn [jchunk_init j_pdl j_pdl_cr j_dec].
    destruct (chunks_lines [] false ds) as [[ls pdl'] cr'].
    unfold js_lines_result. rewrite process_lines_app.
    destruct (process_lines split c ls jprod_init) as [p' acts].
    pose proof (stream_end_lines split c {| j_pdl := pdl'; j_pdl_cr := cr'; j_dec := dfin |} p' acts ([], None) Hfl) as H.
    destruct (process_data_stream_end split c _ p') as [[k3 p1] endacts]. cbn [j_pdl] in H.
    destruct (process_lines split c (match pdl' with [] => [] | _ => [pdl'] end) p') as [p2 a2].
    destruct (flush_aggregator split c p2) as [p3 a3]. destruct H as [-> ->]. reflexivity.
  Qed.

  (* byte chunks that the decoder rejects (in some chunk, or at the flush): the run ends with an error *)
  Theorem js_stream_decode_error c b0 chunks :
    (decode_all c d_init (map fst chunks) = None \/
     exists ds dfin, decode_all c d_init (map fst chunks) = Some (ds, dfin) /\ flush_ok c dfin = false) ->
    exists e, run_js_stream split c b0 chunks = JErr e.
  Proof.
    intros H. rewrite js_stream_general.
    assert (Hst : let '(k, p, acts) := gen_prod bytes (process_data_stream_chunk split c) (map fst chunks) jchunk_init jprod_init in
                  let '(_, p1, endacts) := process_data_stream_end split c k p in
                  snd (ghosts (acts ++ endacts) ([], None)) <> None).
    { destruct H as [Hn|(ds & dfin & Hd & Hfl)].
      - pose proof (byte_prod_error c (map fst chunks) jchunk_init jprod_init Hn) as Hin.
        destruct (gen_prod bytes _ (map fst chunks) jchunk_init jprod_init) as [[k p] acts]. cbn [snd] in Hin.
        destruct (process_data_stream_end split c k p) as [[k3 p1] endacts].
        apply (ghosts_in_store JUtf8). apply in_or_app. left. exact Hin.
      - rewrite (byte_prod_lines c (map fst chunks) jchunk_init jprod_init ds dfin Hd). cbn [jchunk_init j_pdl j_pdl_cr j_dec].
        destruct (chunks_lines [] false ds) as [[ls pdl'] cr']. destruct (process_lines split c ls jprod_init) as [p' acts].
        unfold process_data_stream_end. cbn [j_dec]. unfold flush_ok in Hfl. rewrite Hfl. cbn [negb].
        apply (ghosts_in_store JUtf8). apply in_or_app. right. right. left. reflexivity. }
    destruct (gen_prod bytes _ (map fst chunks) jchunk_init jprod_init) as [[k p] acts].
    destruct (process_data_stream_end split c k p) as [[k3 p1] endacts].
    unfold js_outcome. destruct (snd (ghosts (acts ++ endacts) ([], None))) as [e|]; [exists e; reflexivity|congruence].
  Qed.

  (* C20_stream_is_bulk, decoded level: for every schedule, the stream path over decoded chunks = the bulk path's line-level
     function on the concatenation *)
  Theorem js_decoded_is_bulk c b0 chunks :
    js_chunks_ok false false (map fst chunks) ->
    run_js_decoded split c b0 chunks = js_lines_result split c (lines_js_bulk (concat (map fst chunks))).
  Proof.
    intros Hok. rewrite js_decoded_result, (js_lines _ Hok), js_bulk_lines. reflexivity.
  Qed.

  (* C20_stream_is_bulk, byte level, utf-8 *)
  Theorem js_stream_is_bulk_utf8 c b0 chunks :
    c_enc c = EncUtf8 -> valid_utf8 (concat (map fst chunks)) ->
    (forall ds, decode_streaming (map fst chunks) = Some ds -> js_chunks_ok false false ds) ->
    run_js_stream split c b0 chunks = run_js_bulk split c (concat (map fst chunks)).
  Proof.
    intros He Hv Hok. destruct (utf8_streaming _ Hv (map fst chunks) eq_refl) as (l & Hs & Hw & _).
    rewrite js_bulk_result, He, Hw.
    unfold decode_streaming in Hs. rewrite (decode_all_utf8 c He) in Hs.
    destruct (decode_all c d_init (map fst chunks)) as [[ds dfin]|] eqn:Ed; [|discriminate].
    destruct (decode_flush dfin) eqn:Ef; [|discriminate]. inversion Hs; subst ds.
    rewrite (js_stream_result c b0 chunks l dfin Ed) by (unfold flush_ok; rewrite He; exact Ef).
    assert (Hs' : decode_streaming (map fst chunks) = Some l).
    { unfold decode_streaming. rewrite (decode_all_utf8 c He), Ed, Ef. reflexivity. }
    rewrite (js_lines _ (Hok l Hs')), js_bulk_lines. reflexivity.
  Qed.

  (* ... and for 'binary' (latin-1), where every byte is a character and chunks decode independently *)
  Theorem js_stream_is_bulk_latin1 c b0 chunks :
    c_enc c <> EncUtf8 -> js_chunks_ok false false (map fst chunks) ->
    run_js_stream split c b0 chunks = run_js_bulk split c (concat (map fst chunks)).
  Proof.
    intros He Hok. rewrite js_bulk_result.
    rewrite (js_stream_result c b0 chunks (map fst chunks) d_init (decode_all_latin1 c He _ _)).
    2:{ unfold flush_ok. destruct (c_enc c); reflexivity. }
    rewrite (js_lines _ Hok). unfold decode_latin1. destruct (c_enc c); try congruence; rewrite js_bulk_lines; reflexivity.
  Qed.

  (* invalid or truncated UTF-8: both paths reject *)
  Theorem js_invalid_rejected c b0 chunks :
    c_enc c = EncUtf8 -> decode_whole (concat (map fst chunks)) = None ->
    run_js_bulk split c (concat (map fst chunks)) = JErr JUtf8 /\ exists e, run_js_stream split c b0 chunks = JErr e.
  Proof.
    intros He Hn. split; [rewrite js_bulk_result, He, Hn; reflexivity|].
    apply js_stream_decode_error.
    pose proof (utf8_invalid_rejected _ Hn (map fst chunks) eq_refl) as Hs.
    unfold decode_streaming in Hs. rewrite (decode_all_utf8 c He) in Hs.
    destruct (decode_all c d_init (map fst chunks)) as [[ds dfin]|] eqn:Ed; [|left; exact Ed].
    right. exists ds, dfin. split; [exact Ed|]. unfold flush_ok. rewrite He. destruct (decode_flush dfin); [discriminate|reflexivity].
  Qed.
End ByteStream.

(* ------------------------------------------------------------------ Part 2: the producer computes the records_of_lines spec *)

Definition jresult_of_result (r : result) : jresult :=
  match r with
  | ROk recs h w nl nr => JOk recs h w nl nr
  | RErr nr nl => JErr (JDefect nr nl)
  end.

(* the comment prefix contains no LF (rbql-js tests the prefix on physical lines, rbql-py on the assembled record) *)
Definition comment_ok (c : cfg) : Prop :=
  match eff_comment c with Some p => ~ In LF p | None => True end.

Lemma str_eqb_eq : forall a b, str_eqb a b = true -> a = b.
Proof.
  induction a as [|x a IH]; intros [|y b] H; cbn in H; try discriminate; [reflexivity|].
  apply andb_true_iff in H. destruct H as [H1 H2]. apply N.eqb_eq in H1. rewrite (IH b H2), H1. reflexivity.
Qed.

Lemma starts_with_join p : ~ In LF p -> forall l more,
  starts_with p l = false -> starts_with p (join [LF] (l :: more)) = false.
Proof.
  intros Hp l more. destruct more as [|m ms]; [cbn; auto|].
  change (join [LF] (l :: m :: ms)) with (l ++ [LF] ++ join [LF] (m :: ms)).
  generalize (join [LF] (m :: ms)) as rest. intros rest. revert l.
  induction p as [|c0 p IH]; intros l H; [discriminate|].
  destruct l as [|x l]; cbn.
  - assert (Hc : N.eqb c0 LF = false). { apply N.eqb_neq. intros ->. apply Hp. left. reflexivity. }
    rewrite Hc. reflexivity.
  - cbn in H. destruct (N.eqb c0 x); [|reflexivity]. cbn in *. apply IH; [|exact H].
    intros Hin. apply Hp. right. exact Hin.
Qed.

Lemma is_comment_join c l more : comment_ok c -> is_comment c l = false -> is_comment c (join [LF] (l :: more)) = false.
Proof.
  unfold comment_ok, is_comment. destruct (eff_comment c) as [p|]; [|reflexivity].
  intros Hp H. apply starts_with_join; assumption.
Qed.

Section JsSpec.
  Variable split : str -> list str * bool.

  Definition bump (p : jprod) : jprod :=
    {| jNL := S (jNL p); jNR := jNR p; j_bom := j_bom p; j_fdl := j_fdl p; j_finfo := j_finfo p; j_agg := j_agg p |}.

  (* process_line after the first line: no BOM business *)
  Definition pl_core (c : cfg) (line : str) (p : jprod) : jprod * list action :=
    if c_rfc c then process_partial_rfc_record_line split c line (bump p) else process_record_line_simple split c line (bump p).

  Fixpoint process_lines_nb (c : cfg) (lines : list str) (p : jprod) : jprod * list action :=
    match lines with
    | [] => (p, [])
    | l :: r => let '(p1, a1) := pl_core c l p in
                let '(p2, a2) := process_lines_nb c r p1 in (p2, a1 ++ a2)
    end.

  Lemma process_line_nb c l p : jNL p <> 0%nat -> process_line split c l p = pl_core c l p.
  Proof.
    intros H. unfold process_line, pl_core, bump. destruct (jNL p) as [|n]; [congruence|]. cbn [Nat.eqb andb]. reflexivity.
  Qed.

  Lemma pl_core_NL c l p : jNL (fst (pl_core c l p)) = S (jNL p).
  Proof.
    unfold pl_core. destruct (c_rfc c).
    - unfold process_partial_rfc_record_line.
      destruct (has_comment_line _); [reflexivity|]. destruct (has_full_record _); [|reflexivity].
      unfold process_record_line. destruct (split _) as [rec w]. reflexivity.
    - unfold process_record_line_simple. destruct (is_comment c l); [reflexivity|].
      unfold process_record_line. destruct (split l) as [rec w]. reflexivity.
  Qed.

  Lemma process_lines_nb_eq c : forall L p, jNL p <> 0%nat -> process_lines split c L p = process_lines_nb c L p.
  Proof.
    induction L as [|l r IH]; intros p H; [reflexivity|]. cbn [process_lines process_lines_nb].
    rewrite (process_line_nb c l p H). pose proof (pl_core_NL c l p) as HN.
    destruct (pl_core c l p) as [p1 a1]. cbn [fst] in HN. rewrite IH by lia. reflexivity.
  Qed.

  Definition with_bom (p : jprod) (b : bool) : jprod :=
    {| jNL := jNL p; jNR := jNR p; j_bom := b; j_fdl := j_fdl p; j_finfo := j_finfo p; j_agg := j_agg p |}.

  (* the BOM is taken off the first physical line and nothing else happens *)
  Lemma process_lines_bom c lines :
    process_lines split c lines jprod_init =
    process_lines_nb c (fst (strip_bom_first (c_enc c) lines)) (with_bom jprod_init (snd (strip_bom_first (c_enc c) lines))).
  Proof.
    destruct lines as [|l r]; [reflexivity|]. cbn [process_lines strip_bom_first].
    unfold process_line. cbn [jprod_init jNL Nat.eqb andb].
    destruct (str_eqb (remove_utf8_bom l (c_enc c)) l) eqn:E; cbn [fst snd negb process_lines_nb].
    - apply str_eqb_eq in E. rewrite E. unfold pl_core, bump, with_bom. cbn.
      match goal with |- (let '(p1, a1) := ?x in _) = (let '(p1', a1') := ?y in _) => change y with x; destruct x as [p1 a1] eqn:E1 end.
      assert (HN : jNL p1 <> 0%nat).
      { pose proof (pl_core_NL c l jprod_init) as HN. unfold pl_core, bump in HN. cbn in HN. rewrite E1 in HN. cbn in HN. lia. }
      rewrite (process_lines_nb_eq c r p1 HN). reflexivity.
    - unfold pl_core, bump, with_bom. cbn.
      match goal with |- (let '(p1, a1) := ?x in _) = (let '(p1', a1') := ?y in _) => change y with x; destruct x as [p1 a1] eqn:E1 end.
      assert (HN : jNL p1 <> 0%nat).
      { pose proof (pl_core_NL c (remove_utf8_bom l (c_enc c)) (with_bom jprod_init true)) as HN. unfold pl_core, bump, with_bom in HN. cbn in HN.
        rewrite E1 in HN. cbn in HN. lia. }
      rewrite (process_lines_nb_eq c r p1 HN). reflexivity.
  Qed.

  (* what the JS producer does with a list of non-comment logical rows: NR, first defective line, fields_info, and the
     calls into the consumer-facing side. It does not stop at an rfc defect: it stores the exception and goes on *)
  Fixpoint emit_rows (c : cfg) (nr : nat) (fdl : option nat) (finfo : list (nat * nat)) (rows : list (str * nat))
    : (nat * option nat * list (nat * nat)) * list action :=
    match rows with
    | [] => ((nr, fdl, finfo), [])
    | (line, nl) :: r =>
        let nr' := S nr in
        let first := match fdl with None => true | Some _ => false end in
        let fdl' := if snd (split line) && first then Some nl else fdl in
        let acts := (if snd (split line) && first && c_rfc c then [AStore (JDefect nr' nl)] else []) ++ [AEnqueue (fst (split line))] in
        let '(fin, acts2) := emit_rows c nr' fdl' (fields_info_add finfo (length (fst (split line))) nr') r in
        (fin, acts ++ acts2)
    end.

  Definition pstate (p : jprod) := (jNR p, j_fdl p, j_finfo p).

  (* process_record_line = one step of emit_rows *)
  Lemma prl_emit c line p :
    let '(p1, a1) := process_record_line split c line p in
    forall rest, emit_rows c (jNR p) (j_fdl p) (j_finfo p) ((line, jNL p) :: rest) =
                 (let '(fin, a2) := emit_rows c (jNR p1) (j_fdl p1) (j_finfo p1) rest in (fin, a1 ++ a2)) /\
    jNL p1 = jNL p /\ j_bom p1 = j_bom p /\ j_agg p1 = j_agg p.
  Proof.
    unfold process_record_line. destruct (split line) as [record warning] eqn:Es. intros rest.
    cbn [emit_rows jNR j_fdl j_finfo jNL j_bom j_agg]. rewrite Es. cbn [fst snd]. auto.
  Qed.

  Definition agg_open (op : list str) : agg := {| rfc_line_buffer := op; has_full_record := false; has_comment_line := false |}.

  Lemma set_agg_same p a : j_agg p = a -> set_agg p a = p.
  Proof. intros <-. destruct p; reflexivity. Qed.

  (* quoted_rfc: the aggregator is the [open] argument of group_rfc *)
  Lemma nb_rfc c : comment_ok c -> c_rfc c = true -> forall L p op,
    j_agg p = agg_open op -> (op <> [] -> is_comment c (hd [] op) = false) ->
    let '(p1, a1) := process_lines_nb c L p in
    let '(p2, a2) := flush_aggregator split c p1 in
    emit_rows c (jNR p) (j_fdl p) (j_finfo p) (filter (nc c) (group_rfc c op (jNL p) L)) = (pstate p2, a1 ++ a2) /\
    jNL p2 = (jNL p + length L)%nat /\ j_bom p2 = j_bom p.
  Proof.
    intros Hcok Hrfc. induction L as [|l r IH]; intros p op Hagg Hop.
    - cbn [process_lines_nb]. unfold flush_aggregator, is_inside_multiline_record. rewrite Hagg. cbn [agg_open rfc_line_buffer has_full_record].
      destruct op as [|o os]; cbn [length Nat.eqb negb andb group_rfc filter app].
      + cbn. unfold pstate. repeat split; auto; lia.
      + unfold get_full_line. cbn [agg_open rfc_line_buffer].
        assert (Hnc : nc c (join [LF] (o :: os), jNL p) = true).
        { unfold nc. cbn [fst]. rewrite (is_comment_join c o os Hcok (Hop ltac:(discriminate))). reflexivity. }
        rewrite Hnc. pose proof (prl_emit c (join [LF] (o :: os)) p) as H.
        destruct (process_record_line split c (join [LF] (o :: os)) p) as [p1 a1].
        destruct (H []) as (E & A & B & _). rewrite E. cbn [emit_rows]. unfold pstate. rewrite app_nil_r. repeat split; auto; lia.
    - cbn [process_lines_nb]. unfold pl_core. rewrite Hrfc. unfold process_partial_rfc_record_line.
      assert (Hb : j_agg (bump p) = agg_open op) by exact Hagg.
      rewrite Hb. unfold add_line. cbn [agg_open has_full_record has_comment_line orb rfc_line_buffer].
      destruct op as [|o os].
      + (* at a record start *)
        cbn [group_rfc]. destruct (is_comment c l) eqn:Ec; cbn [has_comment_line has_full_record].
        * (* a comment line: dropped *)
          cbn [filter]. unfold nc at 1. cbn [fst]. rewrite Ec. cbn [negb app].
          specialize (IH (set_agg (bump p) agg_reset) [] eq_refl ltac:(congruence)).
          destruct (process_lines_nb c r (set_agg (bump p) agg_reset)) as [p1 a1]. cbn [app].
          destruct (flush_aggregator split c p1) as [p2 a2]. cbn [set_agg bump jNL jNR j_fdl j_finfo j_bom] in IH.
          destruct IH as (E & A & B). rewrite E. cbn [length]. repeat split; auto. lia.
        * cbn [app length Nat.eqb Nat.ltb Nat.leb]. unfold quotes_odd at 1 2.
          destruct (Nat.odd (count_ch QT l)) eqn:Eo; cbn [negb andb orb].
          -- (* opens a multi-line record *)
             change (quotes_odd l) with (Nat.odd (count_ch QT l)). rewrite Eo. cbn [negb andb orb].
             fold (agg_open [l]).
             specialize (IH (set_agg (bump p) (agg_open [l])) [l] eq_refl (fun _ => Ec)).
             destruct (process_lines_nb c r (set_agg (bump p) (agg_open [l]))) as [p1 a1]. cbn [app].
             destruct (flush_aggregator split c p1) as [p2 a2]. cbn [set_agg bump jNL jNR j_fdl j_finfo j_bom] in IH.
             destruct IH as (E & A & B). rewrite E. cbn [length app]. repeat split; auto. lia.
          -- (* a one-line record *)
             change (quotes_odd l) with (Nat.odd (count_ch QT l)). rewrite Eo. cbn [negb andb orb].
             cbn [filter]. unfold nc at 1. cbn [fst]. rewrite Ec. cbn [negb].
             unfold get_full_line. cbn [rfc_line_buffer join].
             pose proof (prl_emit c l (set_agg (bump p) {| rfc_line_buffer := [l]; has_full_record := true; has_comment_line := false |})) as H.
             destruct (process_record_line split c l _) as [p1 a1]. cbn [set_agg bump jNL jNR j_fdl j_finfo j_bom j_agg] in H.
             specialize (IH (set_agg p1 agg_reset) [] eq_refl ltac:(congruence)).
             destruct (process_lines_nb c r (set_agg p1 agg_reset)) as [p2 a2].
             destruct (flush_aggregator split c p2) as [p3 a3]. cbn [set_agg jNL jNR j_fdl j_finfo j_bom] in IH.
             destruct (H (filter (nc c) (group_rfc c [] (S (jNL p)) r))) as (E & A & B & _). rewrite E.
             destruct IH as (E2 & A2 & B2). rewrite A in E2. rewrite E2. cbn [length]. rewrite <- app_assoc. repeat split; auto; try lia; congruence.
      + (* inside a multi-line record *)
        rewrite group_rfc_open. cbn [has_comment_line has_full_record].
        assert (Hlen : Nat.eqb (length ((o :: os) ++ [l])) 1 = false) by (rewrite app_length; cbn; destruct (length os); reflexivity).
        assert (Hlt : Nat.ltb 1 (length ((o :: os) ++ [l])) = true) by (rewrite app_length; cbn; destruct (length os); reflexivity).
        rewrite Hlen, Hlt, andb_false_r, andb_true_r. cbn [orb].
        destruct (quotes_odd l) eqn:Eo.
        * unfold get_full_line. cbn [rfc_line_buffer].
          assert (Hnc : nc c (join [LF] ((o :: os) ++ [l]), S (jNL p)) = true).
          { unfold nc. cbn [fst app]. rewrite (is_comment_join c o (os ++ [l]) Hcok (Hop ltac:(discriminate))). reflexivity. }
          cbn [filter]. rewrite Hnc.
          pose proof (prl_emit c (join [LF] ((o :: os) ++ [l])) (set_agg (bump p) {| rfc_line_buffer := (o :: os) ++ [l]; has_full_record := true; has_comment_line := false |})) as H.
          destruct (process_record_line split c (join [LF] ((o :: os) ++ [l])) _) as [p1 a1]. cbn [set_agg bump jNL jNR j_fdl j_finfo j_bom j_agg] in H.
          specialize (IH (set_agg p1 agg_reset) [] eq_refl ltac:(congruence)).
          destruct (process_lines_nb c r (set_agg p1 agg_reset)) as [p2 a2].
          destruct (flush_aggregator split c p2) as [p3 a3]. cbn [set_agg jNL jNR j_fdl j_finfo j_bom] in IH.
          destruct (H (filter (nc c) (group_rfc c [] (S (jNL p)) r))) as (E & A & B & _). rewrite E.
          destruct IH as (E2 & A2 & B2). rewrite A in E2. rewrite E2. cbn [length]. rewrite <- app_assoc. repeat split; auto; try lia; congruence.
        * fold (agg_open ((o :: os) ++ [l])).
          specialize (IH (set_agg (bump p) (agg_open ((o :: os) ++ [l]))) ((o :: os) ++ [l]) eq_refl (fun _ => Hop ltac:(discriminate))).
          destruct (process_lines_nb c r (set_agg (bump p) (agg_open ((o :: os) ++ [l])))) as [p1 a1]. cbn [app].
          destruct (flush_aggregator split c p1) as [p2 a2]. cbn [set_agg bump jNL jNR j_fdl j_finfo j_bom] in IH.
          destruct IH as (E & A & B). cbn [app] in E. rewrite E. cbn [length app]. repeat split; auto. lia.
  Qed.

  (* the other policies: every physical line is a row; comment lines are dropped *)
  Lemma nb_simple c : c_rfc c = false -> forall L p,
    let '(p1, a1) := process_lines_nb c L p in
    emit_rows c (jNR p) (j_fdl p) (j_finfo p) (filter (nc c) (number_from (jNL p) L)) = (pstate p1, a1) /\
    jNL p1 = (jNL p + length L)%nat /\ j_bom p1 = j_bom p /\ j_agg p1 = j_agg p.
  Proof.
    intros Hrfc. induction L as [|l r IH]; intros p.
    - cbn. unfold pstate. repeat split; auto.
    - cbn [process_lines_nb number_from filter]. unfold pl_core. rewrite Hrfc. unfold process_record_line_simple, nc at 1. cbn [fst].
      destruct (is_comment c l); cbn [negb].
      + specialize (IH (bump p)). destruct (process_lines_nb c r (bump p)) as [p1 a1]. cbn [bump jNL jNR j_fdl j_finfo j_bom j_agg] in IH.
        destruct IH as (E & A & B & C). cbn [app length]. repeat split; auto. lia.
      + pose proof (prl_emit c l (bump p)) as H. destruct (process_record_line split c l (bump p)) as [p1 a1].
        cbn [bump jNL jNR j_fdl j_finfo j_bom j_agg] in H.
        destruct (H (filter (nc c) (number_from (S (jNL p)) r))) as (E & A & B & C). rewrite E.
        specialize (IH p1). destruct (process_lines_nb c r p1) as [p2 a2]. rewrite A in IH.
        destruct IH as (E2 & A2 & B2 & C2). rewrite E2. cbn [length]. repeat split; auto; try lia; congruence.
  Qed.

  (* emit_rows against parse_rows: same records and counters when there is no rfc defect; otherwise the first stored
     exception is the defect parse_rows reports *)
  Lemma emit_parse c : forall rows nr fdl finfo E0,
    match parse_rows split c nr fdl finfo rows with
    | inl (recs, fin) =>
        fst (emit_rows c nr fdl finfo rows) = fin /\ ghosts (snd (emit_rows c nr fdl finfo rows)) (E0, None) = (E0 ++ recs, None)
    | inr (nr', nl) => snd (ghosts (snd (emit_rows c nr fdl finfo rows)) (E0, None)) = Some (JDefect nr' nl)
    end.
  Proof.
    induction rows as [|[line nl] r IH]; intros nr fdl finfo E0.
    - cbn. rewrite app_nil_r. auto.
    - cbn [parse_rows emit_rows]. destruct (split line) as [record warning]. cbn [fst snd].
      set (first := match fdl with None => true | Some _ => false end).
      destruct (warning && first && c_rfc c) eqn:Ew.
      + destruct (emit_rows c (S nr) _ _ r) as [fin acts2]. cbn [snd app ghosts fold_left ghost fst].
        assert (G : forall acts g, snd g = Some (JDefect (S nr) nl) -> snd (fold_left (fun g a => ghost a g) acts g) = Some (JDefect (S nr) nl)).
        { induction acts as [|a acts IHa]; intros g Hg; [exact Hg|]. cbn. apply IHa. destruct a; cbn; auto. rewrite Hg. reflexivity. }
        apply G. reflexivity.
      + specialize (IH (S nr) (if warning && first then Some nl else fdl) (fields_info_add finfo (length record) (S nr)) (E0 ++ [record])).
        destruct (parse_rows split c (S nr) _ _ r) as [[recs fin]|[nr' nl']];
          destruct (emit_rows c (S nr) _ _ r) as [fin2 acts2]; cbn [fst snd app ghosts fold_left ghost] in *.
        * destruct IH as [-> IH]. split; [reflexivity|]. unfold ghosts in IH. rewrite IH, <- app_assoc. reflexivity.
        * exact IH.
  Qed.

  Lemma number_from_length : forall L n, length (number_from n L) = length L.
  Proof. induction L as [|l r IH]; intros n; cbn; [reflexivity|]. rewrite IH. reflexivity. Qed.

  (* the whole line-level function of the JS reader = the specification shared with the Python reader *)
  Theorem js_lines_spec c lines :
    comment_ok c -> js_lines_result split c lines = jresult_of_result (records_of_lines split c lines).
  Proof.
    intros Hcok. unfold js_lines_result, records_of_lines. rewrite process_lines_bom.
    pose proof (strip_bom_first_length (c_enc c) lines) as Hlen.
    destruct (strip_bom_first (c_enc c) lines) as [lines1 bom]. cbn [fst snd] in *.
    change (fun r : str * nat => negb (is_comment c (fst r))) with (nc c).
    set (p0 := with_bom jprod_init bom).
    assert (Hrows : exists p2 acts,
       (let '(p1, a1) := process_lines_nb c lines1 p0 in let '(p2, a2) := flush_aggregator split c p1 in (p2, a1 ++ a2)) = (p2, acts) /\
       emit_rows c 0 None [] (filter (nc c) (logical_rows c lines1)) = (pstate p2, acts) /\
       jNL p2 = length lines /\ j_bom p2 = bom).
    { unfold logical_rows. destruct (c_rfc c) eqn:Erfc.
      - pose proof (nb_rfc c Hcok Erfc lines1 p0 [] eq_refl ltac:(congruence)) as H.
        destruct (process_lines_nb c lines1 p0) as [p1 a1]. destruct (flush_aggregator split c p1) as [p2 a2].
        exists p2, (a1 ++ a2). destruct H as (E & A & B). cbn in A, B. split; [reflexivity|]. split; [exact E|]. split; [lia|exact B].
      - pose proof (nb_simple c Erfc lines1 p0) as H.
        destruct (process_lines_nb c lines1 p0) as [p1 a1]. destruct H as (E & A & B & C).
        unfold flush_aggregator. rewrite C. cbn. exists p1, (a1 ++ []). rewrite app_nil_r.
        cbn in A, B. split; [reflexivity|]. split; [exact E|]. split; [lia|exact B]. }
    destruct Hrows as (p2 & acts & Erun & Eemit & HNL & Hbom).
    destruct (process_lines_nb c lines1 p0) as [p1 a1]. destruct (flush_aggregator split c p1) as [p2' a2].
    inversion Erun; subst p2' acts. clear Erun.
    pose proof (emit_parse c (filter (nc c) (logical_rows c lines1)) 0 None [] []) as HP. rewrite Eemit in HP. cbn [fst snd] in HP.
    unfold js_outcome. destruct (parse_rows split c 0 None [] (filter (nc c) (logical_rows c lines1))) as [[recs [[nr fdl] finfo]]|[nr' nl]].
    - destruct HP as [Hfin HG]. rewrite HG. cbn [fst snd app]. unfold pstate in Hfin. inversion Hfin.
      unfold js_warnings, jresult_of_result. rewrite HNL, Hbom. reflexivity.
    - rewrite HP. reflexivity.
  Qed.
End JsSpec.

(* ------------------------------------------------------------------ byte level: non-empty byte chunks are always faithful *)

(* an empty DECODED chunk only arises when a byte chunk ends inside a character; the next character is then not LF *)
Lemma streaming_chunks_ok : forall chunks st ds tcr flag,
  Forall (fun x => x <> []) chunks -> dwf st -> (d_needed st = 0%nat -> flag = tcr) ->
  decode_streaming_from st chunks = Some ds -> js_chunks_ok tcr flag ds.
Proof.
  induction chunks as [|x r IH]; intros st ds tcr flag Hne Hw HP Hd; cbn [decode_streaming_from] in Hd.
  - destruct (decode_flush st); inversion Hd. exact I.
  - inversion Hne as [|? ? Hx Hr]; subst.
    destruct (decode_chunk st x) as [[s st1]|] eqn:Ec; [|discriminate].
    destruct (decode_streaming_from st1 r) as [l|] eqn:Er; [|discriminate]. inversion Hd; subst. clear Hd.
    pose proof (decode_chunk_dwf _ _ _ _ Hw Ec) as Hw1. cbn [js_chunks_ok].
    destruct s as [|c s'].
    + apply (IH st1 l tcr false Hr Hw1); [|exact Er].
      intros Hn. exfalso. exact (decode_chunk_silent _ _ _ Hw Hx Ec Hn).
    + split.
      * intros Hlf Htcr. destruct (Nat.eq_dec (d_needed st) 0) as [Hn|Hn]; [rewrite (HP Hn); exact Htcr|].
        pose proof (decode_chunk_inside _ _ _ _ _ Hw Hn Ec) as Hc. cbn [starts_lf] in Hlf. apply N.eqb_eq in Hlf. subst c.
        unfold LF in Hc. lia.
      * apply (IH st1 l _ _ Hr Hw1); [reflexivity|exact Er].
Qed.

Section ByteFinal.
  Variable split : str -> list str * bool.

  (* C20_stream_is_bulk at the byte level: valid UTF-8, ANY partition into non-empty chunks (boundaries inside a CRLF pair or
     inside a multi-byte character included), ANY continuation schedule: the stream path = the bulk path *)
  Theorem js_stream_is_bulk c b0 chunks :
    c_enc c = EncUtf8 -> valid_utf8 (concat (map fst chunks)) -> Forall (fun x => x <> []) (map fst chunks) ->
    run_js_stream split c b0 chunks = run_js_bulk split c (concat (map fst chunks)).
  Proof.
    intros He Hv Hne. apply (js_stream_is_bulk_utf8 split c b0 chunks He Hv).
    intros ds Hd. apply (streaming_chunks_ok (map fst chunks) d_init ds false false Hne dwf_init (fun _ => eq_refl) Hd).
  Qed.

  Theorem js_stream_is_bulk_binary c b0 chunks :
    c_enc c <> EncUtf8 -> Forall (fun x => x <> []) (map fst chunks) ->
    run_js_stream split c b0 chunks = run_js_bulk split c (concat (map fst chunks)).
  Proof.
    intros He Hne. apply (js_stream_is_bulk_latin1 split c b0 chunks He). apply js_chunks_ok_nonempty. exact Hne.
  Qed.

  (* ... and both are the specification applied to the decoded text *)
  Theorem js_bulk_spec c blob text :
    comment_ok c ->
    (match c_enc c with EncUtf8 => decode_whole blob | _ => Some (decode_latin1 blob) end) = Some text ->
    run_js_bulk split c blob = jresult_of_result (records_of_text split c text).
  Proof.
    intros Hc Hd. rewrite js_bulk_result, Hd, js_bulk_lines. apply js_lines_spec. exact Hc.
  Qed.

  Theorem js_decoded_spec c b0 chunks :
    comment_ok c -> js_chunks_ok false false (map fst chunks) ->
    run_js_decoded split c b0 chunks = jresult_of_result (records_of_text split c (concat (map fst chunks))).
  Proof.
    intros Hc Hok. rewrite js_decoded_result, (js_lines _ Hok). apply js_lines_spec. exact Hc.
  Qed.

  (* readers_agree (for C18): on the same text the Python reader (any pieces, any chunk size) and the JS reader (any chunks,
     any schedule) compute the same value - the records_of_text specification: same records, header, NL, NR, the same
     rfc error, and the same warning data *)
  Theorem readers_agree c cs pieces b0 chunks :
    (1 <= cs)%nat -> Forall (fun p => p <> []) pieces -> comment_ok c -> js_chunks_ok false false (map fst chunks) ->
    concat pieces = concat (map fst chunks) ->
    run_js_decoded split c b0 chunks = jresult_of_result (run_py split c cs pieces) /\
    run_py split c cs pieces = records_of_text split c (concat pieces).
  Proof.
    intros Hcs Hne Hc Hok Heq. rewrite (js_decoded_spec c b0 chunks Hc Hok), (py_records split c cs pieces Hcs Hne), Heq. auto.
  Qed.

  (* the same for a UTF-8 byte stream on the JS side and the decoded text on the Python side *)
  Theorem readers_agree_bytes c cs pieces b0 chunks text :
    (1 <= cs)%nat -> Forall (fun p => p <> []) pieces -> comment_ok c -> c_enc c = EncUtf8 ->
    Forall (fun x => x <> []) (map fst chunks) -> decode_whole (concat (map fst chunks)) = Some text -> concat pieces = text ->
    run_js_stream split c b0 chunks = jresult_of_result (run_py split c cs pieces).
  Proof.
    intros Hcs Hne Hc He Hnb Hd Heq.
    rewrite (js_stream_is_bulk c b0 chunks He (ex_intro _ text Hd) Hnb).
    rewrite (js_bulk_spec c _ text Hc) by (rewrite He; exact Hd).
    rewrite (py_records split c cs pieces Hcs Hne), Heq. reflexivity.
  Qed.
End ByteFinal.

(* the two ports list their warnings in different orders; as sets they are the same *)
Lemma warnings_same_set w : forall x, In x (py_warning_list w) <-> In x (js_warning_list w).
Proof.
  intros x. unfold py_warning_list, js_warning_list. rewrite !in_app_iff. tauto.
Qed.

(* the Python port applies the comment test to the assembled quoted_rfc record, the JS port only to physical lines at a record
   start: with a comment prefix that contains LF they differ (outside comment_ok) *)
Lemma readers_disagree_lf_prefix :
  exists c text,
    run_js_decoded (lite_split (Some [COMMA])) c true [(text, true)] <>
    jresult_of_result (run_py (lite_split (Some [COMMA])) c 1 [text]).
Proof.
  exists {| c_rfc := true; c_comment := Some [97; QT; LF; 98]%N; c_header := false; c_enc := EncNone; c_modifier := None |},
         [97; QT; LF; 98; QT]%N.
  vm_compute. discriminate.
Qed.
