(* ReaderJs_Proofs.v — proofs about ReaderJs.v (JS push reader).
   Part 1: the chunk layer (partially_decoded_line / ..._ends_with_cr / split_lines / first_line_index) hands exactly
           split_lines (concat chunks) to process_line (C20_lines); the bulk path does the same on the whole text.
   Part 2: the producer (process_line ... process_record_line, MultilineRecordAggregator) computes the records_of_lines spec.
   Part 3: the consumer-facing side (queue, exception storing, promise callbacks): the outcome of get_header/get_all_records does
           not depend on when the continuations run.
   Part 4: stream = bulk (C20_stream_is_bulk), byte level with the UTF-8 decoder, Python reader = JS reader (readers_agree). *)
From RBQL Require Import Base Lines Utf8 Reader ReaderJs Reader_Proofs Utf8_Proofs.

(* ------------------------------------------------------------------ Part 1: lines *)

Lemma js_split_fuel_enough : forall f1 f2 t,
  (length t < f1)%nat -> (length t < f2)%nat -> js_split_fuel f1 t = js_split_fuel f2 t.
Proof.
  induction f1 as [|f1 IH]; intros f2 t H1 H2; [lia|].
  destruct f2 as [|f2]; [lia|]. cbn [js_split_fuel].
  destruct (extract t) as [[[b s] a]|] eqn:E; [|reflexivity].
  pose proof (extract_shorter _ _ _ _ E). f_equal. apply IH; lia.
Qed.

Lemma js_split_unfold t :
  js_split_lines t = match extract t with None => [t] | Some (b, _, a) => b :: js_split_lines a end.
Proof.
  unfold js_split_lines at 1. cbn [js_split_fuel].
  destruct (extract t) as [[[b s] a]|] eqn:E; [|reflexivity].
  pose proof (extract_shorter _ _ _ _ E). f_equal. unfold js_split_lines. apply js_split_fuel_enough; lia.
Qed.

Lemma js_split_nonempty t : js_split_lines t <> [].
Proof. rewrite js_split_unfold. destruct (extract t) as [[[b s] a]|]; discriminate. Qed.

Definition ends_cr (t : str) : bool := match last_opt t with Some c => N.eqb c CR | None => false end.
Definition starts_lf (t : str) : bool := match t with c :: _ => N.eqb c LF | [] => false end.

Lemma last_opt_cons {T} (x : T) l : l <> [] -> last_opt (x :: l) = last_opt l.
Proof. destruct l; [congruence|reflexivity]. Qed.

Lemma last_opt_app {T} (a b : list T) : b <> [] -> last_opt (a ++ b) = last_opt b.
Proof.
  intros Hb. induction a as [|x a IH]; [reflexivity|]. cbn [app]. rewrite last_opt_cons; [exact IH|].
  destruct a; [exact Hb|discriminate].
Qed.

Lemma ends_cr_cons x t : t <> [] -> ends_cr (x :: t) = ends_cr t.
Proof. intros H. unfold ends_cr. rewrite last_opt_cons by exact H. reflexivity. Qed.

(* how the shape of the first break determines whether the text ends in CR *)
Lemma extract_ends_cr : forall t,
  match extract t with
  | None => ends_cr t = false
  | Some (b, sp, a) =>
      match sp, a with
      | SCR, [] => ends_cr t = true
      | _, _ => ends_cr t = ends_cr a
      end
  end.
Proof.
  induction t as [|c t IH]; [reflexivity|]. cbn [extract].
  destruct (N.eqb c LF) eqn:E1.
  - destruct t as [|c2 t2]; [unfold ends_cr; cbn; apply N.eqb_eq in E1; subst; reflexivity|].
    apply ends_cr_cons. discriminate.
  - destruct (N.eqb c CR) eqn:E2.
    + destruct t as [|c2 t2]; [unfold ends_cr; cbn; exact E2|].
      destruct (N.eqb c2 LF) eqn:E3.
      * destruct t2 as [|c3 t3].
        -- unfold ends_cr. cbn. apply N.eqb_eq in E3. subst. reflexivity.
        -- rewrite ends_cr_cons by discriminate. apply ends_cr_cons. discriminate.
      * apply ends_cr_cons. discriminate.
    + destruct (extract t) as [[[b s] a]|] eqn:Et.
      * assert (Hne : t <> []) by (destruct t; [discriminate|discriminate]).
        rewrite (ends_cr_cons c t Hne). exact IH.
      * destruct t as [|c2 t2]; [unfold ends_cr; cbn; exact E2|].
        rewrite ends_cr_cons by discriminate. exact IH.
Qed.

Lemma removelast_cons {T} (x : T) l : l <> [] -> removelast (x :: l) = x :: removelast l.
Proof. destruct l; [congruence|reflexivity]. Qed.

Lemma last_cons {T} (x : T) l d : l <> [] -> last (x :: l) d = last l d.
Proof. destruct l; [congruence|reflexivity]. Qed.

Lemma hd_tl {T} (l : list T) d : l <> [] -> hd d l :: tl l = l.
Proof. destruct l; [congruence|reflexivity]. Qed.

(* splitting a concatenation: the two piece lists are glued at the seam, except that a CR | LF seam is one break *)
Lemma js_split_app : forall n T d, (length T < n)%nat ->
  js_split_lines (T ++ d) =
  if ends_cr T && starts_lf d
  then removelast (js_split_lines T) ++ js_split_lines (tl d)
  else removelast (js_split_lines T) ++ (last (js_split_lines T) [] ++ hd [] (js_split_lines d)) :: tl (js_split_lines d).
Proof.
  induction n as [|n IH]; intros T d Hn; [lia|].
  rewrite (js_split_unfold T). pose proof (extract_ends_cr T) as HE.
  destruct (extract T) as [[[b sp] a]|] eqn:E.
  - assert (Hgen : sep_tail sp a -> ends_cr T = ends_cr a ->
        js_split_lines (T ++ d) =
        if ends_cr T && starts_lf d
        then removelast (b :: js_split_lines a) ++ js_split_lines (tl d)
        else removelast (b :: js_split_lines a) ++ (last (b :: js_split_lines a) [] ++ hd [] (js_split_lines d)) :: tl (js_split_lines d)).
    { intros Ht Hec. rewrite (js_split_unfold (T ++ d)), (extract_app_some _ _ _ _ d E Ht).
      pose proof (extract_shorter _ _ _ _ E) as Hs. rewrite (IH a d) by lia.
      rewrite Hec, (removelast_cons b _ (js_split_nonempty a)), (last_cons b _ [] (js_split_nonempty a)).
      destruct (ends_cr a && starts_lf d); reflexivity. }
    destruct sp; try (apply Hgen; [intros [C _]; discriminate|exact HE]).
    destruct a as [|a0 a']; [|apply Hgen; [intros [_ C]; discriminate|exact HE]].
    clear Hgen. rewrite HE. cbn [andb]. rewrite (js_split_unfold (T ++ d)), (extract_app_cr _ _ d E).
    rewrite (js_split_unfold []). cbn [extract removelast last app].
    destruct d as [|c d']; cbn [starts_lf].
    + rewrite (js_split_unfold []). cbn. reflexivity.
    + destruct (N.eqb c LF); cbn [tl].
      * reflexivity.
      * f_equal. symmetry. apply hd_tl. apply js_split_nonempty.
  - rewrite HE. cbn [andb removelast last app]. rewrite (js_split_unfold (T ++ d)), (extract_app_none _ d E).
    rewrite (js_split_unfold d). destruct (extract d) as [[[b sp] a]|]; reflexivity.
Qed.

(* the bulk path: split, drop a final empty piece = the specification of line breaking *)
Lemma lines_js_bulk_spec : forall n t, (length t < n)%nat -> lines_js_bulk t = split_lines t.
Proof.
  unfold lines_js_bulk. induction n as [|n IH]; intros t Hn; [lia|].
  rewrite split_lines_next, (js_split_unfold t). unfold next.
  destruct (extract t) as [[[b sp] a]|] eqn:E.
  - pose proof (extract_shorter _ _ _ _ E) as Hs. rewrite <- (IH a) by lia.
    rewrite (last_opt_cons b _ (js_split_nonempty a)).
    destruct (last_opt (js_split_lines a)) as [[|x y]|]; [|reflexivity|reflexivity].
    apply removelast_cons. apply js_split_nonempty.
  - destruct t; reflexivity.
Qed.

Theorem js_bulk_lines t : lines_js_bulk t = split_lines t.
Proof. apply (lines_js_bulk_spec (S (length t))). lia. Qed.

(* the condition under which the stream path is faithful: an EMPTY chunk resets ..._ends_with_cr, so a chunk that starts
   with LF must not come after an empty chunk that follows a chunk ending in CR.
   [tcr] = the text so far ends in CR; [flag] = partially_decoded_line_ends_with_cr *)
Fixpoint js_chunks_ok (tcr flag : bool) (chunks : list str) : Prop :=
  match chunks with
  | [] => True
  | d :: r =>
      match d with
      | [] => js_chunks_ok tcr false r
      | _ => (starts_lf d = true -> tcr = true -> flag = true) /\ js_chunks_ok (ends_cr d) (ends_cr d) r
      end
  end.

Lemma js_chunks_ok_nonempty : forall chunks b, Forall (fun d => d <> []) chunks -> js_chunks_ok b b chunks.
Proof.
  induction chunks as [|d r IH]; intros b H; [exact I|].
  inversion H as [|? ? Hd Hr]; subst. cbn [js_chunks_ok]. destruct d as [|c d']; [congruence|].
  split; [auto|apply IH; exact Hr].
Qed.

Lemma ends_cr_app T d : d <> [] -> ends_cr (T ++ d) = ends_cr d.
Proof. intros H. unfold ends_cr. rewrite last_opt_app by exact H. reflexivity. Qed.

Lemma app_removelast_last' {T} (l : list T) d : l <> [] -> removelast l ++ [last l d] = l.
Proof. intros H. symmetry. apply app_removelast_last. exact H. Qed.

Lemma removelast_snoc {T} (E : list T) x : removelast (E ++ [x]) = E.
Proof. apply removelast_last. Qed.

Lemma last_snoc {T} (E : list T) x d : last (E ++ [x]) d = x.
Proof. apply last_last. Qed.

(* invariant: the pieces of the text so far = the lines already handed over ++ [partially_decoded_line] *)
Lemma lines_js_inv : forall chunks T E pdl flag,
  js_split_lines T = E ++ [pdl] -> (flag = true -> ends_cr T = true) -> js_chunks_ok (ends_cr T) flag chunks ->
  E ++ lines_js_from pdl flag chunks = split_lines (T ++ concat chunks).
Proof.
  induction chunks as [|d r IH]; intros T E pdl flag HT Hflag Hok.
  - cbn [lines_js_from concat]. rewrite app_nil_r, <- js_bulk_lines. unfold lines_js_bulk. rewrite HT.
    rewrite last_opt_app by discriminate. cbn [last_opt].
    destruct pdl as [|p0 p']; [rewrite removelast_snoc, app_nil_r; reflexivity|reflexivity].
  - cbn [lines_js_from concat]. rewrite app_assoc.
    pose proof (js_split_app (S (length T)) T d (Nat.lt_succ_diag_r _)) as Happ. rewrite HT, removelast_snoc, last_snoc in Happ.
    unfold chunk_lines.
    set (lines0 := (pdl ++ hd [] (js_split_lines d)) :: tl (js_split_lines d)) in *.
    destruct d as [|c d'].
    + (* empty chunk: nothing happens, except that the CR flag is lost *)
      cbn [js_chunks_ok] in Hok. rewrite app_nil_r in *. cbn [starts_lf last_opt andb].
      unfold lines0. rewrite (js_split_unfold []). cbn [extract hd tl removelast last app]. rewrite app_nil_r.
      cbn [app]. apply (IH T E pdl false HT); [discriminate|exact Hok].
    + cbn [js_chunks_ok] in Hok. destruct Hok as [Hlf Hok'].
      assert (Hec : ends_cr (T ++ c :: d') = ends_cr (c :: d')) by (apply ends_cr_app; discriminate).
      change (match last_opt (c :: d') with Some c0 => N.eqb c0 CR | None => false end) with (ends_cr (c :: d')).
      cbn [starts_lf] in *.
      destruct (N.eqb c LF) eqn:Elf.
      * destruct (ends_cr T) eqn:Ecr.
        -- (* CR | LF seam *)
           rewrite (Hlf eq_refl eq_refl). cbn [andb] in *. cbn [tl] in Happ.
           assert (Hl0 : lines0 = (pdl ++ []) :: js_split_lines d').
           { unfold lines0. rewrite (js_split_unfold (c :: d')). cbn [extract]. rewrite Elf. reflexivity. }
           rewrite Hl0. rewrite (removelast_cons _ _ (js_split_nonempty d')), (last_cons _ _ [] (js_split_nonempty d')). cbn [tl].
           rewrite app_assoc. apply IH.
           ++ rewrite Happ, <- app_assoc. f_equal. apply app_removelast_last. apply js_split_nonempty.
           ++ intros Hf. rewrite Hec. exact Hf.
           ++ rewrite Hec. exact Hok'.
        -- (* LF at the start of the chunk, no CR before: an ordinary break *)
           assert (Hfl : flag = false) by (destruct flag; [specialize (Hflag eq_refl); discriminate|reflexivity]).
           rewrite Hfl. cbn [andb] in *. rewrite app_assoc. apply IH.
           ++ rewrite Happ. fold lines0. rewrite <- app_assoc. f_equal. apply app_removelast_last. discriminate.
           ++ intros Hf. rewrite Hec. exact Hf.
           ++ rewrite Hec. exact Hok'.
      * rewrite andb_false_r in Happ. cbn [andb]. rewrite app_assoc. apply IH.
        ++ rewrite Happ. fold lines0. rewrite <- app_assoc. f_equal. apply app_removelast_last. discriminate.
        ++ intros Hf. rewrite Hec. exact Hf.
        ++ rewrite Hec. exact Hok'.
Qed.

(* C20_lines *)
Theorem js_lines chunks : js_chunks_ok false false chunks -> lines_js chunks = split_lines (concat chunks).
Proof.
  intros H. unfold lines_js. apply (lines_js_inv chunks [] [] [] false); [reflexivity|discriminate|exact H].
Qed.

Corollary js_lines_nonempty chunks : Forall (fun d => d <> []) chunks -> lines_js chunks = split_lines (concat chunks).
Proof. intros H. apply js_lines. apply js_chunks_ok_nonempty. exact H. Qed.

(* the faithful model leaves the specification when a stream delivers an empty chunk between CR and LF *)
Lemma js_empty_chunk_refuted :
  exists chunks, lines_js chunks <> split_lines (concat chunks).
Proof. exists [[97; CR]; []; [LF; 98]]%N. vm_compute. discriminate. Qed.

(* ------------------------------------------------------------------ Part 3: the consumer-facing side *)

Definition Qof (q : jcons) : list (list str) := j_pull q ++ j_push q.
Definition first1 {T} (E : list T) : list T := match E with [] => [] | a :: _ => [a] end.

(* no exception stored so far. [E] = every record enqueued so far *)
Definition InvN (E : list (list str)) (cs : cstate) (q : jcons) : Prop :=
  j_exc q = None /\
  match cs with
  | CStart => j_pending q = false /\ j_inbox q = None /\ j_preread q = false /\ j_first_record q = None /\
              j_frse q = negb (j_has_header q) /\ E = Qof q
  | CPreread => j_preread q = false /\ j_first_record q = None /\ j_frse q = negb (j_has_header q) /\
      ((j_pending q = true /\ j_inbox q = None /\ Qof q = [] /\ E = []) \/
       (j_pending q = false /\ exists r, j_inbox q = Some (DRec r) /\ E = r :: Qof q) \/
       (j_pending q = false /\ j_inbox q = Some DNull /\ E = [] /\ Qof q = [] /\ j_exhausted q = true))
  | CLoop acc => j_preread q = true /\ j_frse q = false /\ j_first_record q = hd_error E /\
      let pre := if j_has_header q then first1 E else [] in
      ((j_pending q = true /\ j_inbox q = None /\ Qof q = [] /\ E = pre ++ acc /\ E <> []) \/
       (j_pending q = false /\ exists r, j_inbox q = Some (DRec r) /\ E = pre ++ acc ++ r :: Qof q) \/
       (j_pending q = false /\ j_inbox q = Some DNull /\ Qof q = [] /\ E = pre ++ acc /\ j_exhausted q = true))
  | CDone (inl recs) => j_pending q = false /\ Qof q = [] /\ j_exhausted q = true /\ j_first_record q = hd_error E /\
                        E = (if j_has_header q then first1 E else []) ++ recs
  | CDone (inr _) => False
  end.

(* the first stored exception was [e] *)
Definition InvX (e : jerr) (cs : cstate) (q : jcons) : Prop :=
  cs = CDone (inr e) \/
  ((cs = CPreread \/ exists acc, cs = CLoop acc) /\ j_inbox q = Some (DReject e) /\ j_pending q = false) \/
  (j_exc q = Some e /\ j_pending q = false /\
   (cs = CStart \/ ((cs = CPreread \/ exists acc, cs = CLoop acc) /\ exists r, j_inbox q = Some (DRec r)))).

Definition Inv (E : list (list str)) (X : option jerr) (cs : cstate) (q : jcons) : Prop :=
  match X with None => InvN E cs q | Some e => InvX e cs q end.

(* the consumer has not been told "end of input" *)
Definition no_null (cs : cstate) (q : jcons) : Prop :=
  j_inbox q <> Some DNull /\ (forall recs, cs <> CDone (inl recs)).

Definition ghost (a : action) (g : list (list str) * option jerr) : list (list str) * option jerr :=
  match a with
  | AEnqueue r => (fst g ++ [r], snd g)
  | AStore e => (fst g, match snd g with None => Some e | x => x end)
  | _ => g
  end.

Lemma dequeue_spec push pull :
  match pull ++ push with
  | [] => dequeue push pull = (None, [], [])
  | r :: rest => exists push' pull', dequeue push pull = (Some r, push', pull') /\ pull' ++ push' = rest
  end.
Proof.
  unfold dequeue. destruct pull as [|r p']; cbn [app].
  - destruct push as [|r rest]; [reflexivity|]. exists [], rest. split; [reflexivity|apply app_nil_r].
  - exists push, p'. auto.
Qed.

Lemma InvN_nonull_exhausted E cs q : InvN E cs q -> j_exhausted q = false -> no_null cs q.
Proof.
  intros [_ H] Hex. split.
  - intros Hn. destruct cs as [| |acc|[recs|e]]; cbn in H.
    + destruct H as (_ & C & _). congruence.
    + destruct H as (_ & _ & _ & [(_ & C & _)|[(_ & r & C & _)|(_ & _ & _ & _ & C)]]); congruence.
    + destruct H as (_ & _ & _ & [(_ & C & _)|[(_ & r & C & _)|(_ & _ & _ & _ & C)]]); congruence.
    + destruct H as (_ & _ & C & _). congruence.
    + exact H.
  - intros recs ->. cbn in H. destruct H as (_ & _ & C & _). congruence.
Qed.

Ltac q_destruct q := destruct q as [qex qexc qpush qpull qhh qfr qfrse qpre qpend qinbox]; unfold Qof in *; cbn [j_exhausted j_exc j_push j_pull j_has_header j_first_record j_frse j_preread j_pending j_inbox] in *.

Lemma firstn1_snoc {T} (E : list T) r : E <> [] -> first1 (E ++ [r]) = first1 E.
Proof. destruct E; [congruence|reflexivity]. Qed.
Lemma hd_error_snoc {T} (E : list T) r : E <> [] -> hd_error (E ++ [r]) = hd_error E.
Proof. destruct E; [congruence|reflexivity]. Qed.

Lemma act_enqueue_N E cs q r :
  InvN E cs q -> no_null cs q ->
  InvN (E ++ [r]) cs (do_action (AEnqueue r) q) /\ no_null cs (do_action (AEnqueue r) q).
Proof.
  intros [Hexc H] [Hnn Hnd]. q_destruct q. subst qexc.
  unfold do_action, try_resolve_next_record, try_propagate_exception, upd_q, InvN, no_null; cbn.
  destruct cs as [| |acc|[recs|e]]; cbn in H.
  - destruct H as (-> & -> & -> & -> & -> & ->). cbn. rewrite app_assoc. repeat split; try reflexivity; try discriminate.
  - destruct H as (-> & -> & -> & [(-> & -> & HQ & ->)|[(-> & r0 & -> & ->)|(-> & -> & _)]]); [| |congruence].
    + apply app_eq_nil in HQ. destruct HQ as [-> ->]. cbn. rewrite andb_false_r. cbn.
      split; [|split; [discriminate|discriminate]]. split; [reflexivity|]. repeat split; try reflexivity.
      right. left. split; [reflexivity|]. exists r. auto.
    + cbn. split; [|split; [discriminate|discriminate]]. split; [reflexivity|]. repeat split; try reflexivity.
      right. left. split; [reflexivity|]. exists r0. rewrite app_assoc. auto.
  - destruct H as (-> & -> & Hfr & [(-> & -> & HQ & HE & Hne)|[(-> & r0 & -> & HE)|(-> & -> & _)]]); [| |congruence].
    + apply app_eq_nil in HQ. destruct HQ as [-> ->]. cbn.
      split; [|split; [discriminate|discriminate]]. split; [reflexivity|]. split; [reflexivity|]. split; [reflexivity|].
      split; [rewrite hd_error_snoc by exact Hne; exact Hfr|].
      right. left. split; [reflexivity|]. exists r. split; [reflexivity|]. cbn.
      rewrite firstn1_snoc by exact Hne. rewrite HE at 1. rewrite <- app_assoc. reflexivity.
    + assert (Hne : E <> []). { rewrite HE. destruct (if qhh then first1 E else []); [destruct acc|]; discriminate. }
      cbn. split; [|split; [discriminate|discriminate]]. split; [reflexivity|]. split; [reflexivity|]. split; [reflexivity|].
      split; [rewrite hd_error_snoc by exact Hne; exact Hfr|].
      right. left. split; [reflexivity|]. exists r0. split; [reflexivity|].
      rewrite firstn1_snoc by exact Hne. rewrite HE at 1. rewrite <- !app_assoc. cbn. rewrite <- app_assoc. reflexivity.
  - exfalso. apply (Hnd recs). reflexivity.
  - contradiction.
Qed.

Lemma act_store_N E cs q e :
  InvN E cs q -> no_null cs q -> InvX e cs (do_action (AStore e) q) /\ no_null cs (do_action (AStore e) q).
Proof.
  intros [Hexc H] [Hnn Hnd]. q_destruct q. subst qexc.
  unfold do_action, store_or_propagate_exception, try_propagate_exception, upd_q, InvX, no_null; cbn.
  destruct cs as [| |acc|[recs|e0]]; cbn in H.
  - destruct H as (-> & -> & _). cbn. split; [right; right; auto|split; [discriminate|discriminate]].
  - destruct H as (_ & _ & _ & [(-> & -> & _)|[(-> & r0 & -> & _)|(-> & -> & _)]]); [| |congruence]; cbn.
    + split; [right; left; auto|split; [discriminate|discriminate]].
    + split; [right; right; split; [reflexivity|split; [reflexivity|right; split; [auto|exists r0; reflexivity]]]|split; [discriminate|discriminate]].
  - destruct H as (_ & _ & _ & [(-> & -> & _)|[(-> & r0 & -> & _)|(-> & -> & _)]]); [| |congruence]; cbn.
    + split; [right; left; split; [right; exists acc; reflexivity|auto]|split; [discriminate|discriminate]].
    + split; [right; right; split; [reflexivity|split; [reflexivity|right; split; [right; exists acc; reflexivity|exists r0; reflexivity]]]|split; [discriminate|discriminate]].
  - exfalso. apply (Hnd recs). reflexivity.
  - contradiction.
Qed.

(* once an exception is on record, nothing the producer does changes what the consumer will see *)
Lemma act_any_X e cs q a : InvX e cs q -> InvX e cs (do_action a q).
Proof.
  intros H. destruct H as [H|[(Hcs & Hin & Hp)|(Hexc & Hp & Hcs)]].
  - left. exact H.
  - right. left. q_destruct q. subst. split; [exact Hcs|].
    destruct a; unfold do_action, store_or_propagate_exception, try_resolve_next_record, try_propagate_exception, upd_q; cbn.
    + destruct qexc; cbn; auto.
    + destruct qexc; cbn; auto.
    + auto.
    + destruct qexc; cbn; auto.
  - right. right. q_destruct q. subst.
    destruct a; unfold do_action, store_or_propagate_exception, try_resolve_next_record, try_propagate_exception, upd_q; cbn; auto.
Qed.

Lemma act_exhausted_N E cs q :
  InvN E cs q -> InvN E cs (do_action AExhausted q) /\ (no_null cs q -> no_null cs (do_action AExhausted q)).
Proof.
  intros [Hexc H]. q_destruct q. subst qexc. unfold do_action, InvN, no_null; cbn. split; [|auto].
  split; [reflexivity|]. destruct cs as [| |acc|[recs|e0]]; cbn in H |- *.
  - exact H.
  - destruct H as (A & B & C & [D|[D|(D1 & D2 & D3 & D4 & D5)]]); repeat split; auto. right. right. auto.
  - destruct H as (A & B & C & [D|[D|(D1 & D2 & D3 & D4 & D5)]]); repeat split; auto. right. right. auto.
  - destruct H as (A & B & C & D & F). auto.
  - exact H.
Qed.

Lemma act_resolve_N E cs q :
  InvN E cs q -> InvN E cs (do_action AResolve q) /\
  (j_exhausted q = true -> j_pending (do_action AResolve q) = false).
Proof.
  intros [Hexc H]. q_destruct q. subst qexc.
  unfold do_action, try_resolve_next_record, try_propagate_exception, upd_q, InvN; cbn.
  destruct cs as [| |acc|[recs|e0]]; cbn in H.
  - destruct H as (-> & -> & -> & -> & -> & ->). cbn. repeat split; reflexivity.
  - destruct H as (-> & -> & -> & [(-> & -> & HQ & ->)|[(-> & r0 & -> & ->)|(-> & -> & -> & HQ & ->)]]).
    + apply app_eq_nil in HQ. destruct HQ as [-> ->]. cbn. rewrite andb_false_r. cbn.
      destruct qex; cbn.
      * split; [|reflexivity]. split; [reflexivity|]. repeat split; auto. right. right. auto.
      * split; [|discriminate]. split; [reflexivity|]. repeat split; auto; try solve [left; repeat split; auto].
    + cbn. split; [|reflexivity]. split; [reflexivity|]. repeat split; auto. right. left. split; [reflexivity|]. exists r0. auto.
    + cbn. split; [|reflexivity]. split; [reflexivity|]. repeat split; auto. right. right. auto.
  - destruct H as (-> & -> & Hfr & [(-> & -> & HQ & HE & Hne)|[(-> & r0 & -> & HE)|(-> & -> & HQ & HE & ->)]]).
    + apply app_eq_nil in HQ. destruct HQ as [-> ->]. cbn.
      destruct qex; cbn.
      * split; [|reflexivity]. split; [reflexivity|]. repeat split; auto. right. right. auto.
      * split; [|discriminate]. split; [reflexivity|]. repeat split; auto; try solve [left; repeat split; auto].
    + cbn. split; [|reflexivity]. split; [reflexivity|]. repeat split; auto. right. left. split; [reflexivity|]. exists r0. auto.
    + cbn. split; [|reflexivity]. split; [reflexivity|]. repeat split; auto. right. right. auto.
  - destruct H as (-> & HQ & -> & Hfr & HE). cbn. split; [|reflexivity]. split; [reflexivity|]. auto.
  - contradiction.
Qed.

Lemma run_inv_N : forall fuel E cs q,
  InvN E cs q -> InvN E (fst (consumer_run fuel cs q)) (snd (consumer_run fuel cs q)).
Proof.
  induction fuel as [|f IH]; intros E cs q HI; [exact HI|].
  cbn [consumer_run]. destruct cs as [| |acc|res].
  - (* CStart: get_header() -> preread_first_record() -> get_record() *)
    apply IH. destruct HI as [Hexc H]. q_destruct q. subst qexc. cbn in H.
    destruct H as (-> & -> & -> & -> & -> & ->).
    unfold call_get_record, try_resolve_next_record, try_propagate_exception, upd_q, InvN; cbn. rewrite andb_false_r. cbn.
    pose proof (dequeue_spec qpush qpull) as D. destruct (qpull ++ qpush) as [|r rest] eqn:EQ.
    + rewrite D. cbn. destruct qex; cbn; (split; [reflexivity|]); repeat split; auto. right. right. auto.
    + destruct D as (pu & pl & -> & Er). cbn. split; [reflexivity|]. repeat split; auto.
      right. left. split; [reflexivity|]. exists r. rewrite Er. auto.
  - destruct HI as [Hexc H]. q_destruct q. subst qexc. cbn in H.
    destruct H as (-> & -> & -> & [(-> & -> & HQ & ->)|[(-> & r0 & -> & ->)|(-> & -> & -> & HQ & ->)]]).
    + cbn. unfold InvN. cbn. repeat split; auto; try solve [left; repeat split; auto].
    + (* the first record arrives: header_preread_complete = true; get_all_records() -> get_record() *)
      cbn. apply IH. unfold call_get_record, try_resolve_next_record, try_propagate_exception, upd_q, InvN; cbn.
      rewrite andb_true_r. destruct qhh; cbn.
      * pose proof (dequeue_spec qpush qpull) as D. destruct (qpull ++ qpush) as [|r rest] eqn:EQ.
        -- rewrite D. cbn. destruct qex; cbn; (split; [reflexivity|]); repeat split; auto; try solve [left; repeat split; auto; discriminate].
           right. right. auto.
        -- destruct D as (pu & pl & -> & Er). cbn. split; [reflexivity|]. repeat split; auto.
           right. left. split; [reflexivity|]. exists r. rewrite Er. auto.
      * split; [reflexivity|]. repeat split; auto. right. left. split; [reflexivity|]. exists r0. auto.
    + (* end of input before any record *)
      cbn. apply IH. unfold call_get_record, try_resolve_next_record, try_propagate_exception, upd_q, InvN; cbn.
      apply app_eq_nil in HQ. destruct HQ as [-> ->]. rewrite andb_true_r. destruct qhh; cbn.
      * split; [reflexivity|]. repeat split; auto. right. right. auto.
      * split; [reflexivity|]. repeat split; auto. right. right. auto.
  - destruct HI as [Hexc H]. q_destruct q. subst qexc. cbn in H.
    destruct H as (-> & -> & Hfr & [(-> & -> & HQ & HE & Hne)|[(-> & r0 & -> & HE)|(-> & -> & HQ & HE & ->)]]).
    + cbn. unfold InvN. cbn. repeat split; auto; try solve [left; repeat split; auto].
    + cbn. apply IH. unfold call_get_record, try_resolve_next_record, try_propagate_exception, upd_q, InvN; cbn.
      assert (Hne : E <> []). { rewrite HE. destruct (if qhh then first1 E else []); [destruct acc|]; discriminate. }
      pose proof (dequeue_spec qpush qpull) as D. destruct (qpull ++ qpush) as [|r rest] eqn:EQ.
      * rewrite D. cbn. destruct qex; cbn; (split; [reflexivity|]); repeat split; auto.
        -- right. right. repeat split; auto.
        -- left. repeat split; auto.
      * destruct D as (pu & pl & -> & Er). cbn. split; [reflexivity|]. repeat split; auto.
        right. left. split; [reflexivity|]. exists r. split; [reflexivity|]. rewrite Er, <- app_assoc. exact HE.
    + cbn. unfold InvN. cbn. repeat split; auto.
  - exact HI.
Qed.

Lemma run_inv_X : forall fuel e cs q,
  InvX e cs q -> InvX e (fst (consumer_run fuel cs q)) (snd (consumer_run fuel cs q)).
Proof.
  induction fuel as [|f IH]; intros e cs q HI; [exact HI|].
  destruct HI as [H|[(Hcs & Hin & Hp)|(Hexc & Hp & Hcs)]].
  - subst cs. left. reflexivity.
  - q_destruct q. subst. destruct Hcs as [->|[acc ->]]; cbn; left; reflexivity.
  - q_destruct q. subst.
    destruct Hcs as [->|[[->|[acc ->]] [r ->]]]; cbn [consumer_run j_inbox]; apply IH; right; left;
      unfold call_get_record, try_resolve_next_record, try_propagate_exception, upd_q; cbn; eauto.
Qed.

Lemma consumer_run_exhausted : forall fuel cs q, j_exhausted (snd (consumer_run fuel cs q)) = j_exhausted q.
Proof.
  assert (Hc : forall q, j_exhausted (call_get_record q) = j_exhausted q).
  { intros q. unfold call_get_record, try_resolve_next_record, try_propagate_exception, upd_q. q_destruct q. cbn.
    destruct qexc; cbn; [reflexivity|]. destruct (qfrse && qpre); cbn.
    - destruct qfr; cbn; [reflexivity|]. destruct qex; reflexivity.
    - destruct (dequeue qpush qpull) as [[r pu] pl]. destruct r; cbn; [reflexivity|]. destruct qex; reflexivity. }
  induction fuel as [|f IH]; intros cs q; [reflexivity|]. cbn [consumer_run].
  destruct cs as [| |acc|res].
  - rewrite IH. apply Hc.
  - destruct (j_inbox q) as [[r| |e]|]; try reflexivity; rewrite IH, Hc; reflexivity.
  - destruct (j_inbox q) as [[r| |e]|]; try reflexivity. rewrite IH, Hc. reflexivity.
  - reflexivity.
Qed.

(* how many promise continuations are still needed before the consumer is done or has to wait *)
Definition mu (cs : cstate) (q : jcons) : nat :=
  (length (Qof q) + (match j_inbox q with Some (DRec _) => 1 | _ => 0 end) +
   match cs with CStart => 4 | CPreread => 3 | CLoop _ => 1 | CDone _ => 0 end)%nat.

Definition is_done (cs : cstate) : Prop := match cs with CDone _ => True | _ => False end.

Lemma consumer_run_S f cs q :
  consumer_run (S f) cs q = consumer_run f (fst (consumer_run 1 cs q)) (snd (consumer_run 1 cs q)).
Proof.
  cbn [consumer_run]. destruct cs as [| |acc|res]; cbn [fst snd].
  - reflexivity.
  - destruct (j_inbox q) as [[r| |e]|] eqn:Ei; cbn [fst snd]; try reflexivity.
    + destruct f; reflexivity.
    + destruct f; [reflexivity|]. cbn [consumer_run]. rewrite Ei. reflexivity.
  - destruct (j_inbox q) as [[r| |e]|] eqn:Ei; cbn [fst snd]; try reflexivity.
    + destruct f; reflexivity.
    + destruct f; reflexivity.
    + destruct f; [reflexivity|]. cbn [consumer_run]. rewrite Ei. reflexivity.
  - destruct f; reflexivity.
Qed.

(* one continuation, after the end of the input and with nobody waiting: progress *)
Lemma step_progress E cs q :
  InvN E cs q -> j_exhausted q = true -> j_pending q = false -> ~ is_done cs ->
  j_pending (snd (consumer_run 1 cs q)) = false /\
  (mu (fst (consumer_run 1 cs q)) (snd (consumer_run 1 cs q)) < mu cs q)%nat.
Proof.
  intros [Hexc H] Hex Hp Hnd. q_destruct q. subst qexc qex qpend. unfold mu, Qof.
  destruct cs as [| |acc|res]; cbn in H; cbn [consumer_run fst snd j_inbox].
  - destruct H as (_ & -> & -> & -> & -> & ->).
    unfold call_get_record, try_resolve_next_record, try_propagate_exception, upd_q. cbn. rewrite andb_false_r. cbn.
    pose proof (dequeue_spec qpush qpull) as D. destruct (qpull ++ qpush) as [|r rest] eqn:EQ.
    + rewrite D. cbn. split; [reflexivity|lia].
    + destruct D as (pu & pl & -> & Er). cbn. rewrite Er. cbn. split; [reflexivity|lia].
  - destruct H as (-> & -> & -> & [(C & _)|[(_ & r0 & -> & ->)|(_ & -> & -> & HQ & _)]]); [discriminate| |].
    + unfold call_get_record, try_resolve_next_record, try_propagate_exception, upd_q. cbn. rewrite andb_true_r.
      destruct qhh; cbn.
      * pose proof (dequeue_spec qpush qpull) as D. destruct (qpull ++ qpush) as [|r rest] eqn:EQ.
        -- rewrite D. cbn. split; [reflexivity|lia].
        -- destruct D as (pu & pl & -> & Er). cbn. rewrite Er. cbn. split; [reflexivity|lia].
      * split; [reflexivity|lia].
    + apply app_eq_nil in HQ. destruct HQ as [-> ->].
      unfold call_get_record, try_resolve_next_record, try_propagate_exception, upd_q. cbn. rewrite andb_true_r.
      destruct qhh; cbn; (split; [reflexivity|lia]).
  - destruct H as (-> & -> & Hfr & [(C & _)|[(_ & r0 & -> & HE)|(_ & -> & HQ & HE & _)]]); [discriminate| |].
    + unfold call_get_record, try_resolve_next_record, try_propagate_exception, upd_q. cbn.
      pose proof (dequeue_spec qpush qpull) as D. destruct (qpull ++ qpush) as [|r rest] eqn:EQ.
      * rewrite D. cbn. split; [reflexivity|lia].
      * destruct D as (pu & pl & -> & Er). cbn. rewrite Er. cbn. split; [reflexivity|lia].
    + cbn. split; [reflexivity|lia].
  - exfalso. apply Hnd. exact I.
Qed.

(* after the end of the input, with nobody waiting, the consumer runs to completion *)
Lemma run_complete_N : forall fuel E cs q,
  InvN E cs q -> j_exhausted q = true -> j_pending q = false -> (mu cs q <= fuel)%nat ->
  is_done (fst (consumer_run fuel cs q)).
Proof.
  induction fuel as [|f IH]; intros E cs q HI Hex Hp Hmu.
  - destruct cs; unfold mu in Hmu; cbn in Hmu; try lia. exact I.
  - assert (Hdec : is_done cs \/ ~ is_done cs) by (destruct cs; cbn; auto).
    destruct Hdec as [Hd|Hnd].
    + destruct cs; try contradiction. exact I.
    + rewrite consumer_run_S.
      destruct (step_progress E cs q HI Hex Hp Hnd) as [Hp' Hmu'].
      pose proof (run_inv_N 1 E cs q HI) as HI'.
      pose proof (consumer_run_exhausted 1 cs q) as Hex'. rewrite Hex in Hex'.
      remember (fst (consumer_run 1 cs q)) as cs'. remember (snd (consumer_run 1 cs q)) as q'.
      apply (IH E cs' q' HI' Hex' Hp'). lia.
Qed.

Lemma run_complete_X : forall e cs q, InvX e cs q -> forall fuel, (3 <= fuel)%nat -> fst (consumer_run fuel cs q) = CDone (inr e).
Proof.
  assert (Hb : forall e cs q, (cs = CPreread \/ exists acc, cs = CLoop acc) -> j_inbox q = Some (DReject e) ->
               forall f, fst (consumer_run (S f) cs q) = CDone (inr e)).
  { intros e cs q Hcs Hin f. cbn [consumer_run]. destruct Hcs as [->|[acc ->]]; rewrite Hin; reflexivity. }
  assert (Hcall : forall e q, j_exc q = Some e -> j_inbox (call_get_record q) = Some (DReject e)).
  { intros e q Hexc. q_destruct q. subst. reflexivity. }
  intros e cs q HI fuel Hf. destruct fuel as [|[|f]]; try lia.
  destruct HI as [H|[(Hcs & Hin & Hp)|(Hexc & Hp & Hcs)]].
  - subst cs. reflexivity.
  - apply Hb; assumption.
  - rewrite consumer_run_S. destruct Hcs as [->|[Hcs [r Hin]]].
    + change (consumer_run 1 CStart q) with (CPreread, call_get_record q). cbn [fst snd].
      apply Hb; [left; reflexivity|]. apply Hcall. exact Hexc.
    + destruct Hcs as [->|[acc ->]].
      * assert (E1 : exists q1, consumer_run 1 CPreread q = (CLoop [], call_get_record q1) /\ j_exc q1 = Some e).
        { cbn [consumer_run]. rewrite Hin. eexists. split; [reflexivity|]. exact Hexc. }
        destruct E1 as (q1 & -> & Hx). cbn [fst snd]. apply Hb; [right; exists []; reflexivity|]. apply Hcall. exact Hx.
      * assert (E1 : consumer_run 1 (CLoop acc) q = (CLoop (acc ++ [r]), call_get_record q)).
        { cbn [consumer_run]. rewrite Hin. reflexivity. }
        rewrite E1. cbn [fst snd]. apply Hb; [right; eexists; reflexivity|]. apply Hcall. exact Hexc.
Qed.
