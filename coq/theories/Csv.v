(* Csv.v — executable model of the CSV *line dialect*:
     rbql-py/rbql/csv_utils.py  (extract_next_field, split_quoted_str, split_whitespace_separated_str,
                                 smart_split, quote_field, rfc_quote_field)
     rbql-js/csv_utils.js       (the line-for-line port; the two quote_field variants differ textually)
   The delimiter is a [str] (list of code points).  Positions `cidx` of the source are represented
   by the remaining suffix src[cidx:] (`Some rest`) or by `None` when cidx > len(src); the regex
   has no look-behind, and `startswith(dlm, i)` / `find(dlm, i)` only look at the suffix.
   The regex engines are not modelled: the quoted-field pattern is the scanner [qscan] below
   (DESIGN 3.2).  NO proofs in this file. *)
From RBQL Require Import Base.

Inductive policy := Simple | Quoted | QuotedRfc | Whitespace | Monocolumn.

(* ' *' (greedy): the run of spaces at the head, and what follows *)
Fixpoint skip_sp (s : str) : str * str :=
  match s with
  | c :: t => if N.eqb c SP then let '(a, r) := skip_sp t in (c :: a, r) else ([], s)
  | [] => ([], [])
  end.

(* '[^ ]+' (greedy): the run of non-spaces at the head, and what follows *)
Fixpoint take_nsp (s : str) : str * str :=
  match s with
  | c :: t => if N.eqb c SP then ([], s) else let '(a, r) := take_nsp t in (c :: a, r)
  | [] => ([], [])
  end.

(* The part  ( (?: [^Q]* QQ )* [^Q]* ) Q  of field_regular_expression (Q = the double quote), i.e. what follows the opening
   quote: returns (group 1 = raw body with quotes still doubled, text after the closing quote).
   Backtracking order of the engine: at a quote followed by a quote the escaped pair is preferred
   (greedy star); only if no match can be completed further right does the engine come back and
   close at the first quote of that pair.  At a quote followed by anything else (or the end) the
   star cannot iterate and the quote closes.  No quote left: failure. *)
Fixpoint qscan (s : str) : option (str * str) :=
  match s with
  | [] => None
  | c :: t =>
      if N.eqb c QT then
        match t with
        | c2 :: t2 =>
            if N.eqb c2 QT then
              match qscan t2 with
              | Some (b, r) => Some (QT :: QT :: b, r)
              | None => Some ([], t)
              end
            else Some ([], t)
        | [] => Some ([], [])
        end
      else match qscan t with
           | Some (b, r) => Some (c :: b, r)
           | None => None
           end
  end.

(* rgx.match(src, cidx) for rgx = field_rgx (ext = false) or field_rgx_external_whitespaces (ext = true):
   (group 0, group 1, text after the match) *)
Definition qmatch (ext : bool) (s : str) : option (str * str * str) :=
  let '(sp1, s1) := if ext then skip_sp s else ([], s) in
  match s1 with
  | c :: t =>
      if N.eqb c QT then
        match qscan t with
        | Some (raw, r) =>
            let '(sp2, r2) := if ext then skip_sp r else ([], r) in
            Some (sp1 ++ QT :: raw ++ QT :: sp2, raw, r2)
        | None => None
        end
      else None
  | [] => None
  end.

(* s.replace(QQ, Q) for Q = the double quote: leftmost non-overlapping pairs *)
Fixpoint undouble (s : str) : str :=
  match s with
  | a :: ((b :: t) as t1) => if N.eqb a QT && N.eqb b QT then QT :: undouble t else a :: undouble t1
  | _ => s
  end.

(* s.replace(Q, QQ) *)
Definition double (s : str) : str := flat_map (fun c => if N.eqb c QT then [QT; QT] else [c]) s.

(* extract_next_field on the suffix s = src[cidx:], s non-empty in the loop.
   Result: ((taken_as_quoted, field), warning, new position).
   New position: Some r  <->  new cidx <= len(src) with r = src[new cidx:];  None  <->  new cidx > len(src). *)
Definition extract_next_field (dlm : str) (preserve ext : bool) (s : str) : (bool * str) * bool * option str :=
  let fallback (w0 : bool) :=
    match find dlm s with
    | None => ((false, s), w0 || has QT s, None)
    | Some i => let f := firstn i s in ((false, f), w0 || has QT f, Some (skipn (i + length dlm) s))
    end in
  match qmatch ext s with
  | Some (g0, raw, r) =>
      let fld := if preserve then g0 else undouble raw in
      match r with
      | [] => ((true, fld), false, None)                        (* match_end == len(src) *)
      | _ :: _ =>
          match strip_prefix dlm r with
          | Some r' => ((true, fld), false, Some r')            (* src.startswith(dlm, match_end) *)
          | None => fallback true
          end
      end
  | None => fallback false
  end.

(* the while loop of split_quoted_str, followed by the trailing-delimiter check *)
Fixpoint sq_loop (fuel : nat) (dlm : str) (preserve ext : bool) (s : str) : list (bool * str) * bool :=
  match fuel with
  | O => ([], false)                                            (* out of fuel: excluded, see sq_loop_fuel *)
  | S f =>
      match s with
      | [] => ([(false, [])], false)                            (* cidx == len(src): result.append('') *)
      | _ :: _ =>
          let '(fld, w, pos) := extract_next_field dlm preserve ext s in
          match pos with
          | None => ([fld], w)
          | Some r => let '(fs, w') := sq_loop f dlm preserve ext r in (fld :: fs, w || w')
          end
      end
  end.

Definition dlm_is_space (dlm : str) : bool := str_eqb dlm [SP].

(* split_quoted_str with the tag "taken as quoted" on every field *)
Definition split_quoted_tagged (dlm : str) (preserve : bool) (src : str) : list (bool * str) * bool :=
  if negb (has QT src) then (map (fun f => (false, f)) (split dlm src), false)
  else sq_loop (S (length src)) dlm preserve (negb (dlm_is_space dlm)) src.

Definition split_quoted_str (dlm : str) (preserve : bool) (src : str) : list str * bool :=
  let '(fs, w) := split_quoted_tagged dlm preserve src in (map snd fs, w).

(* the general loop without the quote-free shortcut (for C11_fast_path) *)
Definition split_quoted_general (dlm : str) (preserve : bool) (src : str) : list str * bool :=
  let '(fs, w) := sq_loop (S (length src)) dlm preserve (negb (dlm_is_space dlm)) src in (map snd fs, w).

(* re.findall('[^ ]+') : maximal space-free runs *)
Fixpoint ws_split (s : str) : list str :=
  match s with
  | [] => []
  | c :: t =>
      if N.eqb c SP then ws_split t
      else match t with
           | [] => [[c]]
           | d :: _ =>
               if N.eqb d SP then [c] :: ws_split t
               else match ws_split t with
                    | w :: ws => (c :: w) :: ws
                    | [] => [[c]]
                    end
           end
  end.

(* re.finditer(' *[^ ]+ *') *)
Fixpoint ws_tokens (fuel : nat) (s : str) : list str :=
  match fuel with
  | O => []
  | S f =>
      let '(sp1, r1) := skip_sp s in
      let '(w, r2) := take_nsp r1 in
      match w with
      | [] => []
      | _ :: _ => let '(sp2, r3) := skip_sp r2 in (sp1 ++ w ++ sp2) :: ws_tokens f r3
      end
  end.

(* result[i] = result[i][:-1] for all i but the last *)
Fixpoint chop_all_but_last (l : list str) : list str :=
  match l with
  | [] => []
  | [x] => [x]
  | x :: r => removelast x :: chop_all_but_last r
  end.

Definition split_whitespace_separated_str (preserve : bool) (src : str) : list str :=
  if preserve then chop_all_but_last (ws_tokens (S (length src)) src) else ws_split src.

Definition smart_split (pol : policy) (dlm : str) (preserve : bool) (src : str) : list str * bool :=
  match pol with
  | Simple => (split dlm src, false)
  | Whitespace => (split_whitespace_separated_str preserve src, false)
  | Monocolumn => ([src], false)
  | Quoted | QuotedRfc => split_quoted_str dlm preserve src
  end.

(* ---------------------------------------------------------------- quoting *)

Definition wrap (s : str) : str := QT :: s ++ [QT].

(* Python csv_utils.quote_field / rfc_quote_field *)
Definition quote_field_py (dlm f : str) : str :=
  if has QT f then wrap (double f)
  else if contains dlm f then wrap f
  else f.
Definition rfc_quote_field_py (dlm f : str) : str :=
  if has QT f then wrap (double f)
  else if contains dlm f || has LF f || has CR f then wrap f
  else f.

(* JS csv_utils.quote_field / rfc_quote_field *)
Definition quote_field_js (dlm f : str) : str :=
  if contains dlm f || has QT f then wrap (double f) else f.
Definition rfc_quote_field_js (dlm f : str) : str :=
  if contains dlm f || has QT f || has LF f || has CR f then wrap (double f) else f.

Inductive lang := LPy | LJs.   (* which port: rbql-py or rbql-js *)

Definition quote_field (fl : lang) (rfc : bool) (dlm f : str) : str :=
  match fl, rfc with
  | LPy, false => quote_field_py dlm f
  | LPy, true => rfc_quote_field_py dlm f
  | LJs, false => quote_field_js dlm f
  | LJs, true => rfc_quote_field_js dlm f
  end.

(* the line a writer produces from already normalised (string) fields *)
Definition quote_fields (fl : lang) (pol : policy) (dlm : str) (fs : list str) : list str :=
  match pol with
  | Quoted => map (quote_field fl false dlm) fs
  | QuotedRfc => map (quote_field fl true dlm) fs
  | _ => fs
  end.

Definition join_line_fl (fl : lang) (pol : policy) (dlm : str) (fs : list str) : str :=
  match pol with
  | Monocolumn => hd [] fs
  | _ => join dlm (quote_fields fl pol dlm fs)
  end.
Definition join_line := join_line_fl LPy.
