(* EntryHeader.v — entry points of Header.v (codes 550-599) *)
From RBQL Require Import Base Sx Expr Header.

Definition tbl_of_n (n : N) : tbl := if N.eqb n 0 then TA else TB.

Definition hitem_of_sx (x : sx) : option hitem :=
  match x with
  | L [A 0%N; A t; A i] => Some (HField (tbl_of_n t) (N.to_nat i))
  | L [A 1%N; A t; n] => match str_of_sx n with Some s => Some (HAttr (tbl_of_n t) s) | None => None end
  | L [A 2%N; A t; n] => match str_of_sx n with Some s => Some (HDict (tbl_of_n t) s) | None => None end
  | L [A 3%N; n] => match str_of_sx n with Some s => Some (HVar s) | None => None end
  | L [A 4%N] => Some HStar
  | L [A 5%N] => Some HStarA
  | L [A 6%N] => Some HStarB
  | L [A 7%N] => Some HOther
  | L [A 8%N; n] => match str_of_sx n with Some s => Some (HAs s) | None => None end
  | _ => None
  end.

Definition hquery_of_sx (x : sx) : option hquery :=
  match x with
  | L [A 0%N; items; A dc] => match list_of_sx hitem_of_sx items with Some l => Some (HQSelect l (negb (N.eqb dc 0))) | None => None end
  | L [A 1%N; idxs; A dc] => match list_of_sx nat_of_sx idxs with Some l => Some (HQExcept l (negb (N.eqb dc 0))) | None => None end
  | L [A 2%N] => Some HQUpdate
  | _ => None
  end.

Definition sx_of_hres (r : hres) : sx :=
  match r with HNone => L [A 0%N] | HSome h => L [A 1%N; sx_of_list sx_of_str h] | HErr => L [A 2%N] end.

(* 550: output_header  arg = L [opt input header; opt join header; hquery] *)
Definition ep_header (x : sx) : sx :=
  match x with
  | L [ih; jh; q] =>
      match option_of_sx (list_of_sx str_of_sx) ih, option_of_sx (list_of_sx str_of_sx) jh, hquery_of_sx q with
      | Some i, Some j, Some hq => sx_of_hres (output_header i j hq)
      | _, _, _ => ERR
      end
  | _ => ERR
  end.

Definition dispatch_header (code : N) (x : sx) : option sx :=
  match code with
  | 550%N => Some (ep_header x)
  | _ => None
  end.
