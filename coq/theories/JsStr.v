(* JsStr.v — the JavaScript string primitives that harness/translate_csv.py targets for rbql-js/csv_utils.js, beside the
   language-neutral ones of PyStr.v (zlen, py_slice = String.prototype.slice, py_replace, py_split, py_contains, py_getitem /
   py_setitem for array items, while_fuel, the pattern table rx with re_match / re_finditer_g0).
   A JavaScript string is a sequence of UTF-16 code units; here it is a [str] whose elements are those units, and every index
   and length counts units.  NO proofs in this file. *)
From RBQL Require Import Base Csv PyStr.

(* ToIntegerOrInfinity then clamping to [0, len], as substring / indexOf / startsWith do with a position argument *)
Definition js_clamp (n : nat) (i : Z) : nat := Z.to_nat (Z.min (Z.max 0 i) (Z.of_nat n)).

(* s.substring(a[, b]): both ends clamped, swapped when a > b *)
Definition js_substring (s : str) (a : Z) (b : option Z) : str :=
  let n := length s in
  let x := js_clamp n a in
  let y := match b with Some b => js_clamp n b | None => n end in
  firstn (Nat.max x y - Nat.min x y) (skipn (Nat.min x y) s).

(* s.indexOf(p, from) *)
Definition js_indexof (s p : str) (from : Z) : Z :=
  let st := js_clamp (length s) from in
  match find p (skipn st s) with
  | Some i => Z.of_nat (st + i)
  | None => (-1)%Z
  end.

(* s.startsWith(p, pos) *)
Definition js_startswith (s p : str) (pos : Z) : bool := starts_with p (skipn (js_clamp (length s) pos) s).
