(* Warn_Proofs.v — the field-count warning is issued iff two pulled records differ in length, and then cites the
   first record (number 1) and the first record whose length differs from it *)
From RBQL Require Import Base Warn.

Lemma fi_from_keeps_prefix : forall lens nr a b rest,
  exists rest', fields_info_from lens nr (a :: b :: rest) = a :: b :: rest'.
Proof.
  induction lens as [|n t IH]; intros nr a b rest; [exists rest; reflexivity|].
  cbn [fields_info_from]. destruct (fi_mem n (a :: b :: rest)); [apply IH|].
  change ((a :: b :: rest) ++ [(n, S nr)]) with (a :: b :: (rest ++ [(n, S nr)])). apply IH.
Qed.

Lemma fi_from_single : forall lens nr n0 r0,
  match first_diff_from n0 lens nr with
  | None => fields_info_from lens nr [(n0, r0)] = [(n0, r0)]
  | Some (n2, r2) => exists rest, fields_info_from lens nr [(n0, r0)] = (n0, r0) :: (n2, r2) :: rest
  end.
Proof.
  induction lens as [|n t IH]; intros nr n0 r0; [reflexivity|].
  cbn [first_diff_from fields_info_from fi_mem]. rewrite orb_false_r. destruct (Nat.eqb n n0) eqn:E.
  - apply IH.
  - cbn [app]. apply fi_from_keeps_prefix.
Qed.

Theorem field_count_warning_correct lens : field_count_warning lens = field_count_spec lens.
Proof.
  unfold field_count_warning, field_count_spec, fields_info. destruct lens as [|n0 t]; [reflexivity|].
  cbn [fields_info_from fi_mem app]. pose proof (fi_from_single t 1 n0 1) as H.
  destruct (first_diff_from n0 t 1) as [[n2 r2]|].
  - destruct H as [rest ->]. reflexivity.
  - rewrite H. reflexivity.
Qed.

(* iff: a warning exists exactly when some record's length differs from the first record's *)
Lemma first_diff_none n0 : forall lens nr, first_diff_from n0 lens nr = None <-> Forall (fun n => n = n0) lens.
Proof.
  induction lens as [|n t IH]; intros nr; cbn; [split; [constructor | reflexivity]|].
  destruct (Nat.eqb_spec n n0).
  - rewrite IH. split; [intros H; constructor; assumption | intros H; inversion H; assumption].
  - split; [discriminate | intros H; inversion H; contradiction].
Qed.

Theorem field_count_warning_iff lens :
  field_count_warning lens = None <-> (forall n0 t, lens = n0 :: t -> Forall (fun n => n = n0) t).
Proof.
  rewrite field_count_warning_correct. unfold field_count_spec. destruct lens as [|n0 t].
  - split; [intros _ n0 t H; discriminate | reflexivity].
  - split.
    + intros H n1 t1 E. injection E as <- <-. apply (first_diff_none n0 t 1).
      destruct (first_diff_from n0 t 1) as [[a b]|]; [discriminate | reflexivity].
    + intros H. specialize (H n0 t eq_refl). apply (first_diff_none n0 t 1) in H. rewrite H. reflexivity.
Qed.

(* the cited second record is the first one whose length differs; all records before it have the first length *)
Lemma first_diff_some n0 : forall lens nr n2 r2, first_diff_from n0 lens nr = Some (n2, r2) ->
  exists pre post, lens = pre ++ n2 :: post /\ Forall (fun n => n = n0) pre /\ n2 <> n0 /\ r2 = nr + S (length pre).
Proof.
  induction lens as [|n t IH]; intros nr n2 r2 H; [discriminate|]. cbn in H. destruct (Nat.eqb_spec n n0).
  - apply IH in H. destruct H as [pre [post [-> [Hp [Hn ->]]]]]. exists (n :: pre), post.
    split; [reflexivity|]. split; [constructor; assumption|]. split; [assumption | cbn; lia].
  - injection H as <- <-. exists [], t. split; [reflexivity|]. split; [constructor|]. split; [assumption | cbn; lia].
Qed.

Theorem field_count_warning_cites lens n1 r1 n2 r2 :
  field_count_warning lens = Some (n1, r1, n2, r2) ->
  r1 = 1 /\ r1 < r2 /\ n1 <> n2 /\
  exists pre post, lens = n1 :: pre ++ n2 :: post /\ Forall (fun n => n = n1) pre /\ r2 = 2 + length pre.
Proof.
  rewrite field_count_warning_correct. unfold field_count_spec. destruct lens as [|n0 t]; [discriminate|].
  destruct (first_diff_from n0 t 1) as [[a b]|] eqn:E; [|discriminate]. intros H. injection H as <- <- <- <-.
  apply first_diff_some in E. destruct E as [pre [post [-> [Hp [Hn ->]]]]].
  split; [reflexivity|]. split; [lia|]. split; [congruence|]. exists pre, post. repeat split; try assumption. 
Qed.
