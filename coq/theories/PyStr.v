(* PyStr.v — the Python-level primitives that harness/translate_csv.py targets when it regenerates Gallina
   definitions from rbql-py/rbql/csv_utils.py: integers are Z (str.find returns -1, slices take negative bounds),
   strings are [str] = list of code points, positions are INDICES into the source string (as in the code), lists are
   Coq lists with append / item assignment as functional update, a while loop is the fuelled combinator
   [while_fuel] (None = out of fuel), a for loop is [fold_left].
   Everything is defined over the primitives of Base.v.  The regular expressions are NOT translated: a compiled
   pattern is a constructor of [rx] chosen by the translator from a table keyed on the EXACT pattern text, and
   [re_match] / [re_finditer_g0] are the hand-written scanners of Csv.v (DESIGN 3.2) re-indexed by position.
   NO proofs in this file (PyStr_Proofs.v). *)
From RBQL Require Import Base Csv.

Definition zlen {A} (l : list A) : Z := Z.of_nat (length l).

(* a start / end argument of str.find, str.startswith and of a slice: negative counts from the end *)
Definition py_norm (n : nat) (i : Z) : Z := if (i <? 0)%Z then Z.max 0 (i + Z.of_nat n)%Z else i.

(* s.find(p, start) *)
Definition py_find (s p : str) (start : Z) : Z :=
  let st := py_norm (length s) start in
  if (zlen s <? st)%Z then (-1)%Z
  else match find p (skipn (Z.to_nat st) s) with
       | Some i => (st + Z.of_nat i)%Z
       | None => (-1)%Z
       end.

(* p in s  (the translator also writes s.find(p) != -1 this way) *)
Definition py_contains (s p : str) : bool := contains p s.

(* s.startswith(p, start) *)
Definition py_startswith (s p : str) (start : Z) : bool :=
  let st := py_norm (length s) start in
  if (zlen s <? st)%Z then false else starts_with p (skipn (Z.to_nat st) s).

(* l[lo:hi] for strings and lists *)
Definition py_bound (n : nat) (i : Z) : nat := Z.to_nat (Z.min (py_norm n i) (Z.of_nat n)).
Definition py_slice {A} (l : list A) (lo hi : option Z) : list A :=
  let n := length l in
  let a := match lo with Some i => py_bound n i | None => O end in
  let b := match hi with Some i => py_bound n i | None => n end in
  firstn (b - a) (skipn a l).

(* l[i] (d = the value for an index out of range, where Python raises IndexError) and l[i] = v *)
Definition py_pos (n : nat) (i : Z) : Z := if (i <? 0)%Z then (i + Z.of_nat n)%Z else i.
Definition py_getitem {A} (d : A) (l : list A) (i : Z) : A :=
  let j := py_pos (length l) i in if (j <? 0)%Z then d else nth (Z.to_nat j) l d.
Fixpoint set_nth {A} (n : nat) (v : A) (l : list A) : list A :=
  match l, n with
  | [], _ => []
  | _ :: t, O => v :: t
  | x :: t, S k => x :: set_nth k v t
  end.
Definition py_setitem {A} (l : list A) (i : Z) (v : A) : list A :=
  let j := py_pos (length l) i in if (j <? 0)%Z then l else set_nth (Z.to_nat j) v l.

(* range(n) *)
Definition py_range (n : Z) : list Z := map Z.of_nat (seq 0 (Z.to_nat n)).

Definition py_replace (s a b : str) : str := replace a b s.
Definition py_split (s d : str) : list str := split d s.

(* while cond(st): st = body(st)   with explicit fuel; None = out of fuel *)
Fixpoint while_fuel {St} (fuel : nat) (cond : St -> bool) (body : St -> St) (st : St) : option St :=
  match fuel with
  | O => None
  | S f => if cond st then while_fuel f cond body (body st) else Some st
  end.

(* ---------------------------------------------------------------- regular expressions (NOT translated) *)

(* one constructor per pattern text that the translator knows (the exact texts are the keys of RX_TABLE in
   harness/translate_csv.py; they cannot be quoted inside a Coq comment):
     RxField         field_regular_expression of csv_utils.py: a quote, any number of (non-quotes then two quotes),
                     non-quotes, a quote; group 1 = what stands between the outer quotes
     RxFieldExt      the same between two optional runs of spaces
     RxWs            one or more non-space characters
     RxWsPreserve    the same between two optional runs of spaces *)
Inductive rx := RxField | RxFieldExt | RxWs | RxWsPreserve.

(* a match object: span and the groups 0 and 1 *)
Record pymatch := mk_match { m_start : Z; m_end : Z; m_group0 : str; m_group1 : str }.

(* rgx.match(s, pos): anchored at pos (pos is clamped to [0, len(s)]) *)
Definition re_match (r : rx) (s : str) (pos : Z) : option pymatch :=
  let p := Z.to_nat (Z.min (Z.max 0 pos) (zlen s)) in
  let t := skipn p s in
  let mk (g0 g1 : str) := Some (mk_match (Z.of_nat p) (Z.of_nat p + zlen g0)%Z g0 g1) in
  match r with
  | RxField => match qmatch false t with Some (g0, raw, _) => mk g0 raw | None => None end
  | RxFieldExt => match qmatch true t with Some (g0, raw, _) => mk g0 raw | None => None end
  | RxWs => match take_nsp t with ([], _) => None | (w, _) => mk w [] end
  | RxWsPreserve =>
      let '(sp1, r1) := skip_sp t in
      match take_nsp r1 with
      | ([], _) => None
      | (w, r2) => let '(sp2, _) := skip_sp r2 in mk (sp1 ++ w ++ sp2) []
      end
  end.

(* [m.group() for m in rgx.finditer(s)]  =  rgx.findall(s) for a pattern without groups; the translator admits it for
   the two whitespace patterns only (the field patterns yield the empty list here and are refused there) *)
Definition re_finditer_g0 (r : rx) (s : str) : list str :=
  match r with
  | RxWs => ws_split s
  | RxWsPreserve => ws_tokens (S (length s)) s
  | RxField | RxFieldExt => []
  end.
