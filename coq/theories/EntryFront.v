(* EntryFront.v — entry points of the front-end / isolation area (codes 600-699) *)
From RBQL Require Import Base Sx Sqlite.

(* 600: sql_of_query  arg = L [input name; opt join name] -> L [statements] *)
Definition ep_sql (x : sx) : sx :=
  match x with
  | L [i; j] =>
      match str_of_sx i, option_of_sx str_of_sx j with
      | Some input, Some join => sx_of_list sx_of_str (sql_of_query input join)
      | _, _ => ERR
      end
  | _ => ERR
  end.

Definition dispatch_front (code : N) (x : sx) : option sx :=
  match code with
  | 600%N => Some (ep_sql x)
  | _ => None
  end.
