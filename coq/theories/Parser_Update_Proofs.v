(* Parser_Update_Proofs.v — C05, text level: the splitter of UPDATE assignment lists (update_assignments, the model of
   the assignment-looking regex of translate_update_expression) returns exactly the rendered targets and right-hand
   sides of a rendered assignment list. *)
From RBQL Require Import Base Parser Parser_Proofs Parser_Tokens_Proofs Parser_TokensQuery_Proofs.
From Coq Require String.
Import String.StringSyntax.
Local Open Scope N_scope.

(* ------------------------------------------------------------------ rendering *)
(* numbers of blanks: before the target, between target and "=", after "=", after the right-hand side *)
Record spacing := mkSp { s_lead : nat; s_pre : nat; s_post : nat; s_trail : nat }.

Definition after_eq (s : spacing) (r : str) : str := sps (s_post s) ++ r ++ sps (s_trail s).
Definition item_txt (s : spacing) (t r : str) : str := sps (s_lead s) ++ t ++ sps (s_pre s) ++ EQ :: after_eq s r.
(* "," item_i "," item_(i+1) ... ; [sp i] is the spacing of the i-th assignment *)
Fixpoint tail_txt (sp : nat -> spacing) (i : nat) (ps : list (str * str)) : str :=
  match ps with
  | [] => []
  | (t, r) :: ps' => COMMA :: item_txt (sp i) t r ++ tail_txt sp (S i) ps'
  end.
Definition render_asg (sp : nat -> spacing) (ps : list (str * str)) : str :=
  match ps with
  | [] => []
  | (t, r) :: ps' => item_txt (sp 0%nat) t r ++ tail_txt sp 1 ps'
  end.
(* "t = r, t = r" and "t=r,t=r" *)
Definition sp_common : nat -> spacing :=
  fun i => match i with O => mkSp 0 1 1 0 | S _ => mkSp 1 1 1 0 end.
Definition sp_tight : nat -> spacing := fun _ => mkSp 0 0 0 0.

(* ------------------------------------------------------------------ well-formedness (boolean) *)
Definition is_none {A} (o : option A) : bool := match o with None => true | Some _ => false end.
(* "a" followed by characters of the class *)
Definition target_ok (t : str) : bool :=
  match t with c :: v => N.eqb c 97 && forallb upd_class v | [] => false end.
(* no "," of [s] is followed (in s ++ X) by something that looks like an assignment *)
Fixpoint quiet_in (X : str) (s : str) : bool :=
  match s with
  | [] => true
  | c :: t => (if N.eqb c COMMA then is_none (assign_at (t ++ X)) else true) && quiet_in X t
  end.
Definition rhs_quiet (r : str) : bool := quiet_in [COMMA] r.
Definition starts_eq (r : str) : bool := match r with c :: _ => N.eqb c EQ | [] => false end.
(* the look-ahead after "=": only when no blank follows "=" the right-hand side itself must not start with "=" *)
Definition look_ok (s : spacing) (r : str) : bool :=
  match s_post s with O => negb (starts_eq r) | S _ => true end.
Definition pair_ok (fl : lang) (s : spacing) (p : str * str) : bool :=
  let (t, r) := p in target_ok t && edge_ok fl r && rhs_quiet r && look_ok s r.
Fixpoint pairs_ok (fl : lang) (sp : nat -> spacing) (i : nat) (ps : list (str * str)) : bool :=
  match ps with
  | [] => true
  | p :: ps' => pair_ok fl (sp i) p && pairs_ok fl sp (S i) ps'
  end.
(* spacing-aware condition *)
Definition asg_ok_sp (fl : lang) (sp : nat -> spacing) (ps : list (str * str)) : bool :=
  match ps with [] => false | _ :: _ => pairs_ok fl sp 0 ps end.
(* the condition of the task statement: independent of the spacing *)
Definition rhs_ok (fl : lang) (r : str) : bool := edge_ok fl r && negb (starts_eq r) && rhs_quiet r.
Definition asg_ok (fl : lang) (ps : list (str * str)) : bool :=
  match ps with
  | [] => false
  | _ :: _ => forallb (fun p => target_ok (fst p) && rhs_ok fl (snd p)) ps
  end.

(* edge_ok is "non-empty and its own strip" *)
Lemma edge_ok_strip : forall fl r, edge_ok fl r = true -> strip_txt fl r = r /\ r <> [].
Proof.
  intros fl r E. split.
  - pose proof (strip_span fl r 0 0 E) as H. cbn [sps repeat app] in H. rewrite app_nil_r in H. exact H.
  - intro H. subst r. discriminate E.
Qed.

Lemma lstrip_len : forall f s, (length (lstrip_by f s) <= length s)%nat.
Proof.
  intros f s. induction s as [|c s IH]; [apply le_n|]. cbn [lstrip_by]. destruct (f c); [|apply le_n].
  cbn [length]. apply le_S. exact IH.
Qed.

(* conversely: a non-empty text that is its own strip satisfies edge_ok *)
Lemma strip_edge_ok : forall fl r, r <> [] -> strip_txt fl r = r -> edge_ok fl r = true.
Proof.
  intros fl r Hr H. rewrite strip_txt_by in H. destruct r as [|c r']; [exfalso; apply Hr; reflexivity|].
  unfold strip_by, rstrip_by in H. destruct (txt_ws fl c) eqn:Fc.
  - exfalso. cbn [lstrip_by] in H. rewrite Fc in H. apply (f_equal (@length ch)) in H. rewrite rev_length in H.
    pose proof (lstrip_len (txt_ws fl) (rev (lstrip_by (txt_ws fl) r'))) as L1. rewrite rev_length in L1.
    pose proof (lstrip_len (txt_ws fl) r') as L2. cbn [length] in H. rewrite H in L1.
    exact (Nat.nle_succ_diag_l _ (Nat.le_trans _ _ _ L1 L2)).
  - cbn [lstrip_by] in H. rewrite Fc in H. unfold edge_ok. destruct (rev (c :: r')) as [|d R] eqn:RV.
    + apply (f_equal (@length ch)) in RV. rewrite rev_length in RV. discriminate RV.
    + rewrite Fc. cbn [negb andb]. destruct (txt_ws fl d) eqn:Fd; [exfalso | reflexivity].
      cbn [lstrip_by] in H. rewrite Fd in H. apply (f_equal (@length ch)) in H. rewrite rev_length in H.
      pose proof (lstrip_len (txt_ws fl) R) as L. rewrite H in L.
      apply (f_equal (@length ch)) in RV. rewrite rev_length in RV. rewrite RV in L. cbn [length] in L.
      exact (Nat.nle_succ_diag_l _ L).
Qed.

(* the boolean conditions, spelled out *)
Lemma rhs_ok_spec : forall fl r,
  rhs_ok fl r = true <-> (r <> [] /\ strip_txt fl r = r /\ starts_eq r = false /\ rhs_quiet r = true).
Proof.
  intros fl r. unfold rhs_ok. split.
  - intro H. apply andb_true_iff in H. destruct H as [H Hq]. apply andb_true_iff in H. destruct H as [He Hs].
    apply negb_true_iff in Hs. destruct (edge_ok_strip fl r He) as [E1 E2]. repeat split; assumption.
  - intros [H1 [H2 [H3 H4]]]. rewrite (strip_edge_ok fl r H1 H2), H3, H4. reflexivity.
Qed.

Lemma quiet_in_spec : forall X r,
  quiet_in X r = true <-> (forall x suf, r = x ++ COMMA :: suf -> assign_at (suf ++ X) = None).
Proof.
  intros X r. induction r as [|c t IH].
  - split; [|reflexivity]. intros _ x suf E. destruct x; discriminate E.
  - cbn [quiet_in]. rewrite andb_true_iff, IH. split.
    + intros [H1 H2] x suf E. destruct x as [|c' x'].
      * cbn [app] in E. injection E as Ec Et. subst c t. rewrite N.eqb_refl in H1.
        destruct (assign_at (suf ++ X)); [discriminate H1 | reflexivity].
      * cbn [app] in E. injection E as Ec Et. exact (H2 x' suf Et).
    + intros H. split.
      * destruct (N.eqb c COMMA) eqn:Ec; [|reflexivity]. apply N.eqb_eq in Ec. subst c.
        rewrite (H [] t eq_refl). reflexivity.
      * intros x suf E. apply (H (c :: x) suf). rewrite E. reflexivity.
Qed.

(* ------------------------------------------------------------------ scanning helpers *)
Lemma upd_class_SP : upd_class SP = false. Proof. reflexivity. Qed.
Lemma upd_class_EQ : upd_class EQ = false. Proof. reflexivity. Qed.
Lemma upd_class_COMMA : upd_class COMMA = false. Proof. reflexivity. Qed.

Definition head_out (f : ch -> bool) (X : str) : bool := match X with [] => true | c :: _ => negb (f c) end.

Lemma span_by_app : forall f s X, head_out f X = true ->
  span_by f (s ++ X) = (fst (span_by f s), snd (span_by f s) ++ X).
Proof.
  intros f s X HX. induction s as [|c s IH].
  - cbn [app span_by fst snd]. destruct X as [|x X']; [reflexivity|]. cbn [span_by]. cbn [head_out] in HX.
    apply negb_true_iff in HX. rewrite HX. reflexivity.
  - cbn [app span_by]. destruct (f c) eqn:Fc; [|reflexivity]. rewrite IH. destruct (span_by f s) as [a b].
    reflexivity.
Qed.

Lemma span_by_all : forall f v X, forallb f v = true -> head_out f X = true -> span_by f (v ++ X) = (v, X).
Proof.
  intros f v X Hv HX. induction v as [|c v IH].
  - cbn [app]. destruct X as [|x X']; [reflexivity|]. cbn [span_by]. cbn [head_out] in HX.
    apply negb_true_iff in HX. rewrite HX. reflexivity.
  - cbn [forallb] in Hv. apply andb_true_iff in Hv. destruct Hv as [H1 H2]. cbn [app span_by]. rewrite H1.
    rewrite (IH H2). reflexivity.
Qed.

Lemma head_out_sps : forall n c z, upd_class c = false -> head_out upd_class (sps n ++ c :: z) = true.
Proof. intros n c z H. destruct n as [|n]; cbn [sps repeat app head_out]; [rewrite H | rewrite upd_class_SP]; reflexivity. Qed.

(* ------------------------------------------------------------------ assign_at on a rendered item *)
Lemma assign_at_item : forall l t p n z, target_ok t = true -> N.eqb n EQ = false ->
  assign_at (sps l ++ t ++ sps p ++ EQ :: n :: z) = Some (t, n :: z).
Proof.
  intros l t p n z Ht Hn. unfold assign_at. rewrite drop_sp_sps.
  destruct t as [|c v]; [discriminate Ht|]. cbn [target_ok] in Ht. apply andb_true_iff in Ht. destruct Ht as [Hc Hv].
  apply N.eqb_eq in Hc. subst c. cbn [app]. unfold drop_sp at 1. cbn [lstrip_by is_sp N.eqb Pos.eqb].
  change (N.eqb 97 97) with true. cbv iota.
  rewrite (span_by_all upd_class v _ Hv (head_out_sps p EQ _ upd_class_EQ)).
  rewrite drop_sp_sps. unfold drop_sp. cbn [lstrip_by]. change (is_sp EQ) with false. cbv iota.
  rewrite N.eqb_refl. rewrite Hn. reflexivity.
Qed.

(* what follows "=" in a rendered item satisfies the look-ahead *)
Lemma after_eq_look : forall s r W, r <> [] -> look_ok s r = true ->
  exists n z, after_eq s r ++ W = n :: z /\ N.eqb n EQ = false.
Proof.
  intros s r W Hr Hl. unfold after_eq, look_ok in *. destruct (s_post s) as [|q].
  - destruct r as [|c r']; [exfalso; apply Hr; reflexivity|]. cbn [starts_eq] in Hl. apply negb_true_iff in Hl.
    exists c, (r' ++ sps (s_trail s) ++ W). split; [|exact Hl]. cbn [sps repeat app]. rewrite <- app_assoc. reflexivity.
  - exists SP, (sps q ++ (r ++ sps (s_trail s)) ++ W). split; [|reflexivity]. cbn [sps repeat app].
    rewrite <- app_assoc. reflexivity.
Qed.

Lemma assign_at_rendered : forall s t r W, target_ok t = true -> r <> [] -> look_ok s r = true ->
  assign_at (item_txt s t r ++ W) = Some (t, after_eq s r ++ W).
Proof.
  intros s t r W Ht Hr Hl. destruct (after_eq_look s r W Hr Hl) as [n [z [E Hn]]]. unfold item_txt.
  rewrite <- !app_assoc. cbn [app]. rewrite E. apply assign_at_item; assumption.
Qed.

(* ------------------------------------------------------------------ what may follow a right-hand side *)
(* X does not continue a target, and after its blanks comes the end or a comma *)
Definition tail_ok (X : str) : bool :=
  head_out upd_class X && match drop_sp X with [] => true | c :: _ => N.eqb c COMMA end.

Lemma drop_sp_app_cases : forall s X,
  (drop_sp s = [] /\ drop_sp (s ++ X) = drop_sp X) \/ (drop_sp s <> [] /\ drop_sp (s ++ X) = drop_sp s ++ X).
Proof.
  intros s X. unfold drop_sp. destruct (lstrip_all_or_some is_sp s) as [H|H].
  - left. split; [apply lstrip_all; exact H | apply lstrip_app_all; exact H].
  - right. split; [exact H | apply lstrip_app_some; exact H].
Qed.

Lemma assign_at_tail : forall s X, tail_ok X = true ->
  assign_at (s ++ [COMMA]) = None -> assign_at (s ++ X) = None.
Proof.
  intros s X HX H. pose proof HX as HX0. unfold tail_ok in HX0. apply andb_true_iff in HX0. destruct HX0 as [HO HD].
  unfold assign_at in *.
  destruct (drop_sp_app_cases s X) as [[E1 E2]|[E1 E2]]; rewrite E2.
  - destruct (drop_sp X) as [|c r]; [reflexivity|]. apply N.eqb_eq in HD. subst c. reflexivity.
  - destruct (drop_sp_app_cases s [COMMA]) as [[F1 F2]|[F1 F2]]; [contradiction|]. rewrite F2 in H. clear E2 F2 F1.
    destruct (drop_sp s) as [|c r]; [contradiction|]. cbn [app] in *. destruct (N.eqb c 97); [|reflexivity].
    rewrite (span_by_app upd_class r X HO). rewrite (span_by_app upd_class r [COMMA] eq_refl) in H.
    destruct (span_by upd_class r) as [v r2]. cbn [fst snd] in *.
    destruct (drop_sp_app_cases r2 X) as [[G1 G2]|[G1 G2]]; rewrite G2.
    + destruct (drop_sp X) as [|e r3]; [reflexivity|]. apply N.eqb_eq in HD. subst e. reflexivity.
    + destruct (drop_sp_app_cases r2 [COMMA]) as [[K1 K2]|[K1 K2]]; [contradiction|]. rewrite K2 in H.
      destruct (drop_sp r2) as [|e r3]; [contradiction|]. cbn [app] in *. destruct (N.eqb e EQ); [|reflexivity].
      destruct r3 as [|n r4]; [discriminate H|]. cbn [app] in *. destruct (N.eqb n EQ); [reflexivity | discriminate H].
Qed.

Lemma tail_ok_end : forall n, tail_ok (sps n) = true.
Proof.
  intros n. unfold tail_ok. apply andb_true_iff. split.
  - destruct n; reflexivity.
  - rewrite <- (app_nil_r (sps n)). rewrite drop_sp_sps. reflexivity.
Qed.
Lemma tail_ok_comma : forall n k, tail_ok (sps n ++ COMMA :: k) = true.
Proof.
  intros n k. unfold tail_ok. apply andb_true_iff. split.
  - apply head_out_sps. reflexivity.
  - rewrite drop_sp_sps. reflexivity.
Qed.

(* the lemma asked for: quietness checked against a single following comma covers both real continuations *)
Lemma assign_at_comma_ext : forall suf, assign_at (suf ++ [COMMA]) = None ->
  (forall k, assign_at (suf ++ COMMA :: k) = None) /\ assign_at suf = None.
Proof.
  intros suf H. split.
  - intros k. exact (assign_at_tail suf (COMMA :: k) (tail_ok_comma 0 k) H).
  - rewrite <- (app_nil_r suf). exact (assign_at_tail suf [] (tail_ok_end 0) H).
Qed.

(* ------------------------------------------------------------------ quietness *)
Lemma quiet_in_tail : forall X s, tail_ok X = true -> quiet_in [COMMA] s = true -> quiet_in X s = true.
Proof.
  intros X s HX. induction s as [|c t IH]; intro H; [reflexivity|]. cbn [quiet_in] in *.
  apply andb_true_iff in H. destruct H as [H1 H2]. apply andb_true_iff. split; [|exact (IH H2)].
  destruct (N.eqb c COMMA); [|reflexivity]. destruct (assign_at (t ++ [COMMA])) eqn:E; [discriminate H1|].
  rewrite (assign_at_tail t X HX E). reflexivity.
Qed.

Lemma quiet_in_app : forall X a b, quiet_in X (a ++ b) = quiet_in (b ++ X) a && quiet_in X b.
Proof.
  intros X a b. induction a as [|c a IH]; [reflexivity|]. cbn [app quiet_in]. rewrite IH. rewrite <- app_assoc.
  rewrite andb_assoc. reflexivity.
Qed.

Lemma quiet_in_sps : forall X n, quiet_in X (sps n) = true.
Proof. intros X n. induction n as [|n IH]; [reflexivity|]. cbn [sps repeat quiet_in]. exact IH. Qed.

(* the text between "=" and the next assignment (or the end) is quiet against what follows it *)
Lemma quiet_after_eq : forall s r X, tail_ok (sps (s_trail s) ++ X) = true -> rhs_quiet r = true ->
  quiet_in X (after_eq s r) = true.
Proof.
  intros s r X HX Hr. unfold after_eq. rewrite quiet_in_app, quiet_in_sps. rewrite quiet_in_app, quiet_in_sps.
  rewrite andb_true_r. cbn [andb]. apply quiet_in_tail; assumption.
Qed.

(* ------------------------------------------------------------------ next_assign *)
Lemma next_assign_none : forall s, quiet_in [] s = true -> next_assign s = None.
Proof.
  induction s as [|c t IH]; intro H; [reflexivity|]. cbn [quiet_in] in H. apply andb_true_iff in H.
  destruct H as [H1 H2]. cbn [next_assign]. rewrite (IH H2). rewrite app_nil_r in H1.
  destruct (N.eqb c COMMA); [|reflexivity]. destruct (assign_at t); [discriminate H1 | reflexivity].
Qed.

Lemma next_assign_some : forall pre Y v r, quiet_in (COMMA :: Y) pre = true -> assign_at Y = Some (v, r) ->
  next_assign (pre ++ COMMA :: Y) = Some (pre, v, r).
Proof.
  induction pre as [|c t IH]; intros Y v r H HY.
  - cbn [app next_assign]. rewrite N.eqb_refl. rewrite HY. reflexivity.
  - cbn [quiet_in] in H. apply andb_true_iff in H. destruct H as [H1 H2]. cbn [app next_assign].
    rewrite (IH Y v r H2 HY).
    destruct (N.eqb c COMMA); [|reflexivity]. destruct (assign_at (t ++ COMMA :: Y)); [discriminate H1 | reflexivity].
Qed.

Lemma tail_txt_length : forall sp ps i, (length ps <= length (tail_txt sp i ps))%nat.
Proof.
  intros sp ps. induction ps as [|[t r] ps IH]; intro i; [apply le_n|]. cbn [tail_txt length]. rewrite app_length.
  apply le_n_S. apply (Nat.le_trans _ _ _ (IH (S i))). apply Nat.le_add_l.
Qed.

(* ------------------------------------------------------------------ the loop *)
Lemma update_rest_rendered : forall fl sp ps i s t r fuel,
  edge_ok fl r = true -> rhs_quiet r = true -> pairs_ok fl sp i ps = true -> (length ps <= fuel)%nat ->
  update_rest fuel fl t (after_eq s r ++ tail_txt sp i ps) = (t, r) :: ps.
Proof.
  intros fl sp ps. induction ps as [|[t' r'] ps IH]; intros i s t r fuel He Hq Hps Hf.
  - cbn [tail_txt]. rewrite app_nil_r.
    assert (ES : strip_txt fl (after_eq s r) = r) by (unfold after_eq; apply strip_span; exact He).
    destruct fuel as [|f]; cbn [update_rest]; [rewrite ES; reflexivity|].
    rewrite next_assign_none; [rewrite ES; reflexivity|]. apply quiet_after_eq; [|exact Hq].
    rewrite app_nil_r. apply tail_ok_end.
  - destruct fuel as [|f]; [inversion Hf|]. cbn [length] in Hf. apply le_S_n in Hf.
    cbn [pairs_ok pair_ok] in Hps. apply andb_true_iff in Hps. destruct Hps as [Hp Hps].
    apply andb_true_iff in Hp. destruct Hp as [Hp Hl']. apply andb_true_iff in Hp. destruct Hp as [Hp Hq'].
    apply andb_true_iff in Hp. destruct Hp as [Ht' He'].
    cbn [tail_txt update_rest].
    rewrite (next_assign_some (after_eq s r) _ t' (after_eq (sp i) r' ++ tail_txt sp (S i) ps)).
    + unfold after_eq at 1. rewrite (strip_span fl r _ _ He). f_equal. apply IH; assumption.
    + apply quiet_after_eq; [|exact Hq]. apply tail_ok_comma.
    + apply assign_at_rendered; [exact Ht' | exact (proj2 (edge_ok_strip fl r' He')) | exact Hl'].
Qed.

(* ------------------------------------------------------------------ main theorems *)
Theorem update_split_sp : forall fl sp ps,
  asg_ok_sp fl sp ps = true -> update_assignments fl (render_asg sp ps) = Ok ps.
Proof.
  intros fl sp ps H. destruct ps as [|[t r] ps]; [discriminate H|]. cbn [asg_ok_sp pairs_ok pair_ok] in H.
  apply andb_true_iff in H. destruct H as [Hp Hps].
  apply andb_true_iff in Hp. destruct Hp as [Hp Hl]. apply andb_true_iff in Hp. destruct Hp as [Hp Hq].
  apply andb_true_iff in Hp. destruct Hp as [Ht He].
  unfold update_assignments, render_asg.
  rewrite (assign_at_rendered (sp 0%nat) t r (tail_txt sp 1 ps) Ht (proj2 (edge_ok_strip fl r He)) Hl).
  f_equal. apply update_rest_rendered; try assumption.
  rewrite app_length. apply (Nat.le_trans _ _ _ (tail_txt_length sp ps 1)). apply Nat.le_add_l.
Qed.

Lemma asg_ok_pairs : forall fl sp ps i,
  forallb (fun p => target_ok (fst p) && rhs_ok fl (snd p)) ps = true -> pairs_ok fl sp i ps = true.
Proof.
  intros fl sp ps. induction ps as [|[t r] ps IH]; intros i H; [reflexivity|]. cbn [forallb fst snd] in H.
  apply andb_true_iff in H. destruct H as [H1 H2]. cbn [pairs_ok pair_ok]. rewrite (IH (S i) H2), andb_true_r.
  apply andb_true_iff in H1. destruct H1 as [Ht Hr]. unfold rhs_ok in Hr.
  apply andb_true_iff in Hr. destruct Hr as [Hr Hq]. apply andb_true_iff in Hr. destruct Hr as [He Hs].
  rewrite Ht, He, Hq. cbn [andb]. unfold look_ok. rewrite Hs. destruct (s_post (sp i)); reflexivity.
Qed.

Theorem update_split : forall fl sp ps,
  asg_ok fl ps = true -> update_assignments fl (render_asg sp ps) = Ok ps.
Proof.
  intros fl sp ps H. apply update_split_sp. destruct ps as [|p ps]; [discriminate H|].
  unfold asg_ok in H. unfold asg_ok_sp. apply asg_ok_pairs. exact H.
Qed.
Print Assumptions update_split.

(* ------------------------------------------------------------------ examples *)
Definition swap_pairs : list (str * str) := [($"a1", $"a2"); ($"a2", $"a1")].
(* the swap, by the theorem *)
Example update_split_swap : forall fl,
  update_assignments fl $"a1 = a2, a2 = a1" = Ok swap_pairs
  /\ update_assignments fl $"a1=a2,a2=a1" = Ok swap_pairs
  /\ update_assignments fl $"  a1  =  a2  ,  a2  =  a1  " = Ok swap_pairs.
Proof.
  intros fl. assert (H : asg_ok fl swap_pairs = true) by (destruct fl; reflexivity).
  split; [|split].
  - change $"a1 = a2, a2 = a1" with (render_asg sp_common swap_pairs). exact (update_split fl _ _ H).
  - change $"a1=a2,a2=a1" with (render_asg sp_tight swap_pairs). exact (update_split fl _ _ H).
  - change $"  a1  =  a2  ,  a2  =  a1  " with (render_asg (fun _ => mkSp 2 2 2 2) swap_pairs).
    exact (update_split fl _ _ H).
Qed.

(* each hypothesis is needed *)
(* quietness: a right-hand side containing ", a3 = 1" is cut there *)
Example need_quiet : forall fl,
  let ps := [($"a1", $"f(a2, a3 = 1)")] in
  rhs_quiet $"f(a2, a3 = 1)" = false
  /\ update_assignments fl (render_asg sp_common ps) = Ok [($"a1", $"f(a2"); ($"a3", $"1)")].
Proof. intros fl. destruct fl; vm_compute; split; reflexivity. Qed.

(* look-ahead: "a1 == a2" is not an assignment; with a blank after the first "=" it is one (look_ok is exact) *)
Example need_look : forall fl,
  let ps := [($"a1", $"= a2")] in
  look_ok (mkSp 0 1 0 0) $"= a2" = false
  /\ render_asg (fun _ => mkSp 0 1 0 0) ps = $"a1 == a2"
  /\ update_assignments fl $"a1 == a2" = Err E_update_first_assignment
  /\ asg_ok_sp fl sp_common ps = true
  /\ update_assignments fl $"a1 = = a2" = Ok ps.
Proof. intros fl. destruct fl; vm_compute; repeat split; reflexivity. Qed.

(* non-empty right-hand side: "a1=" has nothing for the look-ahead *)
Example need_nonempty_rhs : forall fl,
  update_assignments fl (render_asg sp_tight [($"a1", [])]) = Err E_update_first_assignment.
Proof. intros fl. destruct fl; vm_compute; reflexivity. Qed.

(* the right-hand side must be its own strip: the splitter returns the stripped text *)
Example need_stripped : forall fl,
  update_assignments fl (render_asg sp_tight [($"a1", $" a2 ")]) = Ok [($"a1", $"a2")].
Proof. intros fl. destruct fl; vm_compute; reflexivity. Qed.
(* ... of the flavour: a TAB is stripped by Python only *)
Example need_stripped_flavour :
  update_assignments LPy (render_asg sp_tight [($"a1", [9; 120])]) = Ok [($"a1", $"x")]
  /\ update_assignments LJs (render_asg sp_tight [($"a1", [9; 120])]) = Ok [($"a1", [9; 120])].
Proof. vm_compute; split; reflexivity. Qed.

(* targets: "a" followed by class characters; a non-empty list *)
Example need_target : forall fl,
  update_assignments fl (render_asg sp_common [($"b1", $"2")]) = Err E_update_first_assignment
  /\ update_assignments fl (render_asg sp_common [($"a1+", $"2")]) = Err E_update_first_assignment
  /\ update_assignments fl (render_asg sp_common [($"a1", $"2"); ($"b2", $"3")]) = Ok [($"a1", $"2, b2 = 3")]
  /\ update_assignments fl (render_asg sp_common []) = Err E_update_first_assignment.
Proof. intros fl. destruct fl; vm_compute; repeat split; reflexivity. Qed.

(* the condition is sufficient, not necessary: a last right-hand side ending in ",a2 =" is not cut (nothing follows the
   "=" for the look-ahead) but is not quiet against a following comma *)
Example quiet_not_necessary : forall fl,
  rhs_quiet $"x,a2 =" = false
  /\ update_assignments fl (render_asg sp_common [($"a1", $"x,a2 =")]) = Ok [($"a1", $"x,a2 =")].
Proof. intros fl. destruct fl; vm_compute; split; reflexivity. Qed.
