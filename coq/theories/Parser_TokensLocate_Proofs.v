(* Parser_TokensLocate_Proofs.v — C08_token_spelling, part 2: from the finditer results of every statement to
   locate_statements.  Abstract over the text: [t] is the list of statements that were rendered, in text order; if the
   finditer loop of every statement that the code searches finds exactly the entries of [t] carrying that statement,
   locate_statements returns [t]. *)
From RBQL Require Import Base Parser.
From Coq Require Import Sorted.

Notation loc := (nat * nat * stmt)%type.
Definition lstart (x : loc) : nat := fst (fst x).
Definition lst (x : loc) : stmt := snd x.

(* the index of the statement group *)
Definition gid (s : stmt) : nat :=
  match s with
  | STRICT_LEFT_JOIN | LEFT_OUTER_JOIN | LEFT_JOIN | INNER_JOIN | JOIN => 0
  | SELECT => 1 | ORDER_BY => 2 | WHERE => 3 | UPDATE => 4 | GROUP_BY => 5 | LIMIT => 6 | EXCEPT => 7 | FROM => 8
  end.
Definition stmt_eqb (a b : stmt) : bool := Nat.eqb (stmt_id a) (stmt_id b).
Lemma stmt_eqb_spec : forall a b, stmt_eqb a b = true <-> a = b.
Proof. intros a b. split; [destruct a, b; intro H; try reflexivity; discriminate H | intros ->; destruct b; reflexivity]. Qed.

Definition lt_loc (x y : loc) : Prop := lstart x < lstart y.

(* ------------------------------------------------------------------ insertion into a filtered sorted list *)
Lemma insert_above : forall x l, Forall (lt_loc x) l -> insert_loc x l = x :: l.
Proof.
  intros x l H. destruct l as [|y l]; [reflexivity|]. cbn [insert_loc]. inversion H as [|? ? Hy _]; subst.
  unfold lt_loc, lstart in Hy. rewrite (proj2 (Nat.leb_gt _ _) Hy). reflexivity.
Qed.

Lemma Forall_filter : forall {A} (P : A -> Prop) f l, Forall P l -> Forall P (filter f l).
Proof. intros A P f l H. induction H as [|y l Hy Hl IH]; [constructor|]. cbn [filter]. destruct (f y); [constructor|]; assumption. Qed.

Lemma filter_ext_in' : forall {A} (f g : A -> bool) l, (forall y, In y l -> f y = g y) -> filter f l = filter g l.
Proof.
  intros A f g l. induction l as [|y l IH]; intro H; [reflexivity|]. cbn [filter]. rewrite (H y (or_introl eq_refl)).
  rewrite IH; [reflexivity|]. intros z Hz. apply H. right. exact Hz.
Qed.

Lemma insert_filter : forall (p q : loc -> bool) x t, StronglySorted lt_loc t -> In x t ->
  p x = false -> q x = true -> (forall y, In y t -> q y = true -> y = x) ->
  insert_loc x (filter p t) = filter (fun y => q y || p y) t.
Proof.
  intros p q x t S. induction S as [|y t St IH Hy]; intros I Px Qx U; [contradiction|].
  destruct I as [->|I].
  - cbn [filter]. rewrite Px, Qx. cbn [orb].
    rewrite (insert_above x (filter p t) (Forall_filter _ _ _ Hy)). f_equal.
    apply filter_ext_in'. intros z Hz. destruct (q z) eqn:Qz; [|reflexivity].
    exfalso. pose proof (U z (or_intror Hz) Qz) as E. subst z. rewrite Forall_forall in Hy. pose proof (Hy x Hz) as L.
    unfold lt_loc in L. lia.
  - assert (L : lt_loc y x) by (rewrite Forall_forall in Hy; exact (Hy x I)).
    assert (Qy : q y = false).
    { destruct (q y) eqn:Qy; [|reflexivity]. exfalso. pose proof (U y (or_introl eq_refl) Qy) as E. subst y. unfold lt_loc in L. lia. }
    cbn [filter]. rewrite Qy. cbn [orb].
    assert (R : insert_loc x (filter p t) = filter (fun y0 => q y0 || p y0) t).
    { apply IH; try assumption. intros z Hz. apply U. right. exact Hz. }
    destruct (p y); [|exact R]. cbn [insert_loc]. unfold lt_loc, lstart in L.
    rewrite (proj2 (Nat.leb_le _ _)) by lia. rewrite R. reflexivity.
Qed.

(* ------------------------------------------------------------------ at most one entry per key *)
Lemma filter_none : forall {A} (f : A -> bool) l, (forall y, In y l -> f y = false) -> filter f l = [].
Proof.
  intros A f l. induction l as [|y l IH]; intro H; [reflexivity|]. cbn [filter]. rewrite (H y (or_introl eq_refl)).
  apply IH. intros z Hz. apply H. right. exact Hz.
Qed.

Lemma filter_unique : forall {A} (k : A -> nat) i l, NoDup (map k l) ->
  filter (fun x => Nat.eqb (k x) i) l = match List.find (fun x => Nat.eqb (k x) i) l with Some x => [x] | None => [] end.
Proof.
  intros A k i l. induction l as [|y l IH]; intro N; [reflexivity|]. cbn [map] in N. inversion N as [|? ? Ny Nl]; subst.
  cbn [filter List.find]. destruct (Nat.eqb (k y) i) eqn:E; [|apply IH; exact Nl]. f_equal.
  apply filter_none. intros z Hz. apply Nat.eqb_neq. intro E2. apply Nat.eqb_eq in E. apply Ny.
  rewrite E, <- E2. apply in_map. exact Hz.
Qed.

Lemma find_unique : forall {A} (k : A -> nat) i l x y, NoDup (map k l) ->
  List.find (fun x => Nat.eqb (k x) i) l = Some x -> In y l -> k y = i -> y = x.
Proof.
  intros A k i l x y N F I K. pose proof (filter_unique k i l N) as E. rewrite F in E.
  assert (Iy : In y (filter (fun x => Nat.eqb (k x) i) l)) by (apply filter_In; split; [exact I | apply Nat.eqb_eq; exact K]).
  rewrite E in Iy. destruct Iy as [<-|[]]. reflexivity.
Qed.

Definition opt_list {A} (o : option A) : list A := match o with Some x => [x] | None => [] end.

Section Locate.
  Variable fl : lang.
  Variable s : str.
  Variable t : list loc.
  Hypothesis ST : StronglySorted lt_loc t.
  Hypothesis HU : NoDup (map (fun x => gid (lst x)) t).

  Definition pick (i : nat) : option loc := List.find (fun x => Nat.eqb (gid (lst x)) i) t.

  (* sorting the picks of distinct groups gives back the entries of t in these groups, in text order *)
  Lemma sort_picks : forall il, NoDup il ->
    fold_right insert_loc [] (flat_map (fun i => opt_list (pick i)) il)
    = filter (fun x => existsb (Nat.eqb (gid (lst x))) il) t.
  Proof.
    induction il as [|i il IH]; intro N.
    - cbn [flat_map fold_right existsb]. symmetry. apply filter_none. reflexivity.
    - inversion N as [|? ? Ni Nl]; subst. cbn [flat_map]. rewrite fold_right_app. rewrite (IH Nl). cbn [existsb].
      unfold pick at 1. destruct (List.find (fun x => Nat.eqb (gid (lst x)) i) t) as [x|] eqn:F; cbn [opt_list fold_right].
      + destruct (find_some _ _ F) as [Ix Gx].
        apply (insert_filter (fun y => existsb (Nat.eqb (gid (lst y))) il) (fun y => Nat.eqb (gid (lst y)) i) x t ST Ix).
        * destruct (existsb (Nat.eqb (gid (lst x))) il) eqn:E; [|reflexivity]. exfalso. apply existsb_exists in E.
          destruct E as [j [Ij Ej]]. apply Nat.eqb_eq in Ej. apply Nat.eqb_eq in Gx. apply Ni. rewrite <- Gx, Ej. exact Ij.
        * exact Gx.
        * intros y Iy Gy. apply Nat.eqb_eq in Gy. exact (find_unique (fun x => gid (lst x)) i t x y HU F Iy Gy).
      + apply filter_ext_in'. intros y Iy. rewrite (find_none _ _ F y Iy). reflexivity.
  Qed.
End Locate.

(* ------------------------------------------------------------------ locate_group from the finditer results *)
Definition hit_of (x : loc) : nat * nat * unit := (fst (fst x), snd (fst x), tt).
Definition hits (st' : stmt) (t : list loc) : list (nat * nat * unit) :=
  map hit_of (filter (fun x => stmt_eqb (lst x) st') t).
(* the code searches st' only when no earlier spelling of the same group was found: for the JOIN group, the
   statements up to the one that is present *)
Definition searched (st' : stmt) (t : list loc) : Prop :=
  forall y, In y t -> is_join st' = true -> is_join (lst y) = true -> stmt_id st' <= stmt_id (lst y).

Lemma gid_nonjoin : forall a b, is_join b = false -> (Nat.eqb (gid a) (gid b) = stmt_eqb a b).
Proof. intros a b H. destruct b; try discriminate H; destruct a; reflexivity. Qed.
Lemma gid_join : forall a, Nat.eqb (gid a) 0 = is_join a.
Proof. destruct a; reflexivity. Qed.

Section LocateGroup.
  Variable fl : lang.
  Variable s : str.
  Variable t : list loc.
  Hypothesis HU : NoDup (map (fun x => gid (lst x)) t).
  Variable PS : stmt -> Prop.
  Hypothesis HF : forall st', PS st' -> searched st' t -> find_all (kw_match fl (stmt_words st')) s = hits st' t.

  Lemma locate_single : forall st', PS st' -> is_join st' = false -> locate_group fl [st'] s = Ok (pick t (gid st')).
  Proof.
    intros st' PS0 NJ. cbn [locate_group]. rewrite HF by (try exact PS0; intros y _ J; rewrite NJ in J; discriminate J).
    unfold hits. rewrite (filter_ext_in' _ (fun x => Nat.eqb (gid (lst x)) (gid st')) t)
      by (intros y _; symmetry; apply gid_nonjoin; exact NJ).
    rewrite (filter_unique (fun x => gid (lst x)) (gid st') t HU). unfold pick.
    destruct (List.find (fun x => Nat.eqb (gid (lst x)) (gid st')) t) as [[[a b] stx]|] eqn:F; [|reflexivity].
    destruct (find_some _ _ F) as [_ G]. cbn [lst snd] in G. rewrite (gid_nonjoin stx st' NJ) in G.
    apply stmt_eqb_spec in G. subst stx. reflexivity.
  Qed.

  Lemma hits_join : forall st', is_join st' = true ->
    hits st' t = match pick t 0 with Some x => if stmt_eqb (lst x) st' then [hit_of x] else [] | None => [] end.
  Proof.
    intros st' J. unfold hits.
    assert (E : filter (fun x => stmt_eqb (lst x) st') t
                = filter (fun x => stmt_eqb (lst x) st') (filter (fun x => Nat.eqb (gid (lst x)) 0) t)).
    { clear -J. induction t as [|y l IH]; [reflexivity|]. cbn [filter]. destruct (stmt_eqb (lst y) st') eqn:E1.
      - apply stmt_eqb_spec in E1. rewrite gid_join, E1, J. cbn [filter]. rewrite E1.
        replace (stmt_eqb st' st') with true by (symmetry; apply stmt_eqb_spec; reflexivity). f_equal. exact IH.
      - destruct (Nat.eqb (gid (lst y)) 0); [cbn [filter]; rewrite E1|]; exact IH. }
    rewrite E. rewrite (filter_unique (fun x => gid (lst x)) 0 t HU). unfold pick.
    destruct (List.find (fun x => Nat.eqb (gid (lst x)) 0) t) as [x|]; [|reflexivity]. cbn [filter].
    destruct (stmt_eqb (lst x) st'); reflexivity.
  Qed.

  Lemma searched_upto : forall st', match pick t 0 with Some x => stmt_id st' <= stmt_id (lst x) | None => True end ->
    searched st' t.
  Proof.
    intros st' H y Iy _ Jy. unfold pick in H.
    destruct (List.find (fun x => Nat.eqb (gid (lst x)) 0) t) as [x|] eqn:F.
    - rewrite <- gid_join in Jy. apply Nat.eqb_eq in Jy.
      rewrite (find_unique (fun x => gid (lst x)) 0 t x y HU F Iy Jy). exact H.
    - pose proof (find_none _ _ F y Iy) as N. cbn beta in N. rewrite gid_join in N. rewrite N in Jy. discriminate Jy.
  Qed.

  Hypothesis PJ : forall st', is_join st' = true -> PS st'.
  Lemma locate_joins :
    locate_group fl [STRICT_LEFT_JOIN; LEFT_OUTER_JOIN; LEFT_JOIN; INNER_JOIN; JOIN] s = Ok (pick t 0).
  Proof.
    pose proof searched_upto as SU. pose proof hits_join as HJ.
    destruct (pick t 0) as [[[a b] stx]|] eqn:P.
    - assert (J : is_join stx = true).
      { unfold pick in P. destruct (find_some _ _ P) as [_ G]. cbn [lst snd] in G. rewrite gid_join in G. exact G. }
      cbn [lst snd] in SU, HJ.
      destruct stx; try discriminate J; cbn [locate_group];
        repeat (rewrite HF by (first [apply PJ; reflexivity | apply SU; cbn [stmt_id]; lia]); rewrite HJ by reflexivity; cbn [stmt_eqb stmt_id Nat.eqb hit_of fst snd map]);
        reflexivity.
    - cbn [locate_group]. repeat (rewrite HF by (first [apply PJ; reflexivity | apply SU; exact I]); rewrite HJ by reflexivity). reflexivity.
  Qed.
End LocateGroup.

Lemma locate_groups_picks : forall fl s t gs il,
  Forall2 (fun g i => locate_group fl g s = Ok (pick t i)) gs il ->
  locate_groups fl gs s = Ok (flat_map (fun i => opt_list (pick t i)) il).
Proof.
  intros fl s t gs il H. induction H as [|g i gs il Hg _ IH]; [reflexivity|].
  cbn [locate_groups flat_map]. rewrite Hg, IH. destruct (pick t i); reflexivity.
Qed.

Lemma filter_all : forall {A} (f : A -> bool) l, (forall y, In y l -> f y = true) -> filter f l = l.
Proof.
  intros A f l. induction l as [|y l IH]; intro H; [reflexivity|]. cbn [filter]. rewrite (H y (or_introl eq_refl)).
  f_equal. apply IH. intros z Hz. apply H. right. exact Hz.
Qed.

(* the statements rendered in the text, in text order, are what locate_statements returns *)
Theorem locate_of_hits : forall fl with_from s (t : list loc),
  StronglySorted lt_loc t ->
  NoDup (map (fun x => gid (lst x)) t) ->
  (with_from = false -> forall x, In x t -> lst x <> FROM) ->
  (forall st', (with_from = false -> st' <> FROM) -> searched st' t ->
     find_all (kw_match fl (stmt_words st')) s = hits st' t) ->
  locate_statements fl with_from s = Ok t.
Proof.
  intros fl wf s t ST HU HW HF. unfold locate_statements.
  assert (LJ : locate_group fl [STRICT_LEFT_JOIN; LEFT_OUTER_JOIN; LEFT_JOIN; INNER_JOIN; JOIN] s = Ok (pick t 0)).
  { apply (locate_joins fl s t HU _ HF). intros st' J _ E. subst st'. discriminate J. }
  pose proof (locate_single fl s t HU _ HF) as LS.
  destruct wf.
  - rewrite (locate_groups_picks fl s t _ [0; 1; 2; 3; 4; 5; 6; 7; 8]).
    2:{ unfold statement_groups. cbn [app]. repeat (constructor; [first [exact LJ | apply LS; [intros; discriminate | reflexivity]]|]). constructor. }
    rewrite (sort_picks t ST HU) by (repeat constructor; cbn [In]; intuition discriminate).
    f_equal. apply filter_all. intros [[a b] st] _. destruct st; reflexivity.
  - rewrite (locate_groups_picks fl s t _ [0; 1; 2; 3; 4; 5; 6; 7]).
    2:{ unfold statement_groups. cbn [app]. repeat (constructor; [first [exact LJ | apply LS; [intros; discriminate | reflexivity]]|]). constructor. }
    rewrite (sort_picks t ST HU) by (repeat constructor; cbn [In]; intuition discriminate).
    f_equal. apply filter_all. intros [[a b] st] Ix. pose proof (HW eq_refl _ Ix) as NF. cbn [lst snd] in NF.
    destruct st; try reflexivity. contradiction NF. reflexivity.
Qed.
Print Assumptions locate_of_hits.
