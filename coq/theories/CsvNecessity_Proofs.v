(* CsvNecessity_Proofs.v — the converse of the line round trip: for a good delimiter, a field list that is split
   back into itself without warning satisfies line_ok. Hence line_ok is exactly "the dialect round-trips". *)
From RBQL Require Import Base Csv CsvSpec CsvStr_Proofs Csv_Proofs CsvRoundtrip_Proofs.

Lemma firstn_prefix_eq {T} (f x : list T) i : (i <= length f)%nat -> firstn i (f ++ x) = f -> i = length f.
Proof.
  intros Hi E. apply (f_equal (@length _)) in E. rewrite firstn_length, app_length in E. lia.
Qed.

(* if the text before the first delimiter of f ++ dlm ++ rest is f itself, then f runs exactly to that delimiter *)
Lemma first_field_exact dlm f rest i : find dlm (f ++ dlm ++ rest) = Some i -> firstn i (f ++ dlm ++ rest) = f ->
  i = length f /\ no_overlap dlm f = true.
Proof.
  intros F E. pose proof (find_min _ _ _ _ F) as Hi. pose proof (firstn_prefix_eq f _ i Hi E) as Ei. split; [exact Ei|].
  pose proof (find_prefix_exact _ _ _ F) as Fx. rewrite E in Fx. unfold no_overlap. rewrite Fx. apply Nat.eqb_refl.
Qed.

Lemma simple_necessary dlm fs : dlm <> [] -> split dlm (join dlm fs) = fs ->
  nonnil fs = true /\ bare_ok dlm (fun _ => false) fs = true.
Proof.
  intros Hd. induction fs as [|f fs IH]; intros H.
  - exfalso. exact (split_nonempty dlm _ H).
  - split; [reflexivity|]. destruct fs as [|g fs].
    + cbn [join] in H. cbn [bare_ok orb]. apply negb_true_iff.
      pose proof (split_fields_clean dlm Hd f) as C. rewrite H in C. inversion C; assumption.
    + rewrite bare_ok_cons2. cbn [orb]. rewrite join_cons in H by discriminate.
      destruct (find_least dlm f (join dlm (g :: fs))) as [i [F Hi]].
      rewrite (split_some dlm _ i Hd F) in H. injection H as H1 H2.
      destruct (first_field_exact dlm f _ i F H1) as [Ei Hno]. rewrite Hno. cbn [andb].
      subst i. rewrite skipn_app_exact2 in H2. apply IH. exact H2.
Qed.

Lemma WsSplit_fields s fs : WsSplit s fs -> forallb (fun f => nonnil f && negb (has SP f)) fs = true.
Proof.
  induction 1 as [sp Hs|sp f rest fs Hs Hne Hf Hr Hw IH]; [reflexivity|].
  cbn [forallb]. rewrite IH, Hf. destruct f; [congruence|reflexivity].
Qed.

Lemma qrender_bare_or_quoted q f : qrender q f = (if q f then wrap (double f) else f).
Proof. reflexivity. Qed.

Lemma loop_necessary dlm q : good_quoted_dlm dlm = true -> (forall f, q f = false -> has QT f = false) ->
  (forall f, q f = false -> contains dlm f = false) ->
  forall fs, fs <> [] -> forall fuel t w, (length (join dlm (map (qrender q) fs)) < fuel)%nat ->
  sq_loop fuel dlm false (ext_of dlm) (join dlm (map (qrender q) fs)) = (t, w) -> map snd t = fs ->
  bare_ok dlm q fs = true.
Proof.
  intros G Hq Hc. destruct (good_tail dlm [] G) as [_ [_ Hd]]. pose proof (dlm_len_pos dlm Hd) as Hdl.
  induction fs as [|f fs IH]; intros Hne fuel t w Hl H Ht; [congruence|]. destruct fuel as [|fuel]; [lia|].
  destruct fs as [|g fs].
  - cbn [bare_ok]. destruct (q f) eqn:Qf; [reflexivity|]. cbn [orb]. rewrite (Hc f Qf). reflexivity.
  - rewrite bare_ok_cons2. cbn [map] in *. rewrite join_cons in * by discriminate.
    assert (qrender q f ++ dlm ++ join dlm (qrender q g :: map (qrender q) fs) <> []) as Hn2.
    { destruct (qrender q f); [destruct dlm; [congruence|discriminate]|discriminate]. }
    rewrite (sq_loop_S _ _ _ _ _ Hn2) in H. rewrite !app_length in Hl.
    unfold qrender at 1 in H. unfold qrender at 1 in Hl. destruct (q f) eqn:Qf.
    + cbn [orb andb]. rewrite (extract_quoted_more dlm false _ f _ G (wrap_double_qfield dlm f)) in H.
      destruct (sq_loop fuel dlm false (ext_of dlm) (join dlm (qrender q g :: map (qrender q) fs))) as [t' w'] eqn:L.
      injection H as <- <-. cbn [map snd fld_of] in Ht. injection Ht as Ht.
      apply (IH ltac:(discriminate) fuel t' w'); [lia|exact L|exact Ht].
    + cbn [orb]. destruct (good_tail dlm (join dlm (qrender q g :: map (qrender q) fs)) G) as [T1 [T2 _]].
      unfold extract_next_field in H. cbv zeta in H.
      rewrite (qmatch_bare_none (ext_of dlm) f _ (Hq f Qf) T1 T2) in H.
      destruct (find_least dlm f (join dlm (qrender q g :: map (qrender q) fs))) as [i [F Hi]]. rewrite F in H.
      destruct (sq_loop fuel dlm false (ext_of dlm) (skipn (i + length dlm) (f ++ dlm ++ join dlm (qrender q g :: map (qrender q) fs)))) as [t' w'] eqn:L.
      injection H as <- <-. cbn [map snd] in Ht. injection Ht as Hf Ht.
      destruct (first_field_exact dlm f _ i F Hf) as [Ei Hno]. rewrite Hno. cbn [andb].
      subst i. rewrite skipn_app_exact2 in L.
      apply (IH ltac:(discriminate) fuel t' w'); [lia|exact L|exact Ht].
Qed.

Lemma gets_quoted_contains pol dlm f : (pol = Quoted \/ pol = QuotedRfc) -> gets_quoted pol dlm f = false -> contains dlm f = false.
Proof.
  intros [->| ->]; unfold gets_quoted; intros H.
  - apply orb_false_iff in H. apply H.
  - apply orb_false_iff in H. destruct H as [H _]. apply orb_false_iff in H. apply H.
Qed.

Lemma quoted_necessary fl pol dlm fs : (pol = Quoted \/ pol = QuotedRfc) -> good_quoted_dlm dlm = true ->
  split_quoted_str dlm false (join_line_fl fl pol dlm fs) = (fs, false) ->
  nonnil fs = true /\ bare_ok dlm (gets_quoted pol dlm) fs = true.
Proof.
  intros Hp G H. destruct (good_tail dlm [] G) as [_ [_ Hd]].
  assert (join_line_fl fl pol dlm fs = join dlm (map (qrender (gets_quoted pol dlm)) fs)) as E.
  { destruct Hp as [->| ->]; unfold join_line_fl, quote_fields; f_equal; apply map_ext; intros f; rewrite quote_field_lang; cbn [quote_field].
    - apply quote_field_py_render.
    - apply rfc_quote_field_py_render. }
  rewrite E in H. unfold split_quoted_str in H. rewrite (split_quoted_tagged_general dlm false _ Hd) in H.
  destruct fs as [|f fs]; [cbn in H; discriminate|]. split; [reflexivity|].
  destruct (sq_loop _ dlm false (ext_of dlm) _) as [t w] eqn:L in H. injection H as Ht _.
  apply (loop_necessary dlm (gets_quoted pol dlm) G (fun f => gets_quoted_sound pol dlm f Hp) (fun f => gets_quoted_contains pol dlm f Hp)
           (f :: fs) ltac:(discriminate) _ t w (Nat.lt_succ_diag_r _) L Ht).
Qed.

Theorem line_ok_necessary fl pol dlm fs : good_dlm pol dlm = true ->
  smart_split pol dlm false (join_line_fl fl pol dlm fs) = (fs, false) -> line_ok pol dlm fs = true.
Proof.
  intros G H. destruct pol; cbn [good_dlm line_ok] in *.
  - cbn [smart_split join_line_fl quote_fields] in H. injection H as H.
    destruct (simple_necessary dlm fs) as [A B]; [destruct dlm; [discriminate|discriminate]|exact H|]. apply andb_true_iff. split; [exact A|exact B].
  - cbn [smart_split] in H. destruct (quoted_necessary fl Quoted dlm fs (or_introl eq_refl) G H) as [A B]. rewrite A, B. reflexivity.
  - cbn [smart_split] in H. destruct (quoted_necessary fl QuotedRfc dlm fs (or_intror eq_refl) G H) as [A B]. rewrite A, B. reflexivity.
  - cbn [smart_split join_line_fl quote_fields split_whitespace_separated_str] in H. injection H as H.
    apply (WsSplit_fields (join dlm fs)). rewrite <- H at 2. apply ws_split_WsSplit.
  - cbn [smart_split join_line_fl] in H. injection H as H. destruct fs as [|f [|g fs]]; [discriminate|reflexivity|discriminate].
Qed.

Theorem line_ok_iff fl pol dlm fs : good_dlm pol dlm = true ->
  (line_ok pol dlm fs = true <-> smart_split pol dlm false (join_line_fl fl pol dlm fs) = (fs, false)).
Proof. intros G. split; [apply line_roundtrip; exact G|apply line_ok_necessary; exact G]. Qed.

(* the hypothesis of split_is_dialect is needed: with the delimiter space-semicolon the line QaQ_;b (Q the quote,
   _ a space) is, in the dialect, the quoted field a followed by the delimiter and the field b; the code eats the
   space after the closing quote, misses the delimiter and falls back to an unquoted field with a warning *)
Lemma space_led_delimiter_not_dialect :
  exists dlm line fs w, good_quoted_dlm dlm = false /\ Split dlm line fs w /\ split_quoted_str dlm false line <> (fs, w).
Proof.
  exists [SP; 59%N], [QT; 97%N; QT; SP; 59%N; 98%N], [[97%N]; [98%N]], false.
  split; [reflexivity|]. split; [|vm_compute; discriminate].
  change [QT; 97%N; QT; SP; 59%N; 98%N] with (([] ++ QT :: [97%N] ++ QT :: []) ++ [SP; 59%N] ++ [98%N]).
  apply Split_q_more.
  - apply QField_intro; [constructor|constructor|discriminate|]. apply QB_ch; [discriminate|apply QB_nil].
  - change false with (has QT [98%N]). apply Split_u_last; [discriminate| |].
    + intros [q [u [rest [Hq Hs]]]]. destruct Hq as [sp1 raw u sp2 H1 _ _ _].
      assert (exists x, [98%N] = sp1 ++ QT :: x) as [x Hx].
      { destruct Hs as [->| ->]; [eexists; reflexivity|]. rewrite qtext_app. eexists; reflexivity. }
      destruct sp1 as [|c sp1]; [discriminate|]. inversion H1; subst. discriminate.
    + intros [a [b E]]. apply (f_equal (@length _)) in E. rewrite !app_length in E. cbn [length] in E. lia.
Qed.
