(* Reader.v — executable model of rbql-py/rbql/rbql_csv.py class CSVRecordIterator (pull reader).

   Layout
   * the text stream: a list of non-empty pieces; [read n] returns at most n characters of the
     first piece (a short read) and "" only at the end of input;
   * the raw line layer of the Python code (buffer / exhausted / detected_line_separator,
     _get_row_from_buffer with its one-character CR look-ahead, _read_until_found, the part of
     get_row_simple before "self.NL += 1");
   * the iterator layer (get_row_simple: NL and BOM; get_row_rfc; get_record: comment skipping, NR,
     split, first_defective_line, fields_info; the constructor's header pre-read; handle_query_modifier;
     get_header; get_warnings; get_all_records; _get_all_rows), written once, generically in the raw
     line source [raw_row : R -> option str * R], and instantiated (a) with the Python stream layer and
     (b) with a plain list of physical lines (the reference run used by the theorems);
   * field splitting is a section variable [split : str -> list str * bool] (Csv.smart_split is another
     area); [lite_split] is a small local instance for the executable entry points.
   NO proofs here (Reader_Proofs.v). *)
From RBQL Require Import Base Lines.

(* ------------------------------------------------------------------ the stream *)

Definition stream := list str.

(* stream.read(n): at most n characters of the first piece *)
Definition read (n : nat) (ps : stream) : str * stream :=
  match ps with
  | [] => ([], [])
  | p :: r => if (length p <=? n)%nat then (p, r) else (firstn n p, skipn n p :: r)
  end.

(* ------------------------------------------------------------------ configuration and results *)

Inductive enc := EncNone | EncUtf8 | EncLatin1.

Record cfg := {
  c_rfc : bool;                 (* policy == 'quoted_rfc' *)
  c_comment : option str;       (* comment_prefix as passed by the caller *)
  c_header : bool;              (* has_header constructor argument *)
  c_enc : enc;                  (* encoding: None / 'utf-8' / 'latin-1' (JS: other / 'utf-8' / 'binary') *)
  c_modifier : option bool      (* handle_query_modifier: Some true = WITH (header), Some false = WITH (noheader) *)
}.

(* self.comment_prefix = comment_prefix if (comment_prefix is not None and len(comment_prefix)) else None
   (JS: `this.comment_prefix && ...` - the empty string is falsy) *)
Definition eff_comment (c : cfg) : option str :=
  match c_comment c with
  | Some [] => None
  | x => x
  end.

Definition is_comment (c : cfg) (line : str) : bool :=
  match eff_comment c with
  | Some p => starts_with p line
  | None => false
  end.

(* remove_utf8_bom(line, assumed_source_encoding) *)
Definition remove_utf8_bom (line : str) (e : enc) : str :=
  match e, line with
  | EncLatin1, a :: b :: c :: t => if N.eqb a 239 && N.eqb b 187 && N.eqb c 191 then t else line
  | EncUtf8, a :: t => if N.eqb a BOMC then t else line
  | _, _ => line
  end.

Record warnings := {
  w_bom : bool;                                (* 'UTF-8 Byte Order Mark (BOM) was found and skipped' *)
  w_defective : option nat;                    (* 'Inconsistent double quote escaping ... E.g. at line N' *)
  w_fields : option (nat * nat * nat * nat)    (* 'Number of fields ... record r1 -> n1 fields, record r2 -> n2 fields': (r1, n1, r2, n2) *)
}.

Inductive rec_result := RecNone | Rec (r : list str) | RecErr (nr nl : nat).

Inductive result :=
| ROk (records : list (list str)) (header : option (list str)) (w : warnings) (nl nr : nat)
| RErr (nr nl : nat).        (* RbqlIOHandlingError 'Inconsistent double quote escaping in .. table at record NR, line NL' *)

(* sorted(fields_info.items(), key=lambda v: v[1])  (JS: entries.sort((a, b) => a[1] - b[1])); both sorts are stable *)
Fixpoint insert_by_nr (x : nat * nat) (l : list (nat * nat)) : list (nat * nat) :=
  match l with
  | [] => [x]
  | y :: t => if (snd x <? snd y)%nat then x :: l else y :: insert_by_nr x t
  end.
Definition sort_by_nr (l : list (nat * nat)) : list (nat * nat) := fold_right insert_by_nr [] l.

(* make_inconsistent_num_fields_warning: the two entries with the smallest record numbers *)
Definition fields_warning (finfo : list (nat * nat)) : option (nat * nat * nat * nat) :=
  match sort_by_nr finfo with
  | (n1, r1) :: (n2, r2) :: _ => Some (r1, n1, r2, n2)
  | _ => None
  end.

(* if num_fields not in self.fields_info: self.fields_info[num_fields] = self.NR  (dict / Map keep insertion order) *)
Definition fields_info_add (finfo : list (nat * nat)) (nf nr : nat) : list (nat * nat) :=
  if existsb (fun e => Nat.eqb (fst e) nf) finfo then finfo else finfo ++ [(nf, nr)].

Definition mk_warnings (bom : bool) (fdl : option nat) (finfo : list (nat * nat)) : warnings :=
  {| w_bom := bom; w_defective := fdl; w_fields := fields_warning finfo |}.

Definition quotes_odd (row : str) : bool := Nat.odd (count_ch QT row).

(* the list returned by get_warnings(), as data, in the order of the Python port: BOM, defective line, field counts *)
Inductive warning_item := WBom | WDefective (nl : nat) | WFields (r1 n1 r2 n2 : nat).
Definition w_bom_items (w : warnings) : list warning_item := if w_bom w then [WBom] else [].
Definition w_def_items (w : warnings) : list warning_item := match w_defective w with Some n => [WDefective n] | None => [] end.
Definition w_fld_items (w : warnings) : list warning_item :=
  match w_fields w with Some (r1, n1, r2, n2) => [WFields r1 n1 r2 n2] | None => [] end.
Definition py_warning_list (w : warnings) : list warning_item := w_bom_items w ++ w_def_items w ++ w_fld_items w.

(* ------------------------------------------------------------------ the iterator, generic in the raw line source *)

Section Iterator.
  Variable R : Type.
  Variable raw_row : R -> option str * R.     (* everything of get_row_simple before "self.NL += 1" *)
  Variable split : str -> list str * bool.     (* csv_utils.smart_split(line, delim, policy, False) *)

  Record st := {
    raw : R;
    NL : nat;
    NR : nat;
    utf8_bom_removed : bool;
    first_defective_line : option nat;
    fields_info : list (nat * nat);            (* (num_fields, NR of its first record), insertion order *)
    has_header : bool;
    first_record : option (list str);
    first_record_should_be_emitted : bool
  }.

  Definition set_raw (s : st) (r : R) : st :=
    {| raw := r; NL := NL s; NR := NR s; utf8_bom_removed := utf8_bom_removed s;
       first_defective_line := first_defective_line s; fields_info := fields_info s;
       has_header := has_header s; first_record := first_record s;
       first_record_should_be_emitted := first_record_should_be_emitted s |}.

  Definition set_line (s : st) (r : R) (nl : nat) (bom : bool) : st :=
    {| raw := r; NL := nl; NR := NR s; utf8_bom_removed := bom;
       first_defective_line := first_defective_line s; fields_info := fields_info s;
       has_header := has_header s; first_record := first_record s;
       first_record_should_be_emitted := first_record_should_be_emitted s |}.

  Definition set_rec (s : st) (nr : nat) (fdl : option nat) (finfo : list (nat * nat)) : st :=
    {| raw := raw s; NL := NL s; NR := nr; utf8_bom_removed := utf8_bom_removed s;
       first_defective_line := fdl; fields_info := finfo;
       has_header := has_header s; first_record := first_record s;
       first_record_should_be_emitted := first_record_should_be_emitted s |}.

  Definition set_hdr (s : st) (hh : bool) (fr : option (list str)) (em : bool) : st :=
    {| raw := raw s; NL := NL s; NR := NR s; utf8_bom_removed := utf8_bom_removed s;
       first_defective_line := first_defective_line s; fields_info := fields_info s;
       has_header := hh; first_record := fr; first_record_should_be_emitted := em |}.

  (* get_row_simple *)
  Definition get_row_simple (c : cfg) (s : st) : option str * st :=
    match raw_row (raw s) with
    | (None, r') => (None, set_raw s r')
    | (Some row, r') =>
        let nl := S (NL s) in
        if Nat.eqb nl 1 then
          let clean := remove_utf8_bom row (c_enc c) in
          if str_eqb clean row then (Some row, set_line s r' nl (utf8_bom_removed s))
          else (Some clean, set_line s r' nl true)
        else (Some row, set_line s r' nl (utf8_bom_removed s))
    end.

  (* the `while True` loop of get_row_rfc; [fuel] bounds the number of physical lines still available *)
  Fixpoint rfc_loop (fuel : nat) (c : cfg) (s : st) (rows_buffer : list str) : str * st :=
    match fuel with
    | O => (join [LF] rows_buffer, s)
    | S f =>
        match get_row_simple c s with
        | (None, s1) => (join [LF] rows_buffer, s1)
        | (Some row, s1) =>
            let rb := rows_buffer ++ [row] in
            if quotes_odd row then (join [LF] rb, s1) else rfc_loop f c s1 rb
        end
    end.

  (* get_row_rfc *)
  Definition get_row_rfc (fuel : nat) (c : cfg) (s : st) : option str * st :=
    match get_row_simple c s with
    | (None, s1) => (None, s1)
    | (Some first_row, s1) =>
        if is_comment c first_row then (Some first_row, s1)
        else if negb (quotes_odd first_row) then (Some first_row, s1)
        else let '(r, s2) := rfc_loop fuel c s1 [first_row] in (Some r, s2)
    end.

  (* self.polymorphic_get_row *)
  Definition get_row (fuel : nat) (c : cfg) (s : st) : option str * st :=
    if c_rfc c then get_row_rfc fuel c s else get_row_simple c s.

  (* the comment-skipping `while True` loop of get_record *)
  Fixpoint skip_loop (fuel : nat) (gfuel : nat) (c : cfg) (s : st) : option str * st :=
    match fuel with
    | O => (None, s)
    | S f =>
        match get_row gfuel c s with
        | (None, s1) => (None, s1)
        | (Some line, s1) => if is_comment c line then skip_loop f gfuel c s1 else (Some line, s1)
        end
    end.

  (* get_record *)
  Definition get_record (fuel : nat) (c : cfg) (s : st) : rec_result * st :=
    if first_record_should_be_emitted s then
      (match first_record s with Some r => Rec r | None => RecNone end,
       set_hdr s (has_header s) (first_record s) false)
    else
      match skip_loop fuel fuel c s with
      | (None, s1) => (RecNone, s1)
      | (Some line, s1) =>
          let nr := S (NR s1) in
          let '(record, warning) := split line in
          let raise := warning && (match first_defective_line s1 with None => true | Some _ => false end) && c_rfc c in
          let fdl := if warning then match first_defective_line s1 with None => Some (NL s1) | x => x end
                     else first_defective_line s1 in
          if raise then (RecErr nr (NL s1), set_rec s1 nr fdl (fields_info s1))
          else (Rec record, set_rec s1 nr fdl (fields_info_add (fields_info s1) (length record) nr))
      end.

  Definition init_state (c : cfg) (r0 : R) : st :=
    {| raw := r0; NL := 0; NR := 0; utf8_bom_removed := false; first_defective_line := None;
       fields_info := []; has_header := c_header c; first_record := None;
       first_record_should_be_emitted := false |}.

  (* __init__ with line_mode = False: the header pre-read. None = the constructor raised *)
  Definition construct (fuel : nat) (c : cfg) (r0 : R) : result + st :=
    let s0 := init_state c r0 in
    match get_record fuel c s0 with
    | (RecErr nr nl, _) => inl (RErr nr nl)
    | (RecNone, s1) => inr (set_hdr s1 (has_header s1) None (negb (has_header s1)))
    | (Rec r, s1) => inr (set_hdr s1 (has_header s1) (Some r) (negb (has_header s1)))
    end.

  (* handle_query_modifier *)
  Definition handle_query_modifier (m : option bool) (s : st) : st :=
    match m with
    | Some true => set_hdr s true (first_record s) false
    | Some false => set_hdr s false (first_record s) true
    | None => s
    end.

  Definition get_header (s : st) : option (list str) :=
    if has_header s then first_record s else None.

  Definition get_warnings (s : st) : warnings :=
    mk_warnings (utf8_bom_removed s) (first_defective_line s) (fields_info s).

  (* get_all_records(): [n] bounds the number of records, [fuel] is handed to the inner loops *)
  Fixpoint all_records (n : nat) (fuel : nat) (c : cfg) (s : st) (acc : list (list str)) : (list (list str) + (nat * nat)) * st :=
    match n with
    | O => (inl acc, s)
    | S m =>
        match get_record fuel c s with
        | (RecNone, s1) => (inl acc, s1)
        | (RecErr nr nl, s1) => (inr (nr, nl), s1)
        | (Rec r, s1) => all_records m fuel c s1 (acc ++ [r])
        end
    end.

  (* constructor; handle_query_modifier; get_all_records(); get_header(); get_warnings(); NL; NR *)
  Definition run_iterator (fuel : nat) (c : cfg) (r0 : R) : result :=
    match construct fuel c r0 with
    | inl e => e
    | inr s0 =>
        let s1 := handle_query_modifier (c_modifier c) s0 in
        match all_records (S fuel) fuel c s1 [] with
        | (inr (nr, nl), _) => RErr nr nl
        | (inl recs, s2) => ROk recs (get_header s2) (get_warnings s2) (NL s2) (NR s2)
        end
    end.

  (* _get_all_rows() on an iterator built with line_mode = True *)
  Fixpoint all_rows_loop (n : nat) (fuel : nat) (c : cfg) (s : st) : list str * st :=
    match n with
    | O => ([], s)
    | S m =>
        match get_row fuel c s with
        | (None, s1) => ([], s1)
        | (Some row, s1) => let '(rest, s2) := all_rows_loop m fuel c s1 in (row :: rest, s2)
        end
    end.

  Definition run_rows (fuel : nat) (c : cfg) (r0 : R) : list str * (nat * bool) :=
    let '(rows, s) := all_rows_loop (S fuel) fuel c (init_state c r0) in
    (rows, (NL s, utf8_bom_removed s)).
End Iterator.

Arguments raw {R}.
Arguments NL {R}.
Arguments NR {R}.
Arguments utf8_bom_removed {R}.
Arguments first_defective_line {R}.
Arguments fields_info {R}.
Arguments has_header {R}.
Arguments first_record {R}.
Arguments first_record_should_be_emitted {R}.

(* ------------------------------------------------------------------ the Python raw line layer *)

Record pyraw := {
  buffer : str;
  exhausted : bool;
  detected_line_separator : sep;
  pieces : stream        (* what the stream will still deliver *)
}.

(* _get_row_from_buffer *)
Definition get_row_from_buffer (s : pyraw) : option (str * pyraw) :=
  match extract (buffer s) with
  | None => None
  | Some (b, sp, a) =>
      match sp, a with
      | SCR, [] =>
          let '(one_more, ps') := read 1 (pieces s) in
          match one_more with
          | [c] => if N.eqb c LF
                   then Some (b, {| buffer := []; exhausted := exhausted s; detected_line_separator := SCRLF; pieces := ps' |})
                   else Some (b, {| buffer := one_more; exhausted := exhausted s; detected_line_separator := SCR; pieces := ps' |})
          | _ => Some (b, {| buffer := one_more; exhausted := exhausted s; detected_line_separator := SCR; pieces := ps' |})
          end
      | _, _ => Some (b, {| buffer := a; exhausted := exhausted s; detected_line_separator := sp; pieces := pieces s |})
      end
  end.

(* the loop of _read_until_found; fuel = number of characters still to come + 1 *)
Fixpoint read_until (fuel : nat) (cs : nat) (acc : str) (ps : stream) : str * bool * stream :=
  match fuel with
  | O => (acc, false, ps)
  | S f =>
      let '(chunk, ps') := read cs ps in
      match chunk with
      | [] => (acc, true, ps')
      | _ => if has_newline chunk then (acc ++ chunk, false, ps') else read_until f cs (acc ++ chunk) ps'
      end
  end.

(* _read_until_found *)
Definition read_until_found (cs : nat) (s : pyraw) : pyraw :=
  if exhausted s then s else
  let '(more, ex, ps') := read_until (S (length (concat (pieces s)))) cs [] (pieces s) in
  {| buffer := buffer s ++ more; exhausted := ex; detected_line_separator := detected_line_separator s; pieces := ps' |}.

(* get_row_simple up to (excluding) "self.NL += 1" *)
Definition raw_row_py (cs : nat) (s : pyraw) : option str * pyraw :=
  match get_row_from_buffer s with
  | Some (row, s') => (Some row, s')
  | None =>
      let s1 := read_until_found cs s in
      match get_row_from_buffer s1 with
      | Some (row, s') => (Some row, s')
      | None =>
          match buffer s1 with
          | [] => (None, s1)
          | _ => (Some (buffer s1),
                  {| buffer := []; exhausted := exhausted s1; detected_line_separator := detected_line_separator s1; pieces := pieces s1 |})
          end
      end
  end.

Definition mk_pyraw (ps : stream) : pyraw :=
  {| buffer := []; exhausted := false; detected_line_separator := SLF; pieces := ps |}.

(* the raw layer alone: every physical line the stream layer delivers (fuel: characters + 2) *)
Fixpoint raw_rows_py (fuel : nat) (cs : nat) (s : pyraw) : list str :=
  match fuel with
  | O => []
  | S f => match raw_row_py cs s with
           | (None, _) => []
           | (Some r, s') => r :: raw_rows_py f cs s'
           end
  end.

(* ------------------------------------------------------------------ the reference line source: a list of physical lines *)

Definition raw_row_list (l : list str) : option str * list str :=
  match l with
  | [] => (None, [])
  | x :: r => (Some x, r)
  end.

(* ------------------------------------------------------------------ top level runs *)

Definition py_fuel (ps : stream) : nat := S (S (length (concat ps))).

(* CSVRecordIterator(stream, ..., chunk_size = cs) ; get_all_records ; get_header ; get_warnings *)
Definition run_py (split : str -> list str * bool) (c : cfg) (cs : nat) (ps : stream) : result :=
  run_iterator pyraw (raw_row_py cs) split (py_fuel ps) c (mk_pyraw ps).

(* CSVRecordIterator(..., line_mode = True)._get_all_rows() *)
Definition rows_py (c : cfg) (cs : nat) (ps : stream) : list str * (nat * bool) :=
  run_rows pyraw (raw_row_py cs) (py_fuel ps) c (mk_pyraw ps).

(* the same iterator code over a list of physical lines *)
Definition run_lines_fuel (split : str -> list str * bool) (fuel : nat) (c : cfg) (lines : list str) : result :=
  run_iterator (list str) raw_row_list split fuel c lines.
Definition run_lines (split : str -> list str * bool) (c : cfg) (lines : list str) : result :=
  run_lines_fuel split (S (S (length lines))) c lines.
Definition rows_lines_fuel (fuel : nat) (c : cfg) (lines : list str) : list str * (nat * bool) :=
  run_rows (list str) raw_row_list fuel c lines.

(* ------------------------------------------------------------------ a small local splitter for the entry points *)

(* policy-lite: Some delim = 'simple' policy (src.split(delim), never a warning); None = 'monocolumn' ([src]) *)
Definition lite_split (delim : option str) (line : str) : list str * bool :=
  match delim with
  | Some (d0 :: d) => (Base.split (d0 :: d) line, false)
  | _ => ([line], false)
  end.

(* ------------------------------------------------------------------ the specification: records as a function of the physical lines *)

(* BOM handling touches the first physical line only *)
Definition strip_bom_first (e : enc) (lines : list str) : list str * bool :=
  match lines with
  | [] => ([], false)
  | l :: r => let clean := remove_utf8_bom l e in
              if str_eqb clean l then (lines, false) else (clean :: r, true)
  end.

(* logical rows, each with the number of its last physical line *)
Fixpoint number_from (n : nat) (lines : list str) : list (str * nat) :=
  match lines with
  | [] => []
  | l :: r => (l, S n) :: number_from (S n) r
  end.

(* quoted_rfc: [open] = the physical lines of the record under assembly (its quote count is odd so far) *)
Fixpoint group_rfc (c : cfg) (open : list str) (nl : nat) (lines : list str) : list (str * nat) :=
  match lines with
  | [] => match open with [] => [] | _ => [(join [LF] open, nl)] end
  | l :: r =>
      match open with
      | [] => if is_comment c l then (l, S nl) :: group_rfc c [] (S nl) r
              else if quotes_odd l then group_rfc c [l] (S nl) r
              else (l, S nl) :: group_rfc c [] (S nl) r
      | _ => if quotes_odd l then (join [LF] (open ++ [l]), S nl) :: group_rfc c [] (S nl) r
             else group_rfc c (open ++ [l]) (S nl) r
      end
  end.

Definition logical_rows (c : cfg) (lines : list str) : list (str * nat) :=
  if c_rfc c then group_rfc c [] 0 lines else number_from 0 lines.

Definition effective_header (c : cfg) : bool :=
  match c_modifier c with Some b => b | None => c_header c end.

Section Spec.
  Variable split : str -> list str * bool.

  (* records of the non-comment logical rows: NR, first defective line, fields_info; an rfc defect is an error *)
  Fixpoint parse_rows (c : cfg) (nr : nat) (fdl : option nat) (finfo : list (nat * nat)) (rows : list (str * nat))
    : (list (list str) * (nat * option nat * list (nat * nat))) + (nat * nat) :=
    match rows with
    | [] => inl ([], (nr, fdl, finfo))
    | (line, nl) :: r =>
        let nr' := S nr in
        let '(record, warning) := split line in
        let first := match fdl with None => true | Some _ => false end in
        if warning && first && c_rfc c then inr (nr', nl)
        else
          let fdl' := if warning && first then Some nl else fdl in
          match parse_rows c nr' fdl' (fields_info_add finfo (length record) nr') r with
          | inl (recs, fin) => inl (record :: recs, fin)
          | inr e => inr e
          end
    end.

  Definition records_of_lines (c : cfg) (lines : list str) : result :=
    let '(lines1, bom) := strip_bom_first (c_enc c) lines in
    let rows := filter (fun r => negb (is_comment c (fst r))) (logical_rows c lines1) in
    match parse_rows c 0 None [] rows with
    | inr (nr, nl) => RErr nr nl
    | inl (recs, (nr, fdl, finfo)) =>
        let hh := effective_header c in
        ROk (if hh then tl recs else recs) (if hh then hd_error recs else None)
            (mk_warnings bom fdl finfo) (length lines) nr
    end.

  Definition records_of_text (c : cfg) (text : str) : result := records_of_lines c (split_lines text).
End Spec.

(* the logical rows the reader returns in line mode (what _get_all_rows yields): comments included *)
Definition rows_of_lines (c : cfg) (lines : list str) : list str * (nat * bool) :=
  let '(lines1, bom) := strip_bom_first (c_enc c) lines in
  (map fst (logical_rows c lines1), (length lines, bom)).
