(* VarsIx_Proofs.v — the index models of VarsIx.v equal the hand models of ParserVars.v: five sequential str.replace calls with a
   one-character pattern = ParserVars.escape_column_name (both ports; the JavaScript port also for the backtick); the search loop
   over the segments = ParserVars.query_probably_has_dictionary_variable; the theorems of Props/C09.v / C18.v transferred. *)
From RBQL Require Import Base Csv PyStr JsStr CsvStr_Proofs Csv_Proofs CsvLossy_Proofs PyStr_Proofs CsvIx_Proofs
  Parser ParserVars ParserVars_Proofs LikeIx LikeIx_Proofs VarsIx.

Lemma replace_ch_app c r a b : replace_ch c r (a ++ b) = replace_ch c r a ++ replace_ch c r b.
Proof. unfold replace_ch. apply flat_map_app. Qed.

Lemma replace_ch_nochar c r s : has c s = false -> replace_ch c r s = s.
Proof.
  induction s as [|x s IH]; intros H; [reflexivity|]. rewrite has_cons in H. apply orb_false_iff in H. destruct H as [Hx Hs].
  unfold replace_ch in *. cbn [flat_map]. rewrite N.eqb_sym, Hx. cbn [app]. rewrite (IH Hs). reflexivity.
Qed.

Lemma find_ch_none c s : find [c] s = None -> has c s = false.
Proof. intros F. rewrite <- contains_single. unfold contains. rewrite F. reflexivity. Qed.

(* s.replace(c, r) for a one-character pattern: every occurrence, character by character *)
Lemma replace_single_n c r n : forall s, (length s <= n)%nat -> replace [c] r s = replace_ch c r s.
Proof.
  induction n as [|n IH]; intros s Hl.
  - destruct s; [reflexivity|cbn in Hl; lia].
  - unfold replace. destruct (find [c] s) as [i|] eqn:F.
    + rewrite (split_some [c] s i ltac:(discriminate) F). pose proof (find_some_len _ _ _ F) as Hi. cbn [length] in Hi.
      rewrite join_cons by apply split_nonempty.
      pose proof (find_some _ _ _ F) as Es. cbn [length] in Es. cbn [length].
      rewrite Es at 3. rewrite !replace_ch_app. rewrite <- (IH (skipn (i + 1) s)) by (rewrite skipn_length; lia). unfold replace.
      assert (has c (firstn i s) = false) as Hq.
      { pose proof (find_prefix_exact _ _ _ F) as Hp. destruct (has c (firstn i s)) eqn:Hh; [|reflexivity]. exfalso.
        apply has_true_in in Hh. apply in_split in Hh. destruct Hh as [u [v Ev]].
        rewrite Ev in Hp. rewrite <- app_assoc in Hp. cbn [app] in Hp.
        pose proof (find_min [c] u (v ++ [c]) _ Hp) as Hm. rewrite app_length in Hm. cbn [length] in Hm. lia. }
      rewrite (replace_ch_nochar _ _ _ Hq). change (replace_ch c r [c]) with ((if N.eqb c c then r else [c]) ++ []). rewrite N.eqb_refl, app_nil_r. reflexivity.
    + rewrite (split_none _ _ F). cbn [join]. symmetry. apply replace_ch_nochar. apply find_ch_none. exact F.
Qed.

Lemma py_replace_ch s c r : py_replace s [c] r = replace_ch c r s.
Proof. unfold py_replace. apply (replace_single_n c r (length s)). lia. Qed.

(* ---------------------------------------------------------------- the escape of a column name *)

Theorem ix_escape_column_name_correct (name : str) (qc : ch) :
  ix_python_string_escape_column_name name [qc] = if N.eqb qc QT || N.eqb qc APOS then Some (escape_column_name qc name) else None.
Proof.
  unfold ix_python_string_escape_column_name, escape_column_name, QT, APOS, BSL, LF, CR, TAB. cbn [str_eqb]. rewrite !andb_true_r.
  cbv zeta. rewrite !py_replace_ch.
  destruct (N.eqb qc 34) eqn:E1; [apply N.eqb_eq in E1; subst qc; reflexivity|].
  destruct (N.eqb qc 39) eqn:E2; [apply N.eqb_eq in E2; subst qc; reflexivity|]. reflexivity.
Qed.

Theorem jsix_escape_column_name_correct (name : str) (qc : ch) :
  jsix_js_string_escape_column_name name [qc] = if N.eqb qc APOS || N.eqb qc QT || N.eqb qc 96 then Some (escape_column_name qc name) else None.
Proof.
  unfold jsix_js_string_escape_column_name, escape_column_name, QT, APOS, BSL, LF, CR, TAB. cbn [str_eqb]. rewrite !andb_true_r.
  cbv zeta. rewrite !py_replace_ch.
  destruct (N.eqb qc 39) eqn:E1; [apply N.eqb_eq in E1; subst qc; reflexivity|].
  destruct (N.eqb qc 34) eqn:E2; [apply N.eqb_eq in E2; subst qc; reflexivity|].
  destruct (N.eqb qc 96) eqn:E3; [apply N.eqb_eq in E3; subst qc; reflexivity|]. reflexivity.
Qed.

(* a quote character that is not ONE character: Python's assert fails / JavaScript's assert throws *)
Lemma ix_escape_column_name_bad (name q : str) : (forall c, q <> [c]) -> ix_python_string_escape_column_name name q = None.
Proof.
  intros H. unfold ix_python_string_escape_column_name. destruct q as [|c [|d q]]; [reflexivity|exfalso; apply (H c); reflexivity|].
  cbn [str_eqb]. rewrite !andb_false_r. reflexivity.
Qed.

(* ---------------------------------------------------------------- the prefilter *)

Lemma search_loop_forallb {A} (f : A -> bool) (l : list A) :
  (if existsb (fun x => negb (f x)) l then false else true) = forallb f l.
Proof. induction l as [|x l IH]; [reflexivity|]. cbn [existsb forallb]. destruct (f x); cbn [negb orb andb]; [exact IH|reflexivity]. Qed.

Theorem ix_prefilter_correct (query name : str) :
  ix_query_probably_has_dictionary_variable query name = query_probably_has_dictionary_variable query name.
Proof.
  unfold ix_query_probably_has_dictionary_variable, query_probably_has_dictionary_variable, dict_segments, py_contains. cbv zeta.
  apply search_loop_forallb.
Qed.

Theorem jsix_prefilter_correct (query name : str) :
  jsix_query_probably_has_dictionary_variable query name = query_probably_has_dictionary_variable query name.
Proof.
  unfold jsix_query_probably_has_dictionary_variable, jsix_get_all_matches, query_probably_has_dictionary_variable, dict_segments, py_contains. cbv zeta.
  rewrite fold_left_append_id. cbn [app]. apply search_loop_forallb.
Qed.

#[export] Hint Unfold jsix_get_all_matches : ixinline.
#[export] Hint Rewrite fold_left_append_id : fnnorm.
