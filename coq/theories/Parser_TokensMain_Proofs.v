(* Parser_TokensMain_Proofs.v — C08_token_spelling, part 5: the main theorem
     separate_actions fl with_from (render sigma aq) = Ok (actions_of sigma aq)
   and its corollaries (clause order, spaces, letter case, TOP / LIMIT, JOIN spellings). *)
From RBQL Require Import Base Parser Parser_Spelling_Proofs Parser_Tokens_Proofs Parser_TokensLocate_Proofs
  Parser_TokensRender_Proofs Parser_TokensQuery_Proofs.
From Coq Require Import Sorted FinFun.
Local Open Scope N_scope.

(* ------------------------------------------------------------------ two renderings that differ in letter case only *)
Lemma case_rel_sps : forall n, case_rel (sps n) (sps n). Proof. intro n. apply case_rel_refl. Qed.

Lemma kwtext_case : forall ws ws' gs, Forall2 case_rel ws ws' -> case_rel (kwtext ws gs) (kwtext ws' gs).
Proof.
  intros ws ws' gs H. revert gs. induction H as [|w w' ws ws' Hw Hr IH]; intro gs; [constructor|].
  destruct Hr as [|w2 w2' r r' H2 Hr'].
  - cbn [kwtext]. exact Hw.
  - change (kwtext (w :: w2 :: r) gs) with (w ++ sps (S (hd O gs)) ++ kwtext (w2 :: r) (tl gs)).
    change (kwtext (w' :: w2' :: r') gs) with (w' ++ sps (S (hd O gs)) ++ kwtext (w2' :: r') (tl gs)).
    apply case_rel_app; [exact Hw|]. apply case_rel_app; [apply case_rel_refl|]. apply IH.
Qed.

(* clause by clause: same statement, same layout, words and text equal up to letter case *)
Definition rcl_rel (c c' : rcl) : Prop :=
  rc_st c = rc_st c' /\ Forall2 case_rel (rc_ws c) (rc_ws c') /\ rc_lead c = rc_lead c' /\ rc_gaps c = rc_gaps c' /\
  rc_sp c = rc_sp c' /\ case_rel (rc_txt c) (rc_txt c').

Lemma render_cl_rel : forall c c', rcl_rel c c' -> case_rel (render_cl c) (render_cl c').
Proof.
  intros c c' [_ [W [L [G [S T]]]]]. unfold render_cl, rc_kw. rewrite L, G, S.
  apply case_rel_app; [apply case_rel_refl|]. constructor; [apply case_eq_refl|].
  apply case_rel_app; [apply kwtext_case; exact W|]. apply case_rel_app; [apply case_rel_refl | exact T].
Qed.

Lemma render_cls_rel : forall cs cs', Forall2 rcl_rel cs cs' -> case_rel (render_cls cs) (render_cls cs').
Proof.
  intros cs cs' H. induction H as [|c c' cs cs' Hc Hr IH]; [constructor|]. cbn [render_cls].
  apply case_rel_app; [apply render_cl_rel; exact Hc | exact IH].
Qed.

Lemma locs_rel : forall cs cs', Forall2 rcl_rel cs cs' -> forall pos, locs pos cs = locs pos cs'.
Proof.
  intros cs cs' H. induction H as [|c c' cs cs' Hc Hr IH]; intro pos; [reflexivity|]. cbn [locs].
  pose proof (case_rel_length _ _ (render_cl_rel c c' Hc)) as LN.
  destruct Hc as [S [W [L [G _]]]]. unfold rc_kw. rewrite <- G, <- L, <- S, <- LN.
  rewrite <- (case_rel_length _ _ (kwtext_case _ _ (rc_gaps c) W)). rewrite IH. reflexivity.
Qed.

Lemma render_q_rel : forall hw hw' hk ht ht' cs cs', case_rel hw hw' -> case_rel ht ht' -> Forall2 rcl_rel cs cs' ->
  case_rel (render_q hw hk ht cs) (render_q hw' hk ht' cs').
Proof.
  intros. unfold render_q. apply case_rel_app; [assumption|]. apply case_rel_app; [apply case_rel_refl|].
  apply case_rel_app; [assumption | apply render_cls_rel; assumption].
Qed.

Lemma target_rel : forall hst hw hw' hk ht ht' cs cs', case_rel hw hw' -> case_rel ht ht' -> Forall2 rcl_rel cs cs' ->
  target hst hw hk ht cs = target hst hw' hk ht' cs'.
Proof.
  intros hst hw hw' hk ht ht' cs cs' H1 H2 H3. unfold target.
  rewrite (case_rel_length _ _ H1), (case_rel_length _ _ H2), (locs_rel cs cs' H3). reflexivity.
Qed.

(* ------------------------------------------------------------------ quiet texts: extension by tokens that start no statement *)
Lemma straddle_app_sp : forall fl wl u Y, all_letters wl = true -> straddle fl wl u = false -> straddle fl wl (u ++ SP :: Y) = false.
Proof.
  intros fl wl. induction wl as [|w wl IH]; intros u Y L S; [reflexivity|]. destruct wl as [|w2 wl]; [reflexivity|].
  unfold all_letters in L. cbn [forallb] in L. apply andb_true_iff in L. destruct L as [L1 L2].
  cbn [straddle] in *. rewrite (eat_ci_app_sp fl w u Y L1). destruct (eat_ci fl w u) as [u'|]; [|reflexivity]. cbn [option_map].
  destruct (forallb is_sp u') eqn:A; [discriminate S|].
  assert (A' : forallb is_sp (u' ++ SP :: Y) = false).
  { rewrite forallb_app, A. reflexivity. }
  rewrite A'. rewrite (drop_sp_app_nonsp u' _ A). apply IH; [exact L2 | exact S].
Qed.

Lemma safe_app_sp : forall fl wl u Y, all_letters wl = true -> safe fl wl u = true -> safe fl wl (u ++ SP :: Y) = true.
Proof.
  intros fl wl u Y L S. pose proof (safe_kw_at fl wl u (Y ++ [SP]) L S) as K. unfold safe in *.
  rewrite <- app_assoc. cbn [app]. rewrite K. destruct (kw_at fl wl (u ++ [SP])); [discriminate S|].
  apply negb_true_iff in S. rewrite (straddle_app_sp fl wl u Y L S). reflexivity.
Qed.

Lemma quiet_app_sp : forall fl wl X Y, all_letters wl = true -> quiet fl wl X = true -> quiet fl wl (SP :: Y) = true ->
  quiet fl wl (X ++ SP :: Y) = true.
Proof.
  intros fl wl X Y L. induction X as [|c t IH]; intros Q1 Q2; [exact Q2|]. cbn [quiet] in Q1. apply andb_true_iff in Q1.
  destruct Q1 as [S Q1]. cbn [app quiet]. rewrite (IH Q1 Q2), andb_true_r. destruct (is_sp c); [|reflexivity].
  apply safe_app_sp; assumption.
Qed.

Lemma quiet_nosp_app : forall fl wl A B, nosp A = true -> quiet fl wl (A ++ B) = quiet fl wl B.
Proof.
  intros fl wl A B H. induction A as [|c A IH]; [reflexivity|]. unfold nosp in H. cbn [forallb] in H. apply andb_true_iff in H.
  destruct H as [H1 H2]. apply negb_true_iff in H1. cbn [app quiet]. rewrite H1. cbn [andb]. apply IH. exact H2.
Qed.

(* no statement wl starts with the token K, whatever follows *)
Definition inert (fl : lang) (wl : list str) (K : str) : Prop := forall Y, safe fl wl (K ++ Y) = true.

Lemma inert_clash : forall fl w1 wr K, clash fl w1 K = true -> inert fl (w1 :: wr) K.
Proof.
  intros fl w1 wr K C Y. unfold safe, kw_at. rewrite <- app_assoc.
  rewrite (eat_words_head_none fl w1 wr _ (clash_none fl w1 K _ C)).
  destruct wr as [|w2 wr]; [reflexivity|]. cbn [straddle]. rewrite (clash_none fl w1 K Y C). reflexivity.
Qed.

Lemma quiet_token : forall fl wl K g Y, words_ok wl = true -> wl <> [] -> nosp K = true -> inert fl wl K ->
  quiet fl wl (sps g ++ K ++ Y) = quiet fl wl Y.
Proof.
  intros fl wl K g Y WO NE NS I. induction g as [|g IH]; [cbn [sps repeat app]; apply quiet_nosp_app; exact NS|].
  change (sps (S g) ++ K ++ Y) with (SP :: (sps g ++ K ++ Y)). cbn [quiet]. change (is_sp SP) with true. cbv iota.
  rewrite IH. replace (safe fl wl (sps g ++ K ++ Y)) with true; [reflexivity|]. symmetry.
  destruct g as [|g]; [apply I | apply safe_sp_head; assumption].
Qed.

Lemma ci_alpha_digit : forall fl k d, is_alpha k = true -> is_digit d = true -> ci_eq fl k d = false.
Proof.
  intros fl k d A D. pose proof (to_lower_alpha k A) as B. unfold is_digit, in_range in D. apply andb_true_iff in D.
  destruct D as [D1 D2]. apply N.leb_le in D1. apply N.leb_le in D2.
  assert (TD : to_lower d = d).
  { unfold to_lower, is_upper, in_range. rewrite (proj2 (N.leb_gt 65 d)) by lia. reflexivity. }
  unfold ci_eq. rewrite TD. rewrite (proj2 (N.eqb_neq (to_lower k) d)) by lia. destruct fl; [|reflexivity].
  apply fold_extra_ascii. lia.
Qed.

Lemma first_letter : forall st, exists k w wr, stmt_words st = (k :: w) :: wr /\ is_alpha k = true.
Proof. destruct st; do 3 eexists; (split; [reflexivity | reflexivity]). Qed.

Lemma inert_digits : forall fl st d ds, is_digit d = true -> inert fl (stmt_words st) (d :: ds).
Proof.
  intros fl st d ds D. destruct (first_letter st) as [k [w [wr [E A]]]]. rewrite E. apply inert_clash.
  cbn [clash]. rewrite (ci_alpha_digit fl k d A D). reflexivity.
Qed.

Lemma inert_word : forall fl st K, In K [K_TOP; K_DISTINCT; K_COUNT; K_SET; K_ASC; K_DESC] -> inert fl (stmt_words st) K.
Proof.
  intros fl st K H. destruct (first_letter st) as [k [w [wr [E A]]]]. rewrite E. apply inert_clash.
  assert (C : clash fl (hd [] (stmt_words st)) K = true).
  { cbn [In] in H. destruct H as [<-|[<-|[<-|[<-|[<-|[<-|[]]]]]]]; destruct fl, st; reflexivity. }
  rewrite E in C. exact C.
Qed.

(* ------------------------------------------------------------------ the canonical (upper-case) spelling, well-formedness *)
Definition head_word (k : qkind) : str := match k with QSelect _ _ _ _ => W_SELECT | QUpdate _ => W_UPDATE end.
Definition canon (s : sigma) (q : aq) : sigma :=
  mkSigma (s_order s) (fun k => stmt_words (st_of s q k)) (s_lead s) (s_gaps s) (s_sp s) (s_inner s) (s_outer s)
    (head_word (q_kind q)) (s_hk s) K_TOP (s_top_g s) (s_top_sp s) K_DISTINCT (s_dist_g s) K_COUNT (s_dist_sp s)
    (s_set s) K_SET (s_set_sp s) (s_asc s) (dir_word q) (s_dir_g s).

(* sigma is a spelling choice for q: the order lists exactly the clauses that q has, once each; every keyword is
   spelled with its own letters in some case *)
Definition sigma_ok (s : sigma) (q : aq) : Prop :=
  NoDup (s_order s) /\ (forall k, In k (s_order s) <-> present q k = true) /\
  (forall k, In k (s_order s) -> Forall2 case_rel (stmt_words (st_of s q k)) (s_ws s k)) /\
  case_rel (head_word (q_kind q)) (s_hw s) /\ head_words_ok s /\ case_rel (dir_word q) (s_dir_w s).

Definition all_ck : list ck := [CJoin; COrder; CWhere; CGroup; CLimit; CExcept; CFrom].
(* the query is well formed: conditions on its texts only (boolean) *)
Definition wf_aq (fl : lang) (with_from : bool) (q : aq) : bool :=
  head_ok fl with_from (q_kind q) && forallb (kind_ok fl with_from q) all_ck && (with_from || isN (q_from q)).

Lemma clause_ok_quiet : forall fl wf t, clause_ok fl wf t = true -> quiet_all fl wf t = true.
Proof. intros fl wf t H. unfold clause_ok in H. apply andb_true_iff in H. destruct H as [H _]. apply andb_true_iff in H. exact (proj2 H). Qed.
Lemma clause_ok_wt : forall fl wf t, clause_ok fl wf t = true -> wt_ok t = true.
Proof. intros fl wf t H. unfold clause_ok in H. apply andb_true_iff in H. exact (proj2 H). Qed.

Lemma digits_nosp : forall ds, forallb is_digit ds = true -> nosp ds = true.
Proof.
  induction ds as [|d ds IH]; intro H; [reflexivity|]. cbn [forallb] in H. apply andb_true_iff in H. destruct H as [H1 H2].
  unfold nosp. cbn [forallb]. fold (nosp ds). rewrite (IH H2), andb_true_r. unfold is_digit, in_range in H1.
  apply andb_true_iff in H1. destruct H1 as [A B]. apply N.leb_le in A. apply N.leb_le in B. apply negb_true_iff. apply N.eqb_neq. lia.
Qed.

Section QuietHead.
  Variable fl : lang.
  Variable st' : stmt.
  Let wl := stmt_words st'.
  Let WO : words_ok wl = true := stmt_words_ok st'.
  Let NE : wl <> [] := stmt_words_ne st'.

  Lemma quiet_word : forall K g Y, In K [K_TOP; K_DISTINCT; K_COUNT; K_SET; K_ASC; K_DESC] ->
    quiet fl wl (sps g ++ K ++ Y) = quiet fl wl Y.
  Proof.
    intros K g Y H. apply (quiet_token fl wl K g Y WO NE); [|apply inert_word; exact H].
    cbn [In] in H. destruct H as [<-|[<-|[<-|[<-|[<-|[<-|[]]]]]]]; reflexivity.
  Qed.

  Lemma quiet_dist : forall s q d c sel a, quiet fl wl (SP :: sel) = true ->
    quiet fl wl (sps (S a) ++ dist_part (canon s q) d c ++ sel) = true.
  Proof.
    intros s q d c sel a Q. unfold dist_part. cbn [canon s_dist s_dist_g s_count s_dist_sp]. destruct d; [destruct c|].
    - rewrite <- !app_assoc. rewrite quiet_word by (cbn; tauto). rewrite quiet_word by (cbn; tauto). apply quiet_sps; assumption.
    - cbn [app]. rewrite <- !app_assoc. rewrite quiet_word by (cbn; tauto). apply quiet_sps; assumption.
    - cbn [app]. apply quiet_sps; assumption.
  Qed.

  Lemma quiet_head : forall s q a, 
    (match q_kind q with QSelect top _ _ sel => top_ok top = true /\ quiet fl wl (SP :: sel) = true
                       | QUpdate asg => quiet fl wl (SP :: asg) = true end) ->
    quiet fl wl (sps (S a) ++ head_text (canon s q) (q_kind q)) = true.
  Proof.
    intros s q a H. destruct (q_kind q) as [top d c sel|asg]; cbn [head_text].
    - destruct H as [T Q]. destruct top as [ds|]; cbn [top_part canon s_top s_top_g s_top_sp].
      + cbn [top_ok] in T. apply andb_true_iff in T. destruct T as [N D]. rewrite <- !app_assoc.
        rewrite quiet_word by (cbn; tauto). destruct ds as [|d0 ds]; [discriminate N|].
        rewrite (quiet_token fl wl (d0 :: ds) _ _ WO NE (digits_nosp _ D)).
        * apply quiet_dist. exact Q.
        * apply inert_digits. cbn [forallb] in D. apply andb_true_iff in D. exact (proj1 D).
      + cbn [app]. apply quiet_dist. exact Q.
    - cbn [canon s_set s_set_w s_set_sp]. destruct (s_set s).
      + rewrite <- !app_assoc. rewrite quiet_word by (cbn; tauto). apply quiet_sps; assumption.
      + cbn [app]. apply quiet_sps; assumption.
  Qed.

  Lemma quiet_order : forall t g K, In K [K_ASC; K_DESC] -> quiet fl wl (SP :: t) = true ->
    quiet fl wl (SP :: t ++ sps (S g) ++ K) = true.
  Proof.
    intros t g K H Q. change (SP :: t ++ sps (S g) ++ K) with ((SP :: t) ++ SP :: (sps g ++ K)).
    apply quiet_app_sp; [apply words_ok_letters; exact WO | exact Q|].
    change (SP :: sps g ++ K) with (sps (S g) ++ K). rewrite <- (app_nil_r K) at 1.
    rewrite quiet_word by (cbn [In] in *; tauto). reflexivity.
  Qed.
End QuietHead.

Lemma quiet_all_intro : forall fl wf T,
  (forall st', (wf = false -> st' <> FROM) -> quiet fl (stmt_words st') (SP :: T) = true) -> quiet_all fl wf T = true.
Proof.
  intros fl wf T H. unfold quiet_all. apply forallb_forall. intros st' I. apply H. intros -> ->.
  cbn in I. repeat (destruct I as [I|I]; [discriminate I|]). exact I.
Qed.

(* ------------------------------------------------------------------ the clauses of the canonical and of the actual spelling *)
Lemma st_of_canon : forall s q k, st_of (canon s q) q k = st_of s q k.
Proof. intros s q k. destruct k; reflexivity. Qed.

Definition gk (k : ck) : nat :=
  match k with CJoin => 0 | COrder => 2 | CWhere => 3 | CGroup => 5 | CLimit => 6 | CExcept => 7 | CFrom => 8 end.
Lemma gid_st_of : forall s q k, gid (st_of s q k) = gk k.
Proof.
  intros s q k. destruct k; try reflexivity. cbn [st_of]. destruct (q_join q) as [[[| |] t]|]; cbn [jstmt]; try reflexivity.
  - destruct (s_inner s); reflexivity.
  - destruct (s_outer s); reflexivity.
Qed.

Lemma gids_nodup : forall s q, NoDup (s_order s) ->
  NoDup (map gid (head_st (q_kind q) :: map rc_st (map (rcl_of (canon s q) q) (s_order s)))).
Proof.
  intros s q N. rewrite map_map. cbn [map].
  assert (E : map gid (map (fun k => rc_st (rcl_of (canon s q) q k)) (s_order s)) = map gk (s_order s)).
  { rewrite map_map. apply map_ext. intro k. cbn [rcl_of rc_st]. rewrite st_of_canon. apply gid_st_of. }
  rewrite E. constructor.
  - intro I. apply in_map_iff in I. destruct I as [k [G _]]. destruct k, (q_kind q); discriminate G.
  - apply Injective_map_NoDup; [|exact N]. intros a b G. destruct a, b; try reflexivity; discriminate G.
Qed.

Lemma txt_of_rel : forall s q k, case_rel (dir_word q) (s_dir_w s) -> case_rel (txt_of (canon s q) q k) (txt_of s q k).
Proof.
  intros s q k CD. destruct k; try apply case_rel_refl. cbn [txt_of canon s_dir_w s_asc s_dir_g]. unfold order_txt.
  destruct (q_order q) as [[t d]|]; [|constructor]. apply case_rel_app; [apply case_rel_refl|].
  destruct (d || s_asc s); [|constructor]. apply case_rel_app; [apply case_rel_refl | exact CD].
Qed.

Lemma cls_rel : forall s q, sigma_ok s q ->
  Forall2 rcl_rel (map (rcl_of (canon s q) q) (s_order s)) (map (rcl_of s q) (s_order s)).
Proof.
  intros s q [_ [_ [WS [_ [_ CD]]]]].
  assert (G : forall l, (forall k, In k l -> In k (s_order s)) -> Forall2 rcl_rel (map (rcl_of (canon s q) q) l) (map (rcl_of s q) l)).
  { induction l as [|k l IH]; intro H; [constructor|]. cbn [map]. constructor.
    - unfold rcl_rel. cbn [rcl_of rc_st rc_ws rc_lead rc_gaps rc_sp rc_txt canon s_ws s_lead s_gaps s_sp].
      split; [apply st_of_canon|]. split; [apply WS, H; left; reflexivity|].
      split; [reflexivity|]. split; [reflexivity|]. split; [reflexivity|]. apply txt_of_rel. exact CD.
    - apply IH. intros k' I. apply H. right. exact I. }
  apply G. intros k I. exact I.
Qed.

Lemma head_text_rel : forall s q, head_words_ok s -> case_rel (head_text (canon s q) (q_kind q)) (head_text s (q_kind q)).
Proof.
  intros s q [CT [CD [CC CS]]]. destruct (q_kind q) as [top d c sel|asg]; cbn [head_text].
  - apply case_rel_app; [|apply case_rel_app; [|apply case_rel_refl]].
    + unfold top_part. cbn [canon s_top s_top_g s_top_sp]. destruct top as [ds|]; [|constructor].
      apply case_rel_app; [exact CT | apply case_rel_refl].
    + unfold dist_part. cbn [canon s_dist s_dist_g s_count s_dist_sp]. destruct d; [|constructor].
      apply case_rel_app; [exact CD|]. apply case_rel_app; [|apply case_rel_refl].
      destruct c; [|constructor]. apply case_rel_app; [apply case_rel_refl | exact CC].
  - cbn [canon s_set s_set_w s_set_sp]. apply case_rel_app; [|apply case_rel_refl]. destruct (s_set s); [|constructor].
    apply case_rel_app; [exact CS | apply case_rel_refl].
Qed.

(* ------------------------------------------------------------------ locate_statements on the rendered query *)
Lemma wf_parts : forall fl wf q, wf_aq fl wf q = true ->
  head_ok fl wf (q_kind q) = true /\ (forall k, kind_ok fl wf q k = true) /\ (wf = false -> q_from q = None).
Proof.
  intros fl wf q H. unfold wf_aq in H. apply andb_true_iff in H. destruct H as [H H3]. apply andb_true_iff in H. destruct H as [H1 H2].
  split; [exact H1|]. split.
  - intro k. rewrite forallb_forall in H2. apply H2. destruct k; cbn; tauto.
  - intros ->. cbn [orb] in H3. destruct (q_from q); [discriminate H3 | reflexivity].
Qed.

Lemma head_sel_quiet : forall fl wf q st', head_ok fl wf (q_kind q) = true -> (wf = false -> st' <> FROM) ->
  match q_kind q with QSelect top _ _ sel => top_ok top = true /\ quiet fl (stmt_words st') (SP :: sel) = true
                    | QUpdate asg => quiet fl (stmt_words st') (SP :: asg) = true end.
Proof.
  intros fl wf q st' H NF. destruct (q_kind q) as [top d c sel|asg]; cbn [head_ok] in H.
  - apply andb_true_iff in H. destruct H as [H _]. apply andb_true_iff in H. destruct H as [H _]. apply andb_true_iff in H.
    destruct H as [H1 H2]. split; [exact H2|]. apply (quiet_all_spec fl wf sel (clause_ok_quiet _ _ _ H1) st' NF).
  - apply andb_true_iff in H. destruct H as [H1 _]. apply (quiet_all_spec fl wf asg (clause_ok_quiet _ _ _ H1) st' NF).
Qed.

Lemma canon_txt_quiet : forall fl wf s q k, present q k = true -> kind_ok fl wf q k = true ->
  quiet_all fl wf (txt_of (canon s q) q k) = true.
Proof.
  intros fl wf s q k P K. destruct k; cbn [present kind_ok txt_of] in *.
  - destruct (q_join q) as [[jk t]|]; [|discriminate P]. apply clause_ok_quiet in K. exact K.
  - cbn [canon s_dir_w s_asc s_dir_g]. unfold order_txt, dir_word. destruct (q_order q) as [[t d]|]; [|discriminate P].
    apply andb_true_iff in K. destruct K as [K _]. apply clause_ok_quiet in K.
    destruct (d || s_asc s); [|rewrite app_nil_r; exact K].
    apply quiet_all_intro. intros st' NF. apply quiet_order; [destruct d; cbn; tauto|]. apply (quiet_all_spec fl wf t K st' NF).
  - destruct (q_where q); [|discriminate P]. apply clause_ok_quiet in K. exact K.
  - destruct (q_group q); [|discriminate P]. apply clause_ok_quiet in K. exact K.
  - destruct (q_limit q); [|discriminate P]. apply clause_ok_quiet in K. exact K.
  - destruct (q_except q); [|discriminate P]. apply clause_ok_quiet in K. exact K.
  - destruct (q_from q); [|discriminate P]. apply clause_ok_quiet in K. exact K.
Qed.

Definition target_of (s : sigma) (q : aq) : list loc :=
  target (head_st (q_kind q)) (s_hw s) (s_hk s) (head_text s (q_kind q)) (map (rcl_of s q) (s_order s)).

Theorem locate_rendered : forall fl wf s q, wf_aq fl wf q = true -> sigma_ok s q ->
  locate_statements fl wf (render s q) = Ok (target_of s q).
Proof.
  intros fl wf s q W SO. destruct (wf_parts fl wf q W) as [WH [WK WF]]. pose proof SO as [ND [PR [WS [CH [HW CD]]]]].
  pose proof (cls_rel s q SO) as CR. pose proof (head_text_rel s q HW) as HR.
  unfold render, target_of.
  rewrite <- (locate_case_invariant fl wf _ _ (render_q_rel _ _ (s_hk s) _ _ _ _ CH HR CR)).
  rewrite <- (target_rel (head_st (q_kind q)) _ _ (s_hk s) _ _ _ _ CH HR CR).
  apply locate_render.
  - destruct (q_kind q); reflexivity.
  - apply Forall_forall. intros c I. apply in_map_iff in I. destruct I as [k [<- _]]. unfold canonical.
    cbn [rcl_of rc_ws rc_st canon s_ws]. rewrite st_of_canon. reflexivity.
  - apply gids_nodup. exact ND.
  - intros ->. split; [destruct (q_kind q); discriminate|]. apply Forall_forall. intros c I. apply in_map_iff in I.
    destruct I as [k [<- Ik]]. cbn [rcl_of rc_st]. rewrite st_of_canon. apply PR in Ik.
    destruct k; try (cbn [st_of]; discriminate).
    + cbn [st_of]. destruct (q_join q) as [[[| |] t]|]; cbn [jstmt]; try discriminate; [destruct (s_inner s) | destruct (s_outer s)]; discriminate.
    + cbn [present] in Ik. rewrite (WF eq_refl) in Ik. discriminate Ik.
  - apply quiet_all_intro. intros st' NF.
    apply (quiet_head fl st' s q 0). apply (head_sel_quiet fl wf q st' WH NF).
  - apply Forall_forall. intros c I. apply in_map_iff in I. destruct I as [k [<- Ik]]. cbn [rcl_of rc_txt].
    apply canon_txt_quiet; [apply PR; exact Ik | apply WK].
Qed.
Print Assumptions locate_rendered.

(* ------------------------------------------------------------------ the last text of the query *)
Lemma edge_end_ok : forall fl T, edge_ok fl T = true -> end_ok T = true.
Proof. intros fl T E. destruct (last_nonsp fl T E) as [d [R [RV N]]]. unfold end_ok. rewrite RV, N. reflexivity. Qed.

Lemma wt_ok_app : forall A T, end_ok T = true -> wt_ok T = true -> wt_ok (A ++ T) = true.
Proof.
  intros A T E W. unfold wt_ok, end_ok in *. rewrite rev_app_distr. destruct (rev T) as [|c r1]; [discriminate E|].
  cbn [app]. destruct (N.eqb c RPAR); [|reflexivity]. destruct (span_by is_lower r1) as [nm r2] eqn:S.
  destruct r2 as [|d r2]; [discriminate W|]. rewrite (span_by_stop is_lower r1 nm d r2 _ S). exact W.
Qed.

Lemma word_last_letter : forall K w, case_rel K w -> letters K = true -> K <> [] ->
  exists c x, rev w = c :: x /\ is_alpha c = true.
Proof.
  intros K w C L NE. pose proof (letters_rev w (case_rel_letters K w C L)) as LW. destruct (rev w) as [|c x] eqn:RW.
  - exfalso. apply NE. destruct C as [|k c K' w' Hc Hr]; [reflexivity|]. cbn [rev] in RW. destruct (rev w'); discriminate RW.
  - exists c, x. split; [reflexivity|]. unfold letters in LW. cbn [forallb] in LW. apply andb_true_iff in LW. exact (proj1 LW).
Qed.

Lemma ends_with_word : forall K w A, case_rel K w -> letters K = true -> K <> [] ->
  end_ok (A ++ w) = true /\ wt_ok (A ++ w) = true.
Proof.
  intros K w A C L NE. destruct (word_last_letter K w C L NE) as [c [x [RW AL]]]. unfold end_ok, wt_ok.
  rewrite rev_app_distr, RW. cbn [app]. rewrite (alpha_is_sp c AL). split; [reflexivity|].
  destruct (N.eqb_spec c RPAR) as [->|]; [discriminate AL | reflexivity].
Qed.

Lemma final_txt_ok : forall fl wf s q k, present q k = true -> kind_ok fl wf q k = true -> case_rel (dir_word q) (s_dir_w s) ->
  end_ok (txt_of s q k) = true /\ wt_ok (txt_of s q k) = true.
Proof.
  intros fl wf s q k P K CD.
  assert (G : forall t, clause_ok fl wf t = true -> end_ok t = true /\ wt_ok t = true).
  { intros t H. split; [apply (edge_end_ok fl), (clause_ok_edge fl wf); exact H | apply (clause_ok_wt fl wf); exact H]. }
  destruct k; cbn [present kind_ok txt_of] in *.
  - destruct (q_join q) as [[jk t]|]; [|discriminate P]. apply G. exact K.
  - unfold order_txt. unfold dir_word in CD. destruct (q_order q) as [[t d]|]; [|discriminate P].
    apply andb_true_iff in K. destruct K as [K _]. destruct (d || s_asc s); [|rewrite app_nil_r; apply G; exact K].
    rewrite app_assoc. destruct d; [apply (ends_with_word K_DESC) | apply (ends_with_word K_ASC)]; try exact CD; try reflexivity; discriminate.
  - destruct (q_where q); [|discriminate P]. apply G. exact K.
  - destruct (q_group q); [|discriminate P]. apply G. exact K.
  - destruct (q_limit q); [|discriminate P]. apply G. exact K.
  - destruct (q_except q); [|discriminate P]. apply G. exact K.
  - destruct (q_from q); [|discriminate P]. apply G. exact K.
Qed.

Lemma final_head_ok : forall fl wf s k, head_ok fl wf k = true ->
  end_ok (head_text s k) = true /\ wt_ok (head_text s k) = true.
Proof.
  intros fl wf s k H.
  assert (G : forall A t, clause_ok fl wf t = true -> end_ok (A ++ t) = true /\ wt_ok (A ++ t) = true).
  { intros A t C. pose proof (edge_end_ok fl t (clause_ok_edge fl wf t C)) as E.
    split; [apply end_ok_app; exact E | apply wt_ok_app; [exact E | apply (clause_ok_wt fl wf); exact C]]. }
  destruct k as [top d c sel|asg]; cbn [head_ok head_text] in *.
  - apply andb_true_iff in H. destruct H as [H _]. apply andb_true_iff in H. destruct H as [H _]. apply andb_true_iff in H.
    destruct H as [H _]. rewrite app_assoc. apply G. exact H.
  - apply andb_true_iff in H. destruct H as [H _]. apply G. exact H.
Qed.

(* ------------------------------------------------------------------ the main theorem *)
Lemma word_first : forall K w, case_rel K w -> letters K = true -> K <> [] -> exists c t, w = c :: t /\ is_sp c = false.
Proof.
  intros K w C L NE. destruct C as [|k c K' w' Hc Hr]; [contradiction|]. exists c, w'. split; [reflexivity|].
  unfold letters in L. cbn [forallb] in L. apply andb_true_iff in L. destruct L as [L _].
  destruct Hc as [<-|[_ [Hc _]]]; apply alpha_is_sp; assumption.
Qed.

Lemma render_edges : forall fl wf s q, wf_aq fl wf q = true -> sigma_ok s q ->
  strip_sp (render s q) = render s q /\ with_match fl (render s q) = None.
Proof.
  intros fl wf s q W SO. destruct (wf_parts fl wf q W) as [WH [WK WF]]. pose proof SO as [ND [PR [WS [CH [HW CD]]]]].
  destruct (render_q_last (s_hw s) (s_hk s) (head_text s (q_kind q)) (map (rcl_of s q) (s_order s))) as [pre [T [E H]]].
  assert (TK : end_ok T = true /\ wt_ok T = true).
  { destruct H as [[-> _]|[c [I ->]]]; [apply (final_head_ok fl wf); exact WH|].
    apply in_map_iff in I. destruct I as [k [<- Ik]]. cbn [rcl_of rc_txt].
    apply (final_txt_ok fl wf); [apply PR; exact Ik | apply WK | exact CD]. }
  destruct TK as [TE TW]. unfold render. rewrite E. split; [|apply with_match_none; assumption].
  assert (HD : exists c t, pre ++ SP :: T = c :: t /\ is_sp c = false).
  { rewrite <- E. unfold render_q.
    destruct (word_first (head_word (q_kind q)) (s_hw s) CH) as [c [t [EW NS]]]; [destruct (q_kind q); reflexivity | destruct (q_kind q); discriminate|].
    rewrite EW. exists c. eexists. split; [reflexivity | exact NS]. }
  destruct HD as [c [t [E2 NS]]]. apply (strip_sp_id _ c t E2 NS).
  change (pre ++ SP :: T) with (pre ++ [SP] ++ T). rewrite app_assoc. apply end_ok_app. exact TE.
Qed.

Theorem token_spelling : forall fl with_from s q, wf_aq fl with_from q = true -> sigma_ok s q ->
  separate_actions fl with_from (render s q) = Ok (actions_of s q).
Proof.
  intros fl wf s q W SO. destruct (render_edges fl wf s q W SO) as [SS WM].
  destruct (wf_parts fl wf q W) as [WH [WK WF]]. pose proof SO as [ND [PR [WS [CH [HW CD]]]]].
  unfold separate_actions. rewrite SS, WM. rewrite (locate_rendered fl wf s q W SO).
  unfold target_of, render. rewrite process_query. rewrite (apply_head fl wf s (q_kind q) _ _ WH HW).
  rewrite (proc_cls_put fl wf s q CD).
  2:{ intros k Ik. split; [apply PR; exact Ik | apply WK]. }
  change (head_put (q_kind q) (mkActions None None None false false None None None None None None None None))
    with (head_put (q_kind q) acc0).
  rewrite (fold_put_all s q (s_order s) PR). unfold actions_of. cbn [a_select a_update].
  destruct (q_kind q); reflexivity.
Qed.
Print Assumptions token_spelling.
