(* Entry.v — the single entry point of the executable model, over the universal value [sx].
   dispatch code arg: the code selects the entry point; each area owns its own Entry<Area>.v.
   Used identically by the extracted OCaml binary and by generated cases files (Eval vm_compute).
   Code ranges: 17 Like; 100-199 Csv; 200-249 Reader (py + js + utf8; 230-239 text layer); 250-259 reader spec + splitter + writer; 300-499 Engine; 500-599 Parser/Header (560-561 JsKey/Utf16, 565-566 JsSort, 570 NumLit); 600-699 Frontends/Isolation *)
From RBQL Require Import Base Sx EntryLike EntryCsv EntryReader EntryTextLayer EntryTable EntryEngine EntryParser EntryHeader EntryHeaderJs EntryJoin EntryFront EntryJsKey EntryNumLit EntryJsSort.
From RBQL Require Import EntryVarSpell.     (* 535-537 variable spellings (C08) *)
From RBQL Require Import EntryStatic2.      (* 330 static phase of a query (C14) *)
From RBQL Require Import EntryCli.          (* 610 command-line outcome function (C13) *)

Definition first_some (l : list (option sx)) : sx :=
  match flat_map (fun o => match o with Some v => [v] | None => [] end) l with
  | v :: _ => v
  | [] => ERR
  end.

Definition dispatch (code : N) (x : sx) : sx :=
  first_some [dispatch_like code x; dispatch_csv code x; dispatch_reader code x; dispatch_textlayer code x; dispatch_table code x;
              dispatch_engine code x; dispatch_parser code x; dispatch_header code x; dispatch_headerjs code x; dispatch_join code x; dispatch_front code x; dispatch_jskey code x; dispatch_numlit code x; dispatch_jssort code x;
              dispatch_varspell code x; dispatch_static2 code x; dispatch_cli code x].
