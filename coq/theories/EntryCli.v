(* EntryCli.v — entry point of the command-line outcome function (Frontends.cli_outcome), code 610.
   Used by the command-line legs of C13 (harness/props/c13js.py): the expected exit status, stdout lines and stderr
   lines (the `Error [type]: ` line with the label of the failure class, the `Warning: ` lines) come from the function
   that C13_cli_success / C13_cli_failure are about. *)
From RBQL Require Import Base Sx Frontends.

Definition eclass4_of_N (n : N) : option eclass4 :=
  match n with
  | 0%N => Some EParsing
  | 1%N => Some ERuntime
  | 2%N => Some EIO
  | 3%N => Some EOtherErr
  | _ => None
  end.

Definition sx_of_cli_out (o : cli_out) : sx :=
  L [sx_of_nat (exit_code o); sx_of_list sx_of_str (stdout_lines o); sx_of_list sx_of_str (stderr_lines o)].

(* 610: cli_outcome
     arg = L [A 0; table lines; warning texts]            (the query succeeded)
         | L [A 1; A class; message; emitted lines]       (the query failed; class 0 parsing, 1 execution, 2 IO handling, 3 unexpected)
     ->    L [A exit_code; L stdout lines; L stderr lines] *)
Definition ep_cli_outcome (x : sx) : sx :=
  match x with
  | L [A 0%N; t; w] =>
      match list_of_sx str_of_sx t, list_of_sx str_of_sx w with
      | Some table, Some warns => sx_of_cli_out (cli_outcome (QOk table warns))
      | _, _ => ERR
      end
  | L [A 1%N; A c; m; e] =>
      match eclass4_of_N c, str_of_sx m, list_of_sx str_of_sx e with
      | Some cl, Some msg, Some emitted => sx_of_cli_out (cli_outcome (QFail cl msg emitted))
      | _, _, _ => ERR
      end
  | _ => ERR
  end.

Definition dispatch_cli (code : N) (x : sx) : option sx :=
  match code with
  | 610%N => Some (ep_cli_outcome x)
  | _ => None
  end.
