(* Csv_Proofs.v — lemmas about the CSV line dialect model (Csv.v) and its specification (CsvSpec.v). *)
From RBQL Require Import Base Csv CsvSpec.

Lemma smart_split_monocolumn dlm pr line : smart_split Monocolumn dlm pr line = ([line], false).
Proof. reflexivity. Qed.
