(* Csv_Proofs.v — lemmas about the CSV line dialect model (Csv.v) and its specification (CsvSpec.v). *)
From RBQL Require Import Base Csv CsvSpec CsvStr_Proofs.

Lemma smart_split_monocolumn dlm pr line : smart_split Monocolumn dlm pr line = ([line], false).
Proof. reflexivity. Qed.

(* ================================================================ scanners *)

Definition not_q_head (r : str) : Prop := match r with c :: _ => c <> QT | [] => True end.
Definition not_sp_head (r : str) : Prop := match r with c :: _ => c <> SP | [] => True end.

Lemma neqb_neq (a b : N) : a <> b -> N.eqb a b = false.
Proof. intros H. apply N.eqb_neq. exact H. Qed.

Lemma skip_sp_app sp r : spaces sp -> not_sp_head r -> skip_sp (sp ++ r) = (sp, r).
Proof.
  induction sp as [|c sp IH]; intros Hs Hr.
  - cbn [app]. destruct r as [|c r]; [reflexivity|]. cbn in Hr. cbn [skip_sp]. rewrite (neqb_neq _ _ Hr). reflexivity.
  - inversion Hs as [|x l Hx Hl]; subst. cbn [app skip_sp]. rewrite N.eqb_refl. rewrite IH by assumption. reflexivity.
Qed.

Lemma skip_sp_spec s : forall a r, skip_sp s = (a, r) -> s = a ++ r /\ spaces a /\ not_sp_head r.
Proof.
  induction s as [|c s IH]; intros a r H; cbn [skip_sp] in H.
  - injection H as <- <-. split; [reflexivity|]. split; [constructor|exact I].
  - destruct (N.eqb c SP) eqn:E.
    + destruct (skip_sp s) as [a0 r0] eqn:S. injection H as <- <-.
      destruct (IH _ _ eq_refl) as [-> [Hs Hn]]. apply N.eqb_eq in E. subst c.
      split; [reflexivity|]. split; [constructor; [reflexivity|exact Hs]|exact Hn].
    + injection H as <- <-. split; [reflexivity|]. split; [constructor|].
      cbn. intros ->. rewrite N.eqb_refl in E. discriminate.
Qed.

(* unfolding equations of qscan *)
Lemma qscan_nil : qscan [] = None.
Proof. reflexivity. Qed.
Lemma qscan_nq c t : c <> QT ->
  qscan (c :: t) = match qscan t with Some (b, r) => Some (c :: b, r) | None => None end.
Proof. intros H. cbn [qscan]. rewrite (neqb_neq _ _ H). reflexivity. Qed.
Lemma qscan_qq t : qscan (QT :: QT :: t) = match qscan t with Some (b, r) => Some (QT :: QT :: b, r) | None => Some ([], QT :: t) end.
Proof. reflexivity. Qed.
Lemma qscan_q_end : qscan [QT] = Some ([], []).
Proof. reflexivity. Qed.
Lemma qscan_q_nq c t : c <> QT -> qscan (QT :: c :: t) = Some ([], c :: t).
Proof. intros H. cbn [qscan]. rewrite N.eqb_refl. rewrite (neqb_neq _ _ H). reflexivity. Qed.

(* completeness: a well-formed body followed by a closing quote that is not followed by a quote is THE match *)
Lemma qscan_wf raw u : QBody raw u -> forall rest, not_q_head rest -> qscan (raw ++ QT :: rest) = Some (raw, rest).
Proof.
  induction 1 as [|c raw u Hc Hb IH|raw u Hb IH]; intros rest Hr.
  - cbn [app]. destruct rest as [|c2 t2]; [apply qscan_q_end|]. apply qscan_q_nq. exact Hr.
  - cbn [app]. rewrite (qscan_nq _ _ Hc). rewrite (IH rest Hr). reflexivity.
  - cbn [app]. rewrite qscan_qq. rewrite (IH rest Hr). reflexivity.
Qed.

(* soundness: whatever qscan returns is a well-formed body followed by a quote *)
Lemma qscan_sound_n n : forall s raw r, (length s <= n)%nat -> qscan s = Some (raw, r) ->
  s = raw ++ QT :: r /\ exists u, QBody raw u.
Proof.
  induction n as [|n IH]; intros s raw r Hl H.
  - destruct s; [discriminate|cbn in Hl; lia].
  - destruct s as [|c t]; [discriminate|]. destruct (N.eqb c QT) eqn:E.
    + apply N.eqb_eq in E. subst c. destruct t as [|c2 t2].
      * rewrite qscan_q_end in H. injection H as <- <-. split; [reflexivity|exists []; apply QB_nil].
      * destruct (N.eqb c2 QT) eqn:E2.
        -- apply N.eqb_eq in E2. subst c2. rewrite qscan_qq in H. destruct (qscan t2) as [[b r0]|] eqn:Q.
           ++ injection H as <- <-. destruct (IH t2 b r0) as [-> [u Hu]]; [cbn in Hl; lia|exact Q|].
              split; [reflexivity|]. exists (QT :: u). apply QB_qq. exact Hu.
           ++ injection H as <- <-. split; [reflexivity|exists []; apply QB_nil].
        -- apply N.eqb_neq in E2. rewrite (qscan_q_nq _ _ E2) in H. injection H as <- <-.
           split; [reflexivity|exists []; apply QB_nil].
    + apply N.eqb_neq in E. rewrite (qscan_nq _ _ E) in H.
      destruct (qscan t) as [[b r0]|] eqn:Q; [|discriminate]. injection H as <- <-.
      destruct (IH t b r0) as [-> [u Hu]]; [cbn in Hl; lia|exact Q|].
      split; [reflexivity|]. exists (c :: u). apply QB_ch; assumption.
Qed.

Lemma qscan_sound s raw r : qscan s = Some (raw, r) -> s = raw ++ QT :: r /\ exists u, QBody raw u.
Proof. apply (qscan_sound_n (length s)). lia. Qed.

(* undouble inverts the body grammar *)
Lemma undouble_cons_nq c s : c <> QT -> undouble (c :: s) = c :: undouble s.
Proof. intros E. destruct s as [|b t]; [reflexivity|]. cbn [undouble]. rewrite (neqb_neq _ _ E). reflexivity. Qed.

Lemma undouble_pair s : undouble (QT :: QT :: s) = QT :: undouble s.
Proof. reflexivity. Qed.

Lemma undouble_qbody raw u : QBody raw u -> undouble raw = u.
Proof.
  induction 1 as [|c raw u Hc Hb IH|raw u Hb IH]; [reflexivity| |].
  - rewrite (undouble_cons_nq _ _ Hc), IH. reflexivity.
  - rewrite undouble_pair, IH. reflexivity.
Qed.

Lemma double_cons c f : double (c :: f) = (if N.eqb c QT then [QT; QT] else [c]) ++ double f.
Proof. reflexivity. Qed.

Lemma double_qbody f : QBody (double f) f.
Proof.
  induction f as [|c f IH]; [constructor|]. rewrite double_cons. destruct (N.eqb c QT) eqn:E.
  - apply N.eqb_eq in E. subst c. cbn [app]. apply QB_qq. exact IH.
  - apply N.eqb_neq in E. cbn [app]. apply QB_ch; assumption.
Qed.

Lemma undouble_double f : undouble (double f) = f.
Proof. apply undouble_qbody, double_qbody. Qed.

Lemma double_noquote f : has QT f = false -> double f = f.
Proof.
  induction f as [|c f IH]; intros H; [reflexivity|]. rewrite double_cons.
  unfold has in H. cbn [existsb] in H. apply orb_false_iff in H. destruct H as [H1 H2].
  rewrite N.eqb_sym in H1. rewrite H1. cbn [app]. f_equal. apply IH. exact H2.
Qed.

(* ================================================================ the regex match as a whole *)

Definition ext_of (dlm : str) : bool := negb (dlm_is_space dlm).

Lemma dlm_is_space_iff dlm : dlm_is_space dlm = true <-> dlm = [SP].
Proof. unfold dlm_is_space. apply str_eqb_eq. Qed.

Lemma ext_of_false dlm : ext_of dlm = false <-> dlm = [SP].
Proof. unfold ext_of. rewrite negb_false_iff. apply dlm_is_space_iff. Qed.

Lemma qtext_app (sp1 raw sp2 tail : str) :
  (sp1 ++ QT :: raw ++ QT :: sp2) ++ tail = sp1 ++ QT :: raw ++ QT :: sp2 ++ tail.
Proof. rewrite <- app_assoc. cbn [app]. rewrite <- app_assoc. reflexivity. Qed.

Lemma qmatch_complete ext sp1 raw u sp2 tail :
  spaces sp1 -> spaces sp2 -> QBody raw u -> (ext = false -> sp1 = [] /\ sp2 = []) ->
  not_q_head tail -> (ext = true -> not_sp_head tail) ->
  qmatch ext (sp1 ++ QT :: raw ++ QT :: sp2 ++ tail) = Some (sp1 ++ QT :: raw ++ QT :: sp2, raw, tail).
Proof.
  intros H1 H2 Hb He Hq Hs. unfold qmatch. destruct ext.
  - rewrite (skip_sp_app sp1 (QT :: raw ++ QT :: sp2 ++ tail) H1) by (cbn; discriminate).
    rewrite N.eqb_refl.
    assert (not_q_head (sp2 ++ tail)) as Hq2.
    { destruct sp2 as [|x sp2]; [exact Hq|]. inversion H2; subst. cbn. discriminate. }
    rewrite (qscan_wf raw u Hb _ Hq2). rewrite (skip_sp_app sp2 tail H2 (Hs eq_refl)). reflexivity.
  - destruct (He eq_refl) as [-> ->]. cbn [app]. rewrite N.eqb_refl.
    rewrite (qscan_wf raw u Hb _ Hq). reflexivity.
Qed.

Lemma qmatch_sound ext s g0 raw r : qmatch ext s = Some (g0, raw, r) ->
  s = g0 ++ r /\ exists sp1 sp2 u, g0 = sp1 ++ QT :: raw ++ QT :: sp2 /\ spaces sp1 /\ spaces sp2 /\ QBody raw u /\
                                   (ext = false -> sp1 = [] /\ sp2 = []).
Proof.
  unfold qmatch. intros H.
  destruct (if ext then skip_sp s else ([], s)) as [sp1 s1] eqn:E1.
  destruct s1 as [|c t]; [discriminate|]. destruct (N.eqb c QT) eqn:Ec; [|discriminate].
  apply N.eqb_eq in Ec. subst c. destruct (qscan t) as [[raw0 r0]|] eqn:Q; [|discriminate].
  destruct (if ext then skip_sp r0 else ([], r0)) as [sp2 r2] eqn:E2. injection H as <- <- <-.
  destruct (qscan_sound _ _ _ Q) as [Et [u Hu]]. subst t.
  destruct ext.
  - destruct (skip_sp_spec _ _ _ E1) as [Es [Hs1 _]]. destruct (skip_sp_spec _ _ _ E2) as [Er [Hs2 _]]. subst s r0.
    split; [symmetry; apply qtext_app|]. exists sp1, sp2, u. repeat split; try assumption; discriminate.
  - injection E1 as E1a E1b. injection E2 as E2a E2b. subst sp1 s sp2 r2. split; [cbn [app]; rewrite <- app_assoc; reflexivity|].
    exists [], [], u. repeat split; try assumption; constructor.
Qed.

(* ================================================================ good delimiters *)

Lemma good_quoted_dlm_facts dlm : good_quoted_dlm dlm = true ->
  exists c d, dlm = c :: d /\ c <> QT /\ has QT dlm = false /\ (ext_of dlm = true -> c <> SP).
Proof.
  unfold good_quoted_dlm. destruct dlm as [|c d]; [discriminate|]. intros H.
  apply andb_true_iff in H. destruct H as [H1 H2]. apply negb_true_iff in H1.
  exists c, d. split; [reflexivity|]. split.
  - intros ->. unfold has in H1. cbn [existsb] in H1. rewrite N.eqb_refl in H1. discriminate.
  - split; [exact H1|]. intros He. unfold ext_of in He. apply negb_true_iff in He. rewrite He in H2.
    rewrite orb_false_r in H2. apply negb_true_iff in H2. apply N.eqb_neq. exact H2.
Qed.

Lemma good_tail (dlm rest : str) : good_quoted_dlm dlm = true ->
  not_q_head (dlm ++ rest) /\ (ext_of dlm = true -> not_sp_head (dlm ++ rest)) /\ dlm <> [].
Proof.
  intros G. destruct (good_quoted_dlm_facts dlm G) as [c [d [-> [Hq [_ Hs]]]]].
  split; [exact Hq|]. split; [exact Hs|discriminate].
Qed.

Lemma qfield_ext (dlm sp1 sp2 : str) : (dlm = [SP] -> sp1 = [] /\ sp2 = []) -> (ext_of dlm = false -> sp1 = [] /\ sp2 = []).
Proof. intros H E. apply H. apply ext_of_false. exact E. Qed.

(* ================================================================ extract_next_field *)

Definition fld_of (pr : bool) (q u : str) : str := if pr then q else u.

(* Lemma A: at a quoted field followed by the end or by the delimiter *)
Lemma extract_quoted_last dlm pr q u : good_quoted_dlm dlm = true -> QField dlm q u ->
  extract_next_field dlm pr (ext_of dlm) q = ((true, fld_of pr q u), false, None).
Proof.
  intros G Hq. destruct Hq as [sp1 raw u sp2 H1 H2 He Hb].
  unfold extract_next_field.
  pose proof (qmatch_complete (ext_of dlm) sp1 raw u sp2 [] H1 H2 Hb (qfield_ext _ _ _ He) I (fun _ => I)) as M.
  rewrite app_nil_r in M. rewrite M. rewrite (undouble_qbody _ _ Hb). destruct pr; reflexivity.
Qed.

Lemma extract_quoted_more dlm pr q u rest : good_quoted_dlm dlm = true -> QField dlm q u ->
  extract_next_field dlm pr (ext_of dlm) (q ++ dlm ++ rest) = ((true, fld_of pr q u), false, Some rest).
Proof.
  intros G Hq. destruct Hq as [sp1 raw u sp2 H1 H2 He Hb].
  destruct (good_tail dlm rest G) as [T1 [T2 T3]].
  unfold extract_next_field. rewrite qtext_app.
  rewrite (qmatch_complete (ext_of dlm) sp1 raw u sp2 (dlm ++ rest) H1 H2 Hb (qfield_ext _ _ _ He) T1 T2).
  rewrite (undouble_qbody _ _ Hb). destruct (dlm ++ rest) as [|x y] eqn:E.
  - destruct dlm; [congruence|discriminate].
  - rewrite <- E. rewrite strip_prefix_app. destruct pr; reflexivity.
Qed.

(* a delimiter occurrence cannot start inside the leading spaces or at the opening quote *)
Lemma quote_before_dlm dlm sp1 x i : good_quoted_dlm dlm = true -> spaces sp1 -> (ext_of dlm = false -> sp1 = []) ->
  find dlm (sp1 ++ QT :: x) = Some i -> has QT (firstn i (sp1 ++ QT :: x)) = true.
Proof.
  intros G Hs He F. destruct (good_quoted_dlm_facts dlm G) as [c [d [Ed [Hq [_ Hsp]]]]].
  destruct (Nat.le_gt_cases i (length sp1)) as [Hle|Hgt].
  - exfalso. pose proof (find_some _ _ _ F) as E. pose proof (find_firstn_len _ _ _ F) as Hl.
    remember (sp1 ++ QT :: x) as s eqn:Es.
    assert (nth_error s i = Some c) as N1.
    { rewrite E. rewrite nth_error_app2 by lia. rewrite Hl, Nat.sub_diag. rewrite Ed. reflexivity. }
    subst s. destruct (Nat.eq_dec i (length sp1)) as [Ei|Hne].
    + subst i. rewrite nth_error_app2 in N1 by lia. rewrite Nat.sub_diag in N1. cbn in N1. injection N1 as N1. congruence.
    + rewrite nth_error_app1 in N1 by lia.
      assert (c = SP) as Ec. { apply nth_error_In in N1. unfold spaces in Hs. rewrite Forall_forall in Hs. apply Hs. exact N1. }
      subst c. destruct (ext_of dlm) eqn:Ee.
      * apply Hsp; reflexivity.
      * rewrite (He eq_refl) in Hle. cbn in Hle. rewrite (He eq_refl) in Hne. cbn in Hne. lia.
  - rewrite firstn_app. rewrite has_app. replace (i - length sp1)%nat with (S (i - length sp1 - 1)) by lia.
    cbn [firstn]. unfold has at 2. cbn [existsb]. rewrite N.eqb_refl. apply orb_true_r.
Qed.

Lemma quoted_start_qmatch dlm s : good_quoted_dlm dlm = true -> quoted_start dlm s ->
  exists q raw tail, qmatch (ext_of dlm) s = Some (q, raw, tail) /\ (tail = [] \/ exists rest, tail = dlm ++ rest).
Proof.
  intros G [q [u [rest [Hq Hs]]]]. destruct Hq as [sp1 raw u sp2 H1 H2 He Hb].
  destruct Hs as [->| ->].
  - exists (sp1 ++ QT :: raw ++ QT :: sp2), raw, []. split; [|left; reflexivity].
    pose proof (qmatch_complete (ext_of dlm) sp1 raw u sp2 [] H1 H2 Hb (qfield_ext _ _ _ He) I (fun _ => I)) as M.
    rewrite app_nil_r in M. exact M.
  - destruct (good_tail dlm rest G) as [T1 [T2 T3]].
    exists (sp1 ++ QT :: raw ++ QT :: sp2), raw, (dlm ++ rest). split; [|right; exists rest; reflexivity].
    rewrite qtext_app. apply (qmatch_complete (ext_of dlm) sp1 raw u sp2 (dlm ++ rest) H1 H2 Hb (qfield_ext _ _ _ He) T1 T2).
Qed.

(* the four ways extract_next_field can go, for a good delimiter *)
Lemma extract_cases dlm pr s : good_quoted_dlm dlm = true ->
  (exists q u, QField dlm q u /\ s = q /\
     extract_next_field dlm pr (ext_of dlm) s = ((true, fld_of pr q u), false, None)) \/
  (exists q u rest, QField dlm q u /\ s = q ++ dlm ++ rest /\
     extract_next_field dlm pr (ext_of dlm) s = ((true, fld_of pr q u), false, Some rest)) \/
  (~ quoted_start dlm s /\ find dlm s = None /\
     extract_next_field dlm pr (ext_of dlm) s = ((false, s), has QT s, None)) \/
  (exists i, ~ quoted_start dlm s /\ find dlm s = Some i /\
     extract_next_field dlm pr (ext_of dlm) s = ((false, firstn i s), has QT (firstn i s), Some (skipn (i + length dlm) s))).
Proof.
  intros G. unfold extract_next_field. cbv zeta.
  destruct (qmatch (ext_of dlm) s) as [[[g0 raw] r]|] eqn:M.
  - destruct (qmatch_sound _ _ _ _ _ M) as [Es [sp1 [sp2 [u [Eg [H1 [H2 [Hb He]]]]]]]].
    assert (QField dlm g0 u) as Hq.
    { rewrite Eg. constructor; try assumption. intros Ed. apply He. apply ext_of_false. exact Ed. }
    rewrite (undouble_qbody _ _ Hb).
    destruct r as [|x r'].
    + left. exists g0, u. rewrite app_nil_r in Es. split; [exact Hq|]. split; [exact Es|]. destruct pr; reflexivity.
    + destruct (strip_prefix dlm (x :: r')) as [r''|] eqn:P.
      * right. left. exists g0, u, r''. apply strip_prefix_some in P. split; [exact Hq|]. split; [rewrite Es, P; reflexivity|].
        destruct pr; reflexivity.
      * assert (~ quoted_start dlm s) as Hn.
        { intros QS. destruct (quoted_start_qmatch dlm s G QS) as [q' [raw' [tail [M' Ht]]]].
          rewrite M in M'. injection M' as _ _ Et. destruct Ht as [->|[rest ->]]; [discriminate|].
          rewrite Et in P. rewrite strip_prefix_app in P. discriminate. }
        assert (s = sp1 ++ QT :: (raw ++ QT :: sp2 ++ x :: r')) as Es2.
        { rewrite Es, Eg. apply qtext_app. }
        right. right. destruct (find dlm s) as [i|] eqn:F.
        -- right. exists i. split; [exact Hn|]. split; [reflexivity|].
           assert (has QT (firstn i s) = true) as Hh.
           { rewrite Es2. apply (quote_before_dlm dlm sp1 _ i G H1); [intros E0; apply (He E0)|]. rewrite <- Es2. exact F. }
           rewrite Hh. reflexivity.
        -- left. split; [exact Hn|]. split; [reflexivity|].
           assert (has QT s = true) as Hh.
           { apply in_has. rewrite Es2. apply in_or_app. right. left. reflexivity. }
           rewrite Hh. reflexivity.
  - assert (~ quoted_start dlm s) as Hn.
    { intros QS. destruct (quoted_start_qmatch dlm s G QS) as [q' [raw' [tail [M' _]]]]. congruence. }
    right. right. destruct (find dlm s) as [i|] eqn:F.
    + right. exists i. split; [exact Hn|]. split; reflexivity.
    + left. split; [exact Hn|]. split; reflexivity.
Qed.

(* Lemma B: where no quoted field starts, the field runs to the next delimiter *)
Lemma extract_unquoted dlm pr s : good_quoted_dlm dlm = true -> ~ quoted_start dlm s ->
  extract_next_field dlm pr (ext_of dlm) s =
  match find dlm s with
  | None => ((false, s), has QT s, None)
  | Some i => ((false, firstn i s), has QT (firstn i s), Some (skipn (i + length dlm) s))
  end.
Proof.
  intros G Hn. destruct (extract_cases dlm pr s G) as [[q [u [Hq [Es _]]]]|[[q [u [rest [Hq [Es _]]]]]|[[_ [F E]]|[i [_ [F E]]]]]].
  - exfalso. apply Hn. exists q, u, []. split; [exact Hq|left; exact Es].
  - exfalso. apply Hn. exists q, u, rest. split; [exact Hq|right; exact Es].
  - rewrite F. exact E.
  - rewrite F. exact E.
Qed.

(* ================================================================ the loop *)

Lemma sq_loop_nil f dlm pr ext : sq_loop (S f) dlm pr ext [] = ([(false, [])], false).
Proof. reflexivity. Qed.

Lemma sq_loop_S f dlm pr ext s : s <> [] ->
  sq_loop (S f) dlm pr ext s =
  (let '(fld, w, pos) := extract_next_field dlm pr ext s in
   match pos with
   | None => ([fld], w)
   | Some r => let '(fs, w') := sq_loop f dlm pr ext r in (fld :: fs, w || w')
   end).
Proof. destruct s; [congruence|reflexivity]. Qed.

Lemma dlm_len_pos (dlm : str) : dlm <> [] -> (length dlm > 0)%nat.
Proof. destruct dlm; [congruence|cbn; lia]. Qed.

(* model -> dialect *)
Lemma sq_loop_split dlm : good_quoted_dlm dlm = true -> forall fuel s t w, (length s < fuel)%nat ->
  sq_loop fuel dlm false (ext_of dlm) s = (t, w) -> Split dlm s (map snd t) w.
Proof.
  intros G. destruct (good_tail dlm [] G) as [_ [_ Hd]]. pose proof (dlm_len_pos dlm Hd) as Hdl.
  induction fuel as [|fuel IH]; intros s t w Hl H; [lia|].
  destruct s as [|c0 s0]; [rewrite sq_loop_nil in H; injection H as <- <-; apply Split_empty|].
  remember (c0 :: s0) as s eqn:Es. assert (s <> []) as Hne by (subst s; discriminate).
  rewrite (sq_loop_S _ _ _ _ _ Hne) in H.
  destruct (extract_cases dlm false s G) as [[q [u [Hq [E1 E]]]]|[[q [u [rest [Hq [E1 E]]]]]|[[Hn [F E]]|[i [Hn [F E]]]]]]; rewrite E in H.
  - injection H as <- <-. rewrite E1. apply Split_q_last. exact Hq.
  - destruct (sq_loop fuel dlm false (ext_of dlm) rest) as [fs w'] eqn:L. injection H as <- <-.
    rewrite E1. cbn [map snd fld_of orb]. apply Split_q_more; [exact Hq|]. apply (IH rest fs w'); [|exact L].
    rewrite E1 in Hl. rewrite !app_length in Hl. lia.
  - injection H as <- <-. cbn [map snd]. apply Split_u_last; [exact Hne|exact Hn|].
    intros [a [b Eo]]. exact (find_none _ _ F a b Eo).
  - destruct (sq_loop fuel dlm false (ext_of dlm) (skipn (i + length dlm) s)) as [fs w'] eqn:L. injection H as <- <-.
    pose proof (find_some _ _ _ F) as Eo. pose proof (find_prefix_exact _ _ _ F) as Fx. pose proof (find_some_len _ _ _ F) as Hlen.
    assert (Split dlm (skipn (i + length dlm) s) (map snd fs) w') as IHr.
    { apply (IH _ fs w'); [|exact L]. rewrite skipn_length. lia. }
    remember (firstn i s) as f eqn:Ef. remember (skipn (i + length dlm) s) as rest eqn:Er.
    cbn [map snd]. rewrite Eo. apply Split_u_more; [rewrite <- Eo; exact Hn|exact Fx|exact IHr].
Qed.

(* ================================================================ bare (quote-free) text *)

Lemma has_cons c a s : has c (a :: s) = N.eqb c a || has c s.
Proof. reflexivity. Qed.

Lemma has_cons_false c a s : has c (a :: s) = false -> a <> c /\ has c s = false.
Proof.
  rewrite has_cons. intros H. apply orb_false_iff in H. destruct H as [H1 H2]. split; [|exact H2].
  intros ->. rewrite N.eqb_refl in H1. discriminate.
Qed.

Lemma has_firstn_false c i s : has c s = false -> has c (firstn i s) = false.
Proof. intros H. rewrite <- (firstn_skipn i s) in H. rewrite has_app in H. apply orb_false_iff in H. apply H. Qed.

Lemma has_skipn_false c i s : has c s = false -> has c (skipn i s) = false.
Proof. intros H. rewrite <- (firstn_skipn i s) in H. rewrite has_app in H. apply orb_false_iff in H. apply H. Qed.

Lemma skip_sp_bare f tail : has QT f = false -> not_q_head tail -> not_sp_head tail ->
  not_q_head (snd (skip_sp (f ++ tail))).
Proof.
  induction f as [|a f IH]; intros Hf Hq Hs.
  - cbn [app]. destruct tail as [|c t]; [exact I|]. cbn [skip_sp]. cbn in Hs. rewrite (neqb_neq _ _ Hs). exact Hq.
  - apply has_cons_false in Hf. destruct Hf as [Ha Hf]. cbn [app skip_sp]. destruct (N.eqb a SP) eqn:E.
    + specialize (IH Hf Hq Hs). destruct (skip_sp (f ++ tail)) as [x y]. exact IH.
    + exact Ha.
Qed.

Lemma qmatch_bare_none ext f tail : has QT f = false -> not_q_head tail -> (ext = true -> not_sp_head tail) ->
  qmatch ext (f ++ tail) = None.
Proof.
  intros Hf Hq Hs. unfold qmatch. destruct ext.
  - pose proof (skip_sp_bare f tail Hf Hq (Hs eq_refl)) as H. destruct (skip_sp (f ++ tail)) as [sp1 s1]. cbn [snd] in H.
    destruct s1 as [|c t]; [reflexivity|]. cbn in H. rewrite (neqb_neq _ _ H). reflexivity.
  - destruct f as [|a f].
    + cbn [app]. destruct tail as [|c t]; [reflexivity|]. cbn in Hq. rewrite (neqb_neq _ _ Hq). reflexivity.
    + apply has_cons_false in Hf. destruct Hf as [Ha _]. cbn [app]. rewrite (neqb_neq _ _ Ha). reflexivity.
Qed.

(* extract_next_field on quote-free text, any non-empty delimiter, any ext *)
Lemma extract_noquote dlm pr ext s : has QT s = false ->
  extract_next_field dlm pr ext s =
  match find dlm s with
  | None => ((false, s), false, None)
  | Some i => ((false, firstn i s), false, Some (skipn (i + length dlm) s))
  end.
Proof.
  intros Hs. unfold extract_next_field. cbv zeta.
  pose proof (qmatch_bare_none ext s [] Hs I (fun _ => I)) as M. rewrite app_nil_r in M. rewrite M.
  destruct (find dlm s) as [i|]; [rewrite (has_firstn_false QT i s Hs)|rewrite Hs]; reflexivity.
Qed.

(* C11_fast_path: on a quote-free line the general loop computes src.split(dlm) *)
Lemma sq_loop_fast dlm pr ext : dlm <> [] -> forall fuel s, (length s < fuel)%nat -> has QT s = false ->
  sq_loop fuel dlm pr ext s = (map (fun f => (false, f)) (split_fuel fuel dlm s), false).
Proof.
  intros Hd. pose proof (dlm_len_pos dlm Hd) as Hdl.
  induction fuel as [|fuel IH]; intros s Hl Hs; [lia|].
  destruct s as [|c0 s0].
  - rewrite sq_loop_nil, split_fuel_S. destruct dlm; [congruence|]. reflexivity.
  - remember (c0 :: s0) as s eqn:Es. assert (s <> []) as Hne by (subst s; discriminate).
    rewrite (sq_loop_S _ _ _ _ _ Hne), split_fuel_S, (extract_noquote dlm pr ext s Hs).
    destruct (find dlm s) as [i|] eqn:F; [|reflexivity].
    pose proof (find_some_len _ _ _ F) as Hlen.
    rewrite IH; [reflexivity| |apply has_skipn_false; exact Hs]. rewrite skipn_length. lia.
Qed.

Lemma split_quoted_tagged_general dlm pr s : dlm <> [] ->
  split_quoted_tagged dlm pr s = sq_loop (S (length s)) dlm pr (ext_of dlm) s.
Proof.
  intros Hd. unfold split_quoted_tagged. destruct (has QT s) eqn:E; cbn [negb]; [reflexivity|].
  symmetry. unfold split. apply sq_loop_fast; [exact Hd|lia|exact E].
Qed.

Lemma split_quoted_str_general dlm pr s : dlm <> [] -> split_quoted_str dlm pr s = split_quoted_general dlm pr s.
Proof. intros Hd. unfold split_quoted_str, split_quoted_general. rewrite (split_quoted_tagged_general dlm pr s Hd). reflexivity. Qed.

Lemma fast_path dlm pr s : dlm <> [] -> has QT s = false -> split_quoted_general dlm pr s = (split dlm s, false).
Proof.
  intros Hd Hs. unfold split_quoted_general. change (negb (dlm_is_space dlm)) with (ext_of dlm).
  rewrite (sq_loop_fast dlm pr (ext_of dlm) Hd (S (length s)) s) by (try lia; exact Hs).
  rewrite map_map. cbn [snd]. rewrite map_id. reflexivity.
Qed.

(* ================================================================ dialect -> model *)

Lemma qfield_nonempty dlm q u : QField dlm q u -> q <> [].
Proof. intros [sp1 raw u' sp2 _ _ _ _]. destruct sp1; discriminate. Qed.

Lemma split_sq_loop dlm : good_quoted_dlm dlm = true -> forall s fs w, Split dlm s fs w ->
  forall fuel, (length s < fuel)%nat -> exists t, sq_loop fuel dlm false (ext_of dlm) s = (t, w) /\ map snd t = fs.
Proof.
  intros G. destruct (good_tail dlm [] G) as [_ [_ Hd]]. pose proof (dlm_len_pos dlm Hd) as Hdl.
  induction 1 as [|q u Hq|q u rest fs w Hq Hs IH|line Hne Hn Ho|f rest fs w Hn Hf Hs IH]; intros fuel Hl; (destruct fuel as [|fuel]; [lia|]).
  - exists [(false, [])]. split; reflexivity.
  - rewrite (sq_loop_S _ _ _ _ _ (qfield_nonempty _ _ _ Hq)), (extract_quoted_last dlm false q u G Hq).
    exists [(true, u)]. split; reflexivity.
  - assert (q ++ dlm ++ rest <> []) as Hne. { pose proof (qfield_nonempty _ _ _ Hq). destruct q; [congruence|discriminate]. }
    rewrite (sq_loop_S _ _ _ _ _ Hne), (extract_quoted_more dlm false q u rest G Hq).
    destruct (IH fuel) as [t [E1 E2]]; [rewrite !app_length in Hl; lia|]. rewrite E1.
    exists ((true, u) :: t). split; [reflexivity|]. cbn [map snd fld_of]. rewrite E2. reflexivity.
  - rewrite (sq_loop_S _ _ _ _ _ Hne), (extract_unquoted dlm false line G Hn).
    destruct (find dlm line) as [i|] eqn:F.
    + exfalso. apply Ho. exists (firstn i line), (skipn (i + length dlm) line). apply find_some. exact F.
    + exists [(false, line)]. split; reflexivity.
  - assert (f ++ dlm ++ rest <> []) as Hne. { destruct f; [destruct dlm; [congruence|discriminate]|discriminate]. }
    rewrite (sq_loop_S _ _ _ _ _ Hne), (extract_unquoted dlm false _ G Hn).
    rewrite (find_exact_extend dlm f rest Hf). rewrite firstn_app_exact, skipn_app_exact2.
    destruct (IH fuel) as [t [E1 E2]]; [rewrite !app_length in Hl; lia|]. rewrite E1.
    exists ((false, f) :: t). split; [reflexivity|]. cbn [map snd]. rewrite E2. reflexivity.
Qed.

(* C11_split_is_dialect *)
Theorem split_is_dialect dlm line fs w : good_quoted_dlm dlm = true ->
  (split_quoted_str dlm false line = (fs, w) <-> Split dlm line fs w).
Proof.
  intros G. destruct (good_tail dlm [] G) as [_ [_ Hd]].
  unfold split_quoted_str. rewrite (split_quoted_tagged_general dlm false line Hd). split.
  - destruct (sq_loop (S (length line)) dlm false (ext_of dlm) line) as [t w0] eqn:L. intros H. injection H as <- <-.
    apply (sq_loop_split dlm G (S (length line)) line t w0); [lia|exact L].
  - intros H. destruct (split_sq_loop dlm G line fs w H (S (length line))) as [t [E1 E2]]; [lia|].
    rewrite E1, E2. reflexivity.
Qed.

(* the dialect relation is a function of the line *)
Corollary Split_functional dlm line fs w fs' w' : good_quoted_dlm dlm = true ->
  Split dlm line fs w -> Split dlm line fs' w' -> fs = fs' /\ w = w'.
Proof.
  intros G H1 H2. apply (split_is_dialect dlm line fs w G) in H1. apply (split_is_dialect dlm line fs' w' G) in H2.
  rewrite H1 in H2. injection H2 as <- <-. split; reflexivity.
Qed.

Corollary Split_total dlm line : good_quoted_dlm dlm = true -> exists fs w, Split dlm line fs w.
Proof.
  intros G. destruct (split_quoted_str dlm false line) as [fs w] eqn:E. exists fs, w.
  apply (split_is_dialect dlm line fs w G). exact E.
Qed.

(* ================================================================ C11_warning_iff *)

Definition unq_with_quote (tf : bool * str) : bool := negb (fst tf) && has QT (snd tf).

Lemma sq_loop_warning dlm pr : good_quoted_dlm dlm = true -> forall fuel s t w,
  sq_loop fuel dlm pr (ext_of dlm) s = (t, w) -> w = existsb unq_with_quote t.
Proof.
  intros G. induction fuel as [|fuel IH]; intros s t w H.
  - cbn in H. injection H as <- <-. reflexivity.
  - destruct s as [|c0 s0]; [rewrite sq_loop_nil in H; injection H as <- <-; reflexivity|].
    remember (c0 :: s0) as s eqn:Es. assert (s <> []) as Hne by (subst s; discriminate).
    rewrite (sq_loop_S _ _ _ _ _ Hne) in H.
    destruct (extract_cases dlm pr s G) as [[q [u [Hq [E1 E]]]]|[[q [u [rest [Hq [E1 E]]]]]|[[Hn [F E]]|[i [Hn [F E]]]]]]; rewrite E in H.
    + injection H as <- <-. reflexivity.
    + destruct (sq_loop fuel dlm pr (ext_of dlm) rest) as [fs w'] eqn:L. injection H as <- <-.
      cbn [existsb unq_with_quote fst snd negb andb orb]. apply (IH _ _ _ L).
    + injection H as <- <-. cbn [existsb unq_with_quote fst snd negb andb]. rewrite orb_false_r. reflexivity.
    + destruct (sq_loop fuel dlm pr (ext_of dlm) (skipn (i + length dlm) s)) as [fs w'] eqn:L. injection H as <- <-.
      cbn [existsb unq_with_quote fst snd negb andb]. rewrite (IH _ _ _ L). reflexivity.
Qed.

Theorem warning_iff dlm pr line : good_quoted_dlm dlm = true ->
  (snd (split_quoted_tagged dlm pr line) = true <->
   exists f, In (false, f) (fst (split_quoted_tagged dlm pr line)) /\ has QT f = true).
Proof.
  intros G. destruct (good_tail dlm [] G) as [_ [_ Hd]].
  rewrite (split_quoted_tagged_general dlm pr line Hd).
  destruct (sq_loop (S (length line)) dlm pr (ext_of dlm) line) as [t w] eqn:L. cbn [fst snd].
  rewrite (sq_loop_warning dlm pr G _ _ _ _ L). rewrite existsb_exists. split.
  - intros [[b f] [Hin Hu]]. unfold unq_with_quote in Hu. cbn [fst snd] in Hu. apply andb_true_iff in Hu. destruct Hu as [Hb Hf].
    destruct b; [discriminate|]. exists f. split; assumption.
  - intros [f [Hin Hf]]. exists (false, f). split; [exact Hin|]. unfold unq_with_quote. cbn [fst snd negb andb]. exact Hf.
Qed.

(* the tagged split and the plain one list the same fields *)
Lemma split_quoted_str_tagged dlm pr line :
  split_quoted_str dlm pr line = (map snd (fst (split_quoted_tagged dlm pr line)), snd (split_quoted_tagged dlm pr line)).
Proof. unfold split_quoted_str. destruct (split_quoted_tagged dlm pr line). reflexivity. Qed.

(* ================================================================ C11_preserving_rejoin *)

Lemma extract_preserve_shape dlm ext s :
  match extract_next_field dlm true ext s with
  | ((_, f), _, None) => s = f
  | ((_, f), _, Some r) => s = f ++ dlm ++ r
  end.
Proof.
  unfold extract_next_field. cbv zeta.
  assert (match find dlm s with
          | Some i => s = firstn i s ++ dlm ++ skipn (i + length dlm) s
          | None => True end) as Hf.
  { destruct (find dlm s) as [i|] eqn:F; [apply find_some; exact F|exact I]. }
  destruct (qmatch ext s) as [[[g0 raw] r]|] eqn:M.
  - destruct (qmatch_sound _ _ _ _ _ M) as [Es _]. destruct r as [|x r'].
    + rewrite app_nil_r in Es. exact Es.
    + destruct (strip_prefix dlm (x :: r')) as [r''|] eqn:P.
      * apply strip_prefix_some in P. rewrite Es, P. reflexivity.
      * destruct (find dlm s); [exact Hf|reflexivity].
  - destruct (find dlm s); [exact Hf|reflexivity].
Qed.

Lemma sq_loop_rejoin dlm ext : dlm <> [] -> forall fuel s t w, (length s < fuel)%nat ->
  sq_loop fuel dlm true ext s = (t, w) -> join dlm (map snd t) = s /\ t <> [].
Proof.
  intros Hd. pose proof (dlm_len_pos dlm Hd) as Hdl.
  induction fuel as [|fuel IH]; intros s t w Hl H; [lia|].
  destruct s as [|c0 s0]; [rewrite sq_loop_nil in H; injection H as <- <-; split; [reflexivity|discriminate]|].
  remember (c0 :: s0) as s eqn:Es. assert (s <> []) as Hne by (subst s; discriminate).
  rewrite (sq_loop_S _ _ _ _ _ Hne) in H.
  pose proof (extract_preserve_shape dlm ext s) as Sh.
  destruct (extract_next_field dlm true ext s) as [[[tag f] w0] [r|]].
  - destruct (sq_loop fuel dlm true ext r) as [fs w'] eqn:L. injection H as <- <-.
    destruct (IH r fs w') as [J Hn]; [rewrite Sh in Hl; rewrite !app_length in Hl; lia|exact L|].
    split; [|discriminate]. cbn [map snd]. rewrite join_cons by (destruct fs; [congruence|discriminate]).
    rewrite J. symmetry. exact Sh.
  - injection H as <- <-. split; [|discriminate]. cbn [map snd join]. symmetry. exact Sh.
Qed.

Theorem preserving_rejoin dlm line : dlm <> [] -> join dlm (fst (split_quoted_str dlm true line)) = line.
Proof.
  intros Hd. rewrite split_quoted_str_tagged. cbn [fst]. rewrite (split_quoted_tagged_general dlm true line Hd).
  destruct (sq_loop (S (length line)) dlm true (ext_of dlm) line) as [t w] eqn:L. cbn [fst].
  apply (sq_loop_rejoin dlm (ext_of dlm) Hd _ _ _ _ (Nat.lt_succ_diag_r _) L).
Qed.

(* ================================================================ (d) the two ports quote identically (for C18) *)

Lemma quote_field_agree dlm f : quote_field_py dlm f = quote_field_js dlm f.
Proof.
  unfold quote_field_py, quote_field_js. destruct (has QT f) eqn:Hq; [rewrite orb_true_r; reflexivity|].
  rewrite orb_false_r. destruct (contains dlm f); [rewrite (double_noquote f Hq)|]; reflexivity.
Qed.

Lemma rfc_quote_field_agree dlm f : rfc_quote_field_py dlm f = rfc_quote_field_js dlm f.
Proof.
  unfold rfc_quote_field_py, rfc_quote_field_js. destruct (has QT f) eqn:Hq.
  - rewrite orb_true_r. reflexivity.
  - rewrite orb_false_r. destruct (contains dlm f || has LF f || has CR f); [rewrite (double_noquote f Hq)|]; reflexivity.
Qed.


(* ================================================================ the fuel passed by split_quoted_str suffices *)

Lemma extract_progress dlm pr ext s x w r : dlm <> [] ->
  extract_next_field dlm pr ext s = (x, w, Some r) -> (length r < length s)%nat.
Proof.
  intros Hd. pose proof (dlm_len_pos dlm Hd) as Hdl. unfold extract_next_field. cbv zeta.
  assert (forall w0, match find dlm s with
                     | None => ((false, s), w0 || has QT s, None)
                     | Some i => ((false, firstn i s), w0 || has QT (firstn i s), Some (skipn (i + length dlm) s))
                     end = (x, w, Some r) -> (length r < length s)%nat) as Hf.
  { intros w0 H. destruct (find dlm s) as [i|] eqn:F; [|discriminate]. injection H as _ _ <-.
    pose proof (find_some_len _ _ _ F). rewrite skipn_length. lia. }
  destruct (qmatch ext s) as [[[g0 raw] r0]|] eqn:M; [|apply Hf].
  destruct (qmatch_sound _ _ _ _ _ M) as [Es _]. destruct r0 as [|c r1]; [discriminate|].
  destruct (strip_prefix dlm (c :: r1)) as [r2|] eqn:P; [|apply Hf].
  intros H. injection H as _ _ <-. apply strip_prefix_some in P. rewrite Es, P. rewrite !app_length. lia.
Qed.

Lemma sq_loop_fuel_enough dlm pr ext : dlm <> [] -> forall f1 f2 s, (length s < f1)%nat -> (length s < f2)%nat ->
  sq_loop f1 dlm pr ext s = sq_loop f2 dlm pr ext s.
Proof.
  intros Hd. induction f1 as [|f1 IH]; intros f2 s H1 H2; [lia|]. destruct f2 as [|f2]; [lia|].
  destruct s as [|c0 s0]; [reflexivity|]. remember (c0 :: s0) as s eqn:Es. assert (s <> []) as Hne by (subst s; discriminate).
  rewrite !(sq_loop_S _ _ _ _ _ Hne).
  destruct (extract_next_field dlm pr ext s) as [[x w] [r|]] eqn:E; [|reflexivity].
  pose proof (extract_progress _ _ _ _ _ _ _ Hd E) as Hp. rewrite (IH f2 r) by lia. reflexivity.
Qed.
