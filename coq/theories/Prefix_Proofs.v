(* Prefix_Proofs.v — a consumer that refuses its k-th write receives exactly the first k rows of what it would have
   received had it never refused (C15, engine level), for every query shape and every expression semantics.
   Method: strong locality. Two runs whose writer oracles agree on the indices < N either (A) perform at most N base
   writes and are then IDENTICAL, or (B) both perform more than N base writes and their first N+1 base calls carry the
   same rows. Every operation of the engine only appends to the trace, so (B) is stable under continuation. *)
From RBQL Require Import Base Value Expr Writers Writers_Proofs Join Agg Engine Protocol_Proofs.

(* rows handed to the innermost writer (accepted or not), in order *)
Definition calls (st : chain_st) : list row :=
  flat_map (fun e => match e with EvWrite r _ => [r] | _ => [] end) (rev (s_trace st)).

(* the answers the innermost writer gave, in order *)
Definition flags (st : chain_st) : list bool :=
  flat_map (fun e => match e with EvWrite _ ok => [ok] | _ => [] end) (rev (s_trace st)).

Definition wfn (st : chain_st) : Prop := s_nwrites st = length (calls st).
(* under oracle w the i-th write was answered w i *)
Definition wfl (w : nat -> bool) (st : chain_st) : Prop := flags st = map w (seq 0 (s_nwrites st)).

(* st' extends st by appending calls (answered by w) *)
Definition ext (w : nat -> bool) (st st' : chain_st) : Prop :=
  exists l, calls st' = calls st ++ l /\ s_nwrites st' = s_nwrites st + length l
            /\ flags st' = flags st ++ map w (seq (s_nwrites st) (length l)).

Lemma ext_refl w st : ext w st st.
Proof. exists []. cbn. rewrite !app_nil_r, Nat.add_0_r. repeat split. Qed.
Lemma ext_trans w a b c : ext w a b -> ext w b c -> ext w a c.
Proof.
  intros [l1 [E1 [N1 F1]]] [l2 [E2 [N2 F2]]]. exists (l1 ++ l2). rewrite E2, E1, N2, N1, F2, F1, N1, app_assoc, app_length.
  split; [reflexivity|]. split; [lia|]. rewrite <- app_assoc, seq_app, map_app. reflexivity.
Qed.
Lemma ext_wfn w a b : wfn a -> ext w a b -> wfn b.
Proof. unfold wfn. intros H [l [E [N _]]]. rewrite N, E, app_length, H. reflexivity. Qed.
Lemma ext_wfl w a b : wfl w a -> ext w a b -> wfl w b.
Proof.
  unfold wfl. intros H [l [E [N F]]]. rewrite F, H, N, seq_app, map_app. reflexivity.
Qed.

Lemma calls_same st st' : s_trace st' = s_trace st -> calls st' = calls st.
Proof. unfold calls. intros ->. reflexivity. Qed.

Lemma ext_same w st st' : s_trace st' = s_trace st -> s_nwrites st' = s_nwrites st -> ext w st st'.
Proof.
  intros H1 H2. exists []. rewrite (calls_same _ _ H1), H2. unfold flags. rewrite H1. cbn. rewrite !app_nil_r, Nat.add_0_r. repeat split.
Qed.

Definition agree (N : nat) (w1 w2 : nat -> bool) : Prop := forall i, i < N -> w1 i = w2 i.

(* results of type T carrying a chain state *)
Definition SL {T} (proj : T -> chain_st) (N : nat) (r1 r2 : T) : Prop :=
  (s_nwrites (proj r1) <= N /\ r1 = r2)
  \/ (N < s_nwrites (proj r1) /\ N < s_nwrites (proj r2)
      /\ firstn (S N) (calls (proj r1)) = firstn (S N) (calls (proj r2))).

Lemma firstn_ext w st st' n : wfn st -> ext w st st' -> n <= s_nwrites st -> firstn n (calls st') = firstn n (calls st).
Proof.
  intros Hw [l [E _]] Hn. rewrite E. unfold wfn in Hw. rewrite firstn_app. replace (n - length (calls st)) with 0 by lia.
  cbn. rewrite app_nil_r. reflexivity.
Qed.

(* once diverged (B), continuing both runs by appending operations keeps (B) *)
Lemma SL_continue {T U} (p : T -> chain_st) (p' : U -> chain_st) N wa wb (r1 r2 : T) (s1 s2 : U) :
  wfn (p r1) -> wfn (p r2) -> ext wa (p r1) (p' s1) -> ext wb (p r2) (p' s2) ->
  N < s_nwrites (p r1) -> N < s_nwrites (p r2) -> firstn (S N) (calls (p r1)) = firstn (S N) (calls (p r2)) ->
  SL p' N s1 s2.
Proof.
  intros W1 W2 E1 E2 H1 H2 HF. right.
  pose proof E1 as [l1 [C1 [M1 _]]]. pose proof E2 as [l2 [C2 [M2 _]]]. split; [lia|]. split; [lia|].
  rewrite (firstn_ext wa (p r1) (p' s1) (S N) W1 E1) by lia.
  rewrite (firstn_ext wb (p r2) (p' s2) (S N) W2 E2) by lia. exact HF.
Qed.

Section Ops.
Variable cfg : chain_cfg.
Variable N : nat.
Variables w1 w2 : nat -> bool.
Hypothesis Hag : agree N w1 w2.

Definition pfst {X} (r : chain_st * X) : chain_st := fst r.

(* ---- appends ---- *)
Lemma base_write_ext w st r : ext w st (fst (base_write w st r)).
Proof.
  exists [r]. unfold base_write, calls, flags. cbn [fst s_trace s_nwrites rev]. rewrite !flat_map_app. cbn. split; [reflexivity|]. split; [lia | reflexivity].
Qed.

Lemma top_write_ext w st r : ext w st (fst (top_write w cfg st r)).
Proof.
  unfold top_write. destruct (c_top cfg) as [n|]; [|apply base_write_ext].
  destruct (Nat.leb n (s_NW st)); [apply ext_refl|].
  pose proof (base_write_ext w st r) as E. destruct (base_write w st r) as [st' ok]. cbn [fst] in *.
  destruct ok; [|exact E]. eapply ext_trans; [exact E | apply ext_same; reflexivity].
Qed.

Lemma uniq_write_ext w st r : ext w st (fst (uniq_write w cfg st r)).
Proof.
  unfold uniq_write. destruct (c_distinct cfg).
  - apply top_write_ext.
  - destruct (row_mem r (s_seen st)); [apply ext_refl|].
    eapply ext_trans; [|apply top_write_ext]. apply ext_same; reflexivity.
  - apply ext_same; reflexivity.
Qed.

Lemma chain_write_ext w st k r : ext w st (fst (chain_write w cfg st k r)).
Proof.
  unfold chain_write. destruct (c_order cfg); [apply ext_same; reflexivity | apply uniq_write_ext].
Qed.

Lemma feed_ext w wr : (forall st r, ext w st (fst (wr st r))) -> forall l st, ext w st (feed wr st l).
Proof.
  intros H. induction l as [|r l IH]; intros st; [apply ext_refl|]. cbn [feed].
  pose proof (H st r) as E. destruct (wr st r) as [st' ok]. cbn [fst] in E.
  destruct ok; [eapply ext_trans; [exact E | apply IH] | exact E].
Qed.

Lemma chain_feed_ext w : forall l st, ext w st (fst (chain_feed w cfg st l)).
Proof.
  induction l as [|[k r] l IH]; intros st; [apply ext_refl|]. cbn [chain_feed].
  pose proof (chain_write_ext w st k r) as E. destruct (chain_write w cfg st k r) as [st' ok]. cbn [fst] in E.
  destruct ok; [eapply ext_trans; [exact E | apply IH] | exact E].
Qed.

Lemma base_finish_ext w st : ext w st (base_finish st).
Proof.
  exists []. unfold base_finish, calls, flags. cbn [s_trace s_nwrites rev]. rewrite !flat_map_app. cbn. rewrite !app_nil_r, Nat.add_0_r. repeat split.
Qed.

Lemma uniq_finish_ext w st : ext w st (uniq_finish w cfg st).
Proof.
  unfold uniq_finish. destruct (c_distinct cfg); try apply base_finish_ext.
  eapply ext_trans; [apply feed_ext; apply top_write_ext | apply base_finish_ext].
Qed.

Lemma chain_finish_ext w st : ext w st (chain_finish w cfg st).
Proof.
  unfold chain_finish. destruct (c_order cfg); [|apply uniq_finish_ext].
  eapply ext_trans; [apply feed_ext; apply uniq_write_ext | apply uniq_finish_ext].
Qed.

(* ---- strong locality ---- *)
Lemma SL_refl {T} (p : T -> chain_st) (r : T) : wfn (p r) -> SL p N r r.
Proof.
  intros _. destruct (Nat.le_gt_cases (s_nwrites (p r)) N); [left; split; [assumption | reflexivity] | right; repeat split; assumption].
Qed.

Lemma base_write_SL st r : wfn st -> SL pfst N (base_write w1 st r) (base_write w2 st r).
Proof.
  intros Hw. unfold base_write. destruct (Nat.lt_ge_cases (s_nwrites st) N) as [Hlt | Hge].
  - left. cbn [pfst fst s_nwrites]. split; [lia|]. rewrite (Hag _ Hlt). reflexivity.
  - right. cbn [pfst fst s_nwrites]. split; [lia|]. split; [lia|]. unfold calls. cbn [s_trace rev]. rewrite !flat_map_app. reflexivity.
Qed.

Lemma top_write_SL st r : wfn st -> SL pfst N (top_write w1 cfg st r) (top_write w2 cfg st r).
Proof.
  intros Hw. unfold top_write. destruct (c_top cfg) as [n|]; [|apply base_write_SL; assumption].
  destruct (Nat.leb n (s_NW st)); [apply (SL_refl pfst); assumption|].
  pose proof (base_write_SL st r Hw) as H. pose proof (base_write_ext w1 st r) as E1. pose proof (base_write_ext w2 st r) as E2.
  destruct (base_write w1 st r) as [s1 ok1]. destruct (base_write w2 st r) as [s2 ok2]. cbn [fst] in E1, E2.
  destruct H as [[Hle Heq] | [H1 [H2 HF]]].
  - injection Heq as <- <-. apply (SL_refl pfst). destruct ok1; cbn [pfst fst]; [|eapply ext_wfn; eassumption].
    eapply ext_wfn; [exact Hw|]. eapply ext_trans; [exact E1 | apply ext_same; reflexivity].
  - cbn [pfst fst] in H1, H2, HF.
    apply (SL_continue pfst pfst N w1 w2 (s1, ok1) (s2, ok2)); cbn [pfst fst]; try assumption; try (eapply ext_wfn; eassumption).
    + destruct ok1; cbn [fst]; [apply ext_same; reflexivity | apply ext_refl].
    + destruct ok2; cbn [fst]; [apply ext_same; reflexivity | apply ext_refl].
Qed.

Lemma uniq_write_SL st r : wfn st -> SL pfst N (uniq_write w1 cfg st r) (uniq_write w2 cfg st r).
Proof.
  intros Hw. unfold uniq_write. destruct (c_distinct cfg).
  - apply top_write_SL. assumption.
  - destruct (row_mem r (s_seen st)); [apply (SL_refl pfst); assumption|].
    apply top_write_SL. unfold wfn in *. cbn [s_nwrites]. rewrite (calls_same st _); [assumption | reflexivity].
  - apply (SL_refl pfst). cbn [pfst fst]. unfold wfn in *. cbn [s_nwrites]. rewrite (calls_same st _); [assumption | reflexivity].
Qed.

Lemma chain_write_SL st k r : wfn st -> SL pfst N (chain_write w1 cfg st k r) (chain_write w2 cfg st k r).
Proof.
  intros Hw. unfold chain_write. destruct (c_order cfg); [|apply uniq_write_SL; assumption].
  apply (SL_refl pfst). cbn [pfst fst]. unfold wfn in *. cbn [s_nwrites]. rewrite (calls_same st _); [assumption | reflexivity].
Qed.

(* feeding a list through a writer function that is strongly local *)
Lemma feed_SL (wr1 wr2 : chain_st -> row -> chain_st * bool) :
  (forall st r, ext w1 st (fst (wr1 st r))) -> (forall st r, ext w2 st (fst (wr2 st r))) ->
  (forall st r, wfn st -> SL pfst N (wr1 st r) (wr2 st r)) ->
  forall l st, wfn st -> SL (fun s => s) N (feed wr1 st l) (feed wr2 st l).
Proof.
  intros X1 X2 HS. induction l as [|r l IH]; intros st Hw; [apply (SL_refl (fun s => s)); assumption|].
  cbn [feed]. pose proof (HS st r Hw) as H. pose proof (X1 st r) as E1. pose proof (X2 st r) as E2.
  destruct (wr1 st r) as [s1 ok1]. destruct (wr2 st r) as [s2 ok2]. cbn [fst] in E1, E2.
  destruct H as [[Hle Heq] | [H1 [H2 HF]]].
  - injection Heq as <- <-. destruct ok1; [apply IH; eapply ext_wfn; eassumption | apply (SL_refl (fun s => s)); eapply ext_wfn; eassumption].
  - cbn [pfst fst] in H1, H2, HF.
    apply (SL_continue pfst (fun s => s) N w1 w2 (s1, ok1) (s2, ok2)); cbn [pfst fst]; try assumption; try (eapply ext_wfn; eassumption).
    + destruct ok1; [apply feed_ext; assumption | apply ext_refl].
    + destruct ok2; [apply feed_ext; assumption | apply ext_refl].
Qed.

Lemma chain_feed_SL : forall l st, wfn st -> SL pfst N (chain_feed w1 cfg st l) (chain_feed w2 cfg st l).
Proof.
  induction l as [|[k r] l IH]; intros st Hw; [apply (SL_refl pfst); assumption|].
  cbn [chain_feed]. pose proof (chain_write_SL st k r Hw) as H.
  pose proof (chain_write_ext w1 st k r) as E1. pose proof (chain_write_ext w2 st k r) as E2.
  destruct (chain_write w1 cfg st k r) as [s1 ok1]. destruct (chain_write w2 cfg st k r) as [s2 ok2]. cbn [fst] in E1, E2.
  destruct H as [[Hle Heq] | [H1 [H2 HF]]].
  - injection Heq as <- <-. destruct ok1; [apply IH; eapply ext_wfn; eassumption | apply (SL_refl pfst); eapply ext_wfn; eassumption].
  - cbn [pfst fst] in H1, H2, HF.
    apply (SL_continue pfst pfst N w1 w2 (s1, ok1) (s2, ok2)); cbn [pfst fst]; try assumption; try (eapply ext_wfn; eassumption).
    + destruct ok1; [apply chain_feed_ext | apply ext_refl].
    + destruct ok2; [apply chain_feed_ext | apply ext_refl].
Qed.

Lemma base_finish_SL st1 st2 : wfn st1 -> wfn st2 -> SL (fun s => s) N st1 st2 -> SL (fun s => s) N (base_finish st1) (base_finish st2).
Proof.
  intros W1 W2 [[Hle ->] | [H1 [H2 HF]]].
  - apply (SL_refl (fun s => s)). eapply ext_wfn; [exact W2 | apply (base_finish_ext w1)].
  - apply (SL_continue (fun s => s) (fun s => s) N w1 w2 st1 st2); try assumption; apply base_finish_ext.
Qed.

Lemma uniq_finish_SL st1 st2 : wfn st1 -> wfn st2 -> SL (fun s => s) N st1 st2 ->
  SL (fun s => s) N (uniq_finish w1 cfg st1) (uniq_finish w2 cfg st2).
Proof.
  intros W1 W2 H. unfold uniq_finish. destruct (c_distinct cfg) eqn:Ed; try (apply base_finish_SL; assumption).
  destruct H as [[Hle ->] | [H1 [H2 HF]]].
  - pose proof (feed_SL (top_write w1 cfg) (top_write w2 cfg) (top_write_ext w1) (top_write_ext w2) top_write_SL
                  (count_rows (s_counts st2)) st2 W2) as F.
    apply base_finish_SL; try assumption; [eapply ext_wfn; [exact W2 | apply (feed_ext w1); apply top_write_ext] | eapply ext_wfn; [exact W2 | apply (feed_ext w2); apply top_write_ext]].
  - apply (SL_continue (fun s => s) (fun s => s) N w1 w2 st1 st2); try assumption.
    + eapply ext_trans; [apply feed_ext; apply top_write_ext | apply base_finish_ext].
    + eapply ext_trans; [apply feed_ext; apply top_write_ext | apply base_finish_ext].
Qed.

Lemma chain_finish_SL st1 st2 : wfn st1 -> wfn st2 -> SL (fun s => s) N st1 st2 ->
  SL (fun s => s) N (chain_finish w1 cfg st1) (chain_finish w2 cfg st2).
Proof.
  intros W1 W2 H. unfold chain_finish. destruct (c_order cfg) as [rv|]; [|apply uniq_finish_SL; assumption].
  destruct H as [[Hle ->] | [H1 [H2 HF]]].
  - pose proof (feed_SL (uniq_write w1 cfg) (uniq_write w2 cfg) (uniq_write_ext w1) (uniq_write_ext w2) uniq_write_SL
                  (ordered rv (s_entries st2)) st2 W2) as F.
    apply uniq_finish_SL; try assumption; [eapply ext_wfn; [exact W2 | apply (feed_ext w1); apply uniq_write_ext] | eapply ext_wfn; [exact W2 | apply (feed_ext w2); apply uniq_write_ext]].
  - apply (SL_continue (fun s => s) (fun s => s) N w1 w2 st1 st2); try assumption.
    + eapply ext_trans; [apply feed_ext; apply uniq_write_ext | apply uniq_finish_ext].
    + eapply ext_trans; [apply feed_ext; apply uniq_write_ext | apply uniq_finish_ext].
Qed.
End Ops.

(* ---------- the engine ---------- *)
Section EngineLevel.
Variable expr : Type.
Variable eval : env -> expr -> res val.
Variable q : query expr.
Variable N : nat.
Variables w1 w2 : nat -> bool.
Hypothesis Hag : agree N w1 w2.
Let cfg := cfg_of q.

Definition pls (r : lstate * flow) : chain_st := l_chain (fst r).
Definition pml (r : lstate * nat * option (eclass * nat * xerr)) : chain_st := l_chain (fst (fst r)).

(* wrapping a chain-level result into the loop state *)
Lemma wrap_SL {X} (mk : chain_st * X -> lstate * flow) (a b : chain_st * X) :
  (forall r, l_chain (fst (mk r)) = fst r) -> SL pfst N a b -> SL pls N (mk a) (mk b).
Proof.
  intros Hp [[Hle ->] | [H1 [H2 HF]]].
  - left. unfold pls. rewrite Hp. split; [exact Hle | reflexivity].
  - right. unfold pls. rewrite !Hp. repeat split; assumption.
Qed.

Lemma process_select_ext w ls en : ext w (l_chain ls) (pls (process_select eval w q ls en)).
Proof.
  unfold process_select, pls. destruct (is_agg q).
  - destruct (agg_values eval q en) as [[[k vs]|]|e]; cbn [fst]; try apply ext_refl.
    destruct (aggregate_one q ls k vs) as [ls'|e] eqn:E; cbn [fst]; [|apply ext_refl].
    unfold aggregate_one in E. destruct (l_agg ls); [|destruct (c_order (cfg_of q)), (c_distinct (cfg_of q))]; try discriminate;
      destruct (cols_increment _ k vs); try discriminate; injection E as <-; apply ext_refl.
  - destruct (select_rows eval q en) as [rs|e]; cbn [fst]; [|apply ext_refl].
    unfold write_rows. pose proof (chain_feed_ext (cfg_of q) w rs (l_chain ls)) as E.
    destruct (chain_feed w (cfg_of q) (l_chain ls) rs) as [st' ok]. exact E.
Qed.

Lemma process_select_SL ls en : wfn (l_chain ls) ->
  SL pls N (process_select eval w1 q ls en) (process_select eval w2 q ls en).
Proof.
  intros Hw. unfold process_select. destruct (is_agg q).
  - apply (SL_refl N pls). unfold pls.
    destruct (agg_values eval q en) as [[[k vs]|]|e]; cbn [fst]; try exact Hw.
    destruct (aggregate_one q ls k vs) as [ls'|e] eqn:E; cbn [fst]; [|exact Hw].
    unfold aggregate_one in E. destruct (l_agg ls); [|destruct (c_order (cfg_of q)), (c_distinct (cfg_of q))]; try discriminate;
      destruct (cols_increment _ k vs); try discriminate; injection E as <-; exact Hw.
  - destruct (select_rows eval q en) as [rs|e]; [|apply (SL_refl N pls); exact Hw].
    unfold write_rows.
    pose proof (chain_feed_SL (cfg_of q) N w1 w2 Hag rs (l_chain ls) Hw) as H0.
    pose proof (wrap_SL (fun p : chain_st * bool => ({| l_chain := fst p; l_agg := l_agg ls; l_nu := l_nu ls |}, if snd p then Continue else Stop)) _ _ (fun r => eq_refl) H0) as H.
    destruct (chain_feed w1 (cfg_of q) (l_chain ls) rs) as [s1 o1]. destruct (chain_feed w2 (cfg_of q) (l_chain ls) rs) as [s2 o2]. exact H.
Qed.

Lemma process_matches_ext w nr a : forall ms ls, ext w (l_chain ls) (pls (process_matches eval w q ls nr a ms)).
Proof.
  induction ms as [|b ms IH]; intros ls; [apply ext_refl|]. cbn [process_matches].
  pose proof (process_select_ext w ls {| e_nr := nr; e_nf := length a; e_a := a; e_b := b; e_nu := l_nu ls |}) as E.
  destruct (process_select eval w q ls _) as [ls1 fl1]. unfold pls in E. cbn [fst] in E.
  destruct fl1; try exact E. eapply ext_trans; [exact E | apply IH].
Qed.

Lemma process_matches_SL nr a : forall ms ls, wfn (l_chain ls) ->
  SL pls N (process_matches eval w1 q ls nr a ms) (process_matches eval w2 q ls nr a ms).
Proof.
  induction ms as [|b ms IH]; intros ls Hw; [apply (SL_refl N pls); exact Hw|]. cbn [process_matches].
  set (en := {| e_nr := nr; e_nf := length a; e_a := a; e_b := b; e_nu := l_nu ls |}).
  pose proof (process_select_SL ls en Hw) as H. pose proof (process_select_ext w1 ls en) as E1. pose proof (process_select_ext w2 ls en) as E2.
  destruct (process_select eval w1 q ls en) as [l1 f1]. destruct (process_select eval w2 q ls en) as [l2 f2].
  unfold pls in E1, E2. cbn [fst] in E1, E2.
  destruct H as [[Hle Heq] | [H1 [H2 HF]]].
  - injection Heq as <- <-. destruct f1; try (apply (SL_refl N pls); eapply ext_wfn; eassumption).
    apply IH. eapply ext_wfn; eassumption.
  - unfold pls in H1, H2, HF. cbn [fst] in H1, H2, HF.
    apply (SL_continue pls pls N w1 w2 (l1, f1) (l2, f2)); unfold pls; cbn [fst]; try assumption; try (eapply ext_wfn; eassumption).
    + destruct f1; try apply ext_refl. apply process_matches_ext.
    + destruct f2; try apply ext_refl. apply process_matches_ext.
Qed.

Lemma process_update_ext w ls nr a b m asg : ext w (l_chain ls) (pls (process_update eval w q ls nr a b m asg)).
Proof.
  unfold process_update, pls. destruct (if m then where_ok eval q _ else Ok false) as [[|]|e]; cbn [fst]; try apply ext_refl.
  - destruct (apply_assigns eval _ _ asg) as [up'|e2]; cbn [fst]; [|apply ext_refl].
    pose proof (chain_write_ext (cfg_of q) w (l_chain ls) [] up') as E. destruct (chain_write w (cfg_of q) (l_chain ls) [] up') as [st' ok]. exact E.
  - pose proof (chain_write_ext (cfg_of q) w (l_chain ls) [] (map VA a)) as E. destruct (chain_write w (cfg_of q) (l_chain ls) [] (map VA a)) as [st' ok]. exact E.
Qed.

Lemma process_update_SL ls nr a b m asg : wfn (l_chain ls) ->
  SL pls N (process_update eval w1 q ls nr a b m asg) (process_update eval w2 q ls nr a b m asg).
Proof.
  intros Hw. unfold process_update. destruct (if m then where_ok eval q _ else Ok false) as [[|]|e]; try (apply (SL_refl N pls); exact Hw).
  - destruct (apply_assigns eval _ _ asg) as [up'|e2]; [|apply (SL_refl N pls); exact Hw].
    pose proof (chain_write_SL (cfg_of q) N w1 w2 Hag (l_chain ls) [] up' Hw) as H0.
    pose proof (wrap_SL (fun p : chain_st * bool => ({| l_chain := fst p; l_agg := l_agg ls; l_nu := S (l_nu ls) |}, if snd p then Continue else Stop)) _ _ (fun r => eq_refl) H0) as H.
    destruct (chain_write w1 (cfg_of q) (l_chain ls) [] up') as [s1 o1]. destruct (chain_write w2 (cfg_of q) (l_chain ls) [] up') as [s2 o2]. exact H.
  - pose proof (chain_write_SL (cfg_of q) N w1 w2 Hag (l_chain ls) [] (map VA a) Hw) as H0.
    pose proof (wrap_SL (fun p : chain_st * bool => ({| l_chain := fst p; l_agg := l_agg ls; l_nu := l_nu ls |}, if snd p then Continue else Stop)) _ _ (fun r => eq_refl) H0) as H.
    destruct (chain_write w1 (cfg_of q) (l_chain ls) [] (map VA a)) as [s1 o1]. destruct (chain_write w2 (cfg_of q) (l_chain ls) [] (map VA a)) as [s2 o2]. exact H.
Qed.

Lemma process_record_ext w jm ls nr a : ext w (l_chain ls) (pls (process_record eval w q jm ls nr a)).
Proof.
  unfold process_record. destruct (q_kind q) as [items|idxs|asg].
  - destruct (q_join q); [destruct jm|]; try apply process_matches_ext. destruct (bind _ _); [apply process_matches_ext | apply ext_refl].
  - destruct (q_join q); [destruct jm|]; try apply process_matches_ext. destruct (bind _ _); [apply process_matches_ext | apply ext_refl].
  - destruct (q_join q); [destruct jm|]; try apply process_update_ext.
    destruct (bind _ _) as [[|b1 [|b2 l]]|e]; try apply process_update_ext; apply ext_refl.
Qed.

Lemma process_record_SL jm ls nr a : wfn (l_chain ls) ->
  SL pls N (process_record eval w1 q jm ls nr a) (process_record eval w2 q jm ls nr a).
Proof.
  intros Hw. unfold process_record. destruct (q_kind q) as [items|idxs|asg].
  - destruct (q_join q); [destruct jm|]; try (apply process_matches_SL; exact Hw).
    destruct (bind _ _); [apply process_matches_SL; exact Hw | apply (SL_refl N pls); exact Hw].
  - destruct (q_join q); [destruct jm|]; try (apply process_matches_SL; exact Hw).
    destruct (bind _ _); [apply process_matches_SL; exact Hw | apply (SL_refl N pls); exact Hw].
  - destruct (q_join q); [destruct jm|]; try (apply process_update_SL; exact Hw).
    destruct (bind _ _) as [[|b1 [|b2 l]]|e]; try (apply process_update_SL; exact Hw); apply (SL_refl N pls); exact Hw.
Qed.

Lemma main_loop_ext w jm : forall A ls nr, ext w (l_chain ls) (pml (main_loop eval w q jm ls nr A)).
Proof.
  induction A as [|a A IH]; intros ls nr; [apply ext_refl|]. cbn [main_loop].
  pose proof (process_record_ext w jm ls (S nr) a) as E. destruct (process_record eval w q jm ls (S nr) a) as [ls1 fl].
  unfold pls in E. cbn [fst] in E. destruct fl; try exact E. eapply ext_trans; [exact E | apply IH].
Qed.

Lemma main_loop_SL jm : forall A ls nr, wfn (l_chain ls) ->
  SL pml N (main_loop eval w1 q jm ls nr A) (main_loop eval w2 q jm ls nr A).
Proof.
  induction A as [|a A IH]; intros ls nr Hw; [apply (SL_refl N pml); exact Hw|]. cbn [main_loop].
  pose proof (process_record_SL jm ls (S nr) a Hw) as H.
  pose proof (process_record_ext w1 jm ls (S nr) a) as E1. pose proof (process_record_ext w2 jm ls (S nr) a) as E2.
  destruct (process_record eval w1 q jm ls (S nr) a) as [l1 f1]. destruct (process_record eval w2 q jm ls (S nr) a) as [l2 f2].
  unfold pls in E1, E2. cbn [fst] in E1, E2.
  destruct H as [[Hle Heq] | [H1 [H2 HF]]].
  - injection Heq as <- <-. destruct f1; try (apply (SL_refl N pml); unfold pml; cbn [fst]; eapply ext_wfn; eassumption).
    apply IH. eapply ext_wfn; eassumption.
  - unfold pls in H1, H2, HF. cbn [fst] in H1, H2, HF.
    apply (SL_continue pls pml N w1 w2 (l1, f1) (l2, f2)); unfold pls; cbn [fst]; try assumption; try (eapply ext_wfn; eassumption).
    + destruct f1; try apply ext_refl. apply main_loop_ext.
    + destruct f2; try apply ext_refl. apply main_loop_ext.
Qed.

Lemma finish_ext w ls : ext w (l_chain ls) (fst (finish w q ls)).
Proof.
  unfold finish. destruct (l_agg ls) as [a|].
  - destruct (final_rows (a_cols a) (sort_keys (a_keys a))) as [rows|e]; cbn [fst]; [|apply ext_refl].
    eapply ext_trans; [apply (feed_ext w); apply top_write_ext | apply base_finish_ext].
  - cbn [fst]. apply chain_finish_ext.
Qed.

Lemma finish_SL ls1 ls2 : wfn (l_chain ls1) -> wfn (l_chain ls2) -> SL l_chain N ls1 ls2 ->
  SL pfst N (finish w1 q ls1) (finish w2 q ls2).
Proof.
  intros W1 W2 [[Hle ->] | [H1 [H2 HF]]].
  - unfold finish. destruct (l_agg ls2) as [a|].
    + destruct (final_rows (a_cols a) (sort_keys (a_keys a))) as [rows|e]; [|apply (SL_refl N pfst); exact W2].
      pose proof (feed_SL N w1 w2 (top_write w1 (cfg_of q)) (top_write w2 (cfg_of q)) (top_write_ext (cfg_of q) w1) (top_write_ext (cfg_of q) w2)
                    (top_write_SL (cfg_of q) N w1 w2 Hag) rows (l_chain ls2) W2) as F.
      assert (G : SL (fun s => s) N (base_finish (feed (top_write w1 (cfg_of q)) (l_chain ls2) rows)) (base_finish (feed (top_write w2 (cfg_of q)) (l_chain ls2) rows))).
      { apply (base_finish_SL N w1 w2); try assumption; eapply ext_wfn; try exact W2; [apply (feed_ext w1) | apply (feed_ext w2)]; apply top_write_ext. }
      destruct G as [[G1 G2] | [G1 [G2 G3]]]; [left; cbn [pfst fst]; split; [exact G1 | rewrite G2; reflexivity] | right; cbn [pfst fst]; repeat split; assumption].
    + pose proof (chain_finish_SL (cfg_of q) N w1 w2 Hag (l_chain ls2) (l_chain ls2) W2 W2 (SL_refl N (fun s => s) (l_chain ls2) W2)) as G.
      destruct G as [[G1 G2] | [G1 [G2 G3]]]; [left; cbn [pfst fst]; split; [exact G1 | rewrite G2; reflexivity] | right; cbn [pfst fst]; repeat split; assumption].
  - apply (SL_continue l_chain pfst N w1 w2 ls1 ls2); try assumption; apply finish_ext.
Qed.

Definition init_ls (hdr : option (list str)) : lstate := {| l_chain := set_header chain_init hdr; l_agg := None; l_nu := 0 |}.

Lemma wfn_init hdr : wfn (l_chain (init_ls hdr)).
Proof. reflexivity. Qed.

(* the whole run: strong locality of the outcome *)
Theorem run_SL hdr A B : SL (@o_chain) N (run eval w1 q hdr A B) (run eval w2 q hdr A B).
Proof.
  unfold run. destruct (static_check q); [left; cbn; split; [lia | reflexivity]|].
  assert (Hmain : forall jm,
    SL (@o_chain) N
      (let '(ls, pulls, err) := main_loop eval w1 q jm (init_ls hdr) 0 A in
       match err with
       | Some e => {| o_chain := l_chain ls; o_pulls := pulls; o_error := Some e |}
       | None => let '(st, ferr) := finish w1 q ls in {| o_chain := st; o_pulls := pulls; o_error := ferr |}
       end)
      (let '(ls, pulls, err) := main_loop eval w2 q jm (init_ls hdr) 0 A in
       match err with
       | Some e => {| o_chain := l_chain ls; o_pulls := pulls; o_error := Some e |}
       | None => let '(st, ferr) := finish w2 q ls in {| o_chain := st; o_pulls := pulls; o_error := ferr |}
       end)).
  { intros jm. pose proof (main_loop_SL jm A (init_ls hdr) 0 (wfn_init hdr)) as H.
    pose proof (main_loop_ext w1 jm A (init_ls hdr) 0) as E1. pose proof (main_loop_ext w2 jm A (init_ls hdr) 0) as E2.
    destruct (main_loop eval w1 q jm (init_ls hdr) 0 A) as [[l1 p1] e1]. destruct (main_loop eval w2 q jm (init_ls hdr) 0 A) as [[l2 p2] e2].
    unfold pml in *. cbn [fst] in *.
    assert (W1 : wfn (l_chain l1)) by (eapply ext_wfn; [apply (wfn_init hdr) | exact E1]).
    assert (W2 : wfn (l_chain l2)) by (eapply ext_wfn; [apply (wfn_init hdr) | exact E2]).
    destruct H as [[Hle Heq] | [H1 [H2 HF]]].
    - injection Heq as <- <- <-. destruct e1 as [e|].
      + left. cbn. split; [exact Hle | reflexivity].
      + pose proof (finish_SL l1 l1 W1 W1 (SL_refl N l_chain l1 W1)) as F.
        destruct (finish w1 q l1) as [s1 f1]. destruct (finish w2 q l1) as [s2 f2].
        destruct F as [[F1 F2] | [F1 [F2 F3]]]; [left; cbn [pfst fst] in *; injection F2 as <- <-; split; [exact F1 | reflexivity] | right; cbn [pfst fst o_chain] in *; repeat split; assumption].
    - assert (X1 : ext w1 (l_chain l1) (o_chain (match e1 with
                      | Some e => {| o_chain := l_chain l1; o_pulls := p1; o_error := Some e |}
                      | None => let '(st, ferr) := finish w1 q l1 in {| o_chain := st; o_pulls := p1; o_error := ferr |} end))).
      { destruct e1; [apply ext_refl|]. pose proof (finish_ext w1 l1) as F. destruct (finish w1 q l1). exact F. }
      assert (X2 : ext w2 (l_chain l2) (o_chain (match e2 with
                      | Some e => {| o_chain := l_chain l2; o_pulls := p2; o_error := Some e |}
                      | None => let '(st, ferr) := finish w2 q l2 in {| o_chain := st; o_pulls := p2; o_error := ferr |} end))).
      { destruct e2; [apply ext_refl|]. pose proof (finish_ext w2 l2) as F. destruct (finish w2 q l2). exact F. }
      apply (SL_continue l_chain (@o_chain) N w1 w2 l1 l2); assumption. }
  destruct (q_join q) as [js|].
  - destruct (build (j_rhs js) B) as [m|bnr]; [apply (Hmain (Some (widen (j_bhdr js) m))) | left; cbn; split; [lia | reflexivity]].
  - apply (Hmain None).
Qed.

(* the flags invariant of a whole run *)
Lemma run_wf w hdr A B : wfn (o_chain (run eval w q hdr A B)) /\ wfl w (o_chain (run eval w q hdr A B)).
Proof.
  assert (I0 : wfn chain_init /\ wfl w chain_init) by (split; reflexivity).
  unfold run. destruct (static_check q); [exact I0|].
  assert (Hmain : forall jm,
     let o := (let '(ls, pulls, err) := main_loop eval w q jm (init_ls hdr) 0 A in
               match err with
               | Some e => {| o_chain := l_chain ls; o_pulls := pulls; o_error := Some e |}
               | None => let '(st, ferr) := finish w q ls in {| o_chain := st; o_pulls := pulls; o_error := ferr |}
               end) in wfn (o_chain o) /\ wfl w (o_chain o)).
  { intros jm. pose proof (main_loop_ext w jm A (init_ls hdr) 0) as E.
    destruct (main_loop eval w q jm (init_ls hdr) 0 A) as [[ls p] e]. unfold pml in E. cbn [fst] in E.
    assert (X : ext w (l_chain (init_ls hdr)) (o_chain (match e with
                  | Some e0 => {| o_chain := l_chain ls; o_pulls := p; o_error := Some e0 |}
                  | None => let '(st, ferr) := finish w q ls in {| o_chain := st; o_pulls := p; o_error := ferr |} end))).
    { destruct e; [exact E|]. pose proof (finish_ext w ls) as F. destruct (finish w q ls). eapply ext_trans; [exact E | exact F]. }
    split; [eapply ext_wfn; [apply (wfn_init hdr) | exact X] | eapply ext_wfl; [|exact X]]. reflexivity. }
  destruct (q_join q) as [js|].
  - destruct (build (j_rhs js) B) as [m|bnr]; [apply (Hmain (Some (widen (j_bhdr js) m))) | exact I0].
  - apply (Hmain None).
Qed.

End EngineLevel.

(* ---------- accepted rows in terms of calls and answers ---------- *)
Lemma written_calls_flags st : written st = map fst (filter snd (combine (calls st) (flags st))).
Proof.
  unfold written, calls, flags. induction (rev (s_trace st)) as [|e t IH]; [reflexivity|].
  destruct e as [h|r ok|]; cbn; try exact IH. destruct ok; cbn; [f_equal|]; exact IH.
Qed.

Lemma accepted_failat k : forall (l : list row) a,
  map fst (filter snd (combine l (map (fail_at k) (seq a (length l))))) = firstn (k - a) l.
Proof.
  induction l as [|r l IH]; intros a; [cbn; rewrite firstn_nil; reflexivity|].
  cbn [length seq map combine filter]. unfold fail_at at 1. destruct (Nat.ltb a k) eqn:E; cbn [snd].
  - apply Nat.ltb_lt in E. cbn [map fst]. rewrite IH. replace (k - a) with (S (k - S a)) by lia. reflexivity.
  - apply Nat.ltb_ge in E. rewrite IH. replace (k - a) with 0 by lia. replace (k - S a) with 0 by lia. reflexivity.
Qed.

Lemma accepted_yes : forall (l : list row) a, map fst (filter snd (combine l (map yes (seq a (length l))))) = l.
Proof. induction l as [|r l IH]; intros a; [reflexivity|]. cbn. f_equal. apply IH. Qed.

Lemma written_failat k st : wfn st -> wfl (fail_at k) st -> written st = firstn k (calls st).
Proof.
  intros Hn Hf. rewrite written_calls_flags, Hf, Hn, (accepted_failat k (calls st) 0), Nat.sub_0_r. reflexivity.
Qed.

Lemma written_yes st : wfn st -> wfl yes st -> written st = calls st.
Proof. intros Hn Hf. rewrite written_calls_flags, Hf, Hn. apply accepted_yes. Qed.

Lemma agree_failat k : agree k yes (fail_at k).
Proof. intros i Hi. unfold yes, fail_at. symmetry. apply Nat.ltb_lt. exact Hi. Qed.

(* THE PREFIX THEOREM: a consumer that goes away at its k-th write has received exactly the first k rows of the
   output it would have received otherwise - for every query shape, every k, every expression semantics *)
Theorem run_prefix {expr} (eval : env -> expr -> res val) (q : query expr) hdr A B k :
  written (o_chain (run eval (fail_at k) q hdr A B)) = firstn k (written (o_chain (run eval yes q hdr A B))).
Proof.
  destruct (run_wf expr eval q yes hdr A B) as [Yn Yf]. destruct (run_wf expr eval q (fail_at k) hdr A B) as [Wn Wf].
  rewrite (written_failat k _ Wn Wf), (written_yes _ Yn Yf).
  destruct (run_SL expr eval q k yes (fail_at k) (agree_failat k) hdr A B) as [[Hle Heq] | [H1 [H2 HF]]].
  - rewrite <- Heq. symmetry. rewrite firstn_all2; [reflexivity|]. unfold wfn in Yn. lia.
  - assert (E : forall l : list row, firstn k l = firstn k (firstn (S k) l)).
    { intros l. rewrite firstn_firstn. f_equal. lia. }
    rewrite (E (calls (o_chain (run eval (fail_at k) q hdr A B)))), <- HF, <- E. reflexivity.
Qed.

(* and if the consumer never refuses within the output (k at least the number of rows), nothing changes at all *)
Theorem run_prefix_complete {expr} (eval : env -> expr -> res val) (q : query expr) hdr A B k :
  s_nwrites (o_chain (run eval yes q hdr A B)) <= k ->
  run eval (fail_at k) q hdr A B = run eval yes q hdr A B.
Proof.
  intros H. destruct (run_SL expr eval q k yes (fail_at k) (agree_failat k) hdr A B) as [[Hle Heq] | [H1 _]]; [symmetry; exact Heq | lia].
Qed.
