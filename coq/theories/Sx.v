(* Sx.v — the universal value through which the harness talks to the model, both through the
   extracted OCaml binary and through `Eval vm_compute` in generated case files. *)
From RBQL Require Import Base.

Inductive sx : Type := A (n : N) | L (l : list sx).

Definition sx_of_str (s : str) : sx := L (map A s).
Definition sx_of_bool (b : bool) : sx := A (if b then 1 else 0)%N.
Definition sx_of_nat (n : nat) : sx := A (N.of_nat n).
Definition sx_of_Z (z : Z) : sx :=
  match z with Z0 => L [A 0; A 0] | Zpos p => L [A 0; A (Npos p)] | Zneg p => L [A 1; A (Npos p)] end%N.
Definition sx_of_list {T} (f : T -> sx) (l : list T) : sx := L (map f l).
Definition sx_of_option {T} (f : T -> sx) (o : option T) : sx :=
  match o with None => L [] | Some x => L [f x] end.
Definition sx_of_pair {T U} (f : T -> sx) (g : U -> sx) (p : T * U) : sx := L [f (fst p); g (snd p)].

Definition ERR : sx := A 4040404%N.   (* decoding failure marker; never produced by a well-formed case *)

Definition str_of_sx (x : sx) : option str :=
  match x with
  | L l => (fix go (l : list sx) : option str :=
              match l with
              | [] => Some []
              | A n :: t => match go t with Some r => Some (n :: r) | None => None end
              | L _ :: _ => None
              end) l
  | A _ => None
  end.
Definition bool_of_sx (x : sx) : option bool :=
  match x with A n => Some (negb (N.eqb n 0)) | L _ => None end.
Definition nat_of_sx (x : sx) : option nat :=
  match x with A n => Some (N.to_nat n) | L _ => None end.
Definition N_of_sx (x : sx) : option N :=
  match x with A n => Some n | L _ => None end.
Definition Z_of_sx (x : sx) : option Z :=
  match x with
  | L [A s; A m] => Some (if N.eqb s 0 then Z.of_N m else Z.opp (Z.of_N m))
  | _ => None
  end.
Definition list_of_sx {T} (f : sx -> option T) (x : sx) : option (list T) :=
  match x with
  | L l => (fix go (l : list sx) : option (list T) :=
              match l with
              | [] => Some []
              | h :: t => match f h, go t with Some a, Some r => Some (a :: r) | _, _ => None end
              end) l
  | A _ => None
  end.
Definition option_of_sx {T} (f : sx -> option T) (x : sx) : option (option T) :=
  match x with
  | L [] => Some None
  | L [y] => match f y with Some v => Some (Some v) | None => None end
  | _ => None
  end.
