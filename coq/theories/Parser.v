(* Parser.v — executable model of the query *text layer* of rbql_engine.py (and of its rbql.js twin
   where the two differ, selected by [lang]): cleanup_query / strip_comments, separate_string_literals /
   combine_string_literals, remove_redundant_input_table_name, locate_statements / separate_actions,
   find_top, parse_join_expression, translate_update_expression (assignment splitting),
   translate_except_expression (variable list), replace_star_count / AS-alias removal / replace_star_vars
   of translate_select_expression.

   Regular expressions are NOT modelled by a regex engine (DESIGN 3.2): each regex of the source is
   replaced by a hand-written deterministic scanner with the same match; the comment above each scanner
   quotes the regex and says why the scanner's choice is the backtracking engine's first success.
   Conventions / limits of the model (all validated by the correspondence run):
   - str.strip() / String.trim(): the exact whitespace sets of CPython 3.12 str.isspace and of
     ECMAScript WhiteSpace+LineTerminator ([py_ws], [js_ws]).
   - (?i): ASCII case folding plus, for Python str patterns, the three extra simple-case-folding
     equivalences of sre (s ~ U+017F, i ~ U+0130/U+0131, k ~ U+212A); JS /i without /u has none.
   - '$' is modelled as "end of text" and '.' of the WITH regex as "not a line terminator": the text that
     reaches these regexes never contains LF (cleanup_query splits at LF; lemma cleanup_no_lf).
   - int(text) of LIMIT: optional sign, ASCII digits with single underscores between digits;
     non-ASCII decimal digits (accepted by Python) are reported as an error by the model.
   No proofs in this file. *)
From RBQL Require Import Base.
From Coq Require String Ascii.
Import String.StringSyntax.
Delimit Scope string_scope with string.

Fixpoint s2l (s : String.string) : str :=
  match s with String.EmptyString => [] | String.String a r => Ascii.N_of_ascii a :: s2l r end.
Notation "$ x" := (s2l x%string) (at level 0, only parsing).

Inductive lang := LPy | LJs.
Local Open Scope N_scope.

(* ------------------------------------------------------------------ character classes *)
Definition in_range (lo hi c : N) : bool := N.leb lo c && N.leb c hi.
Definition is_digit (c : ch) : bool := in_range 48 57 c.
Definition is_upper (c : ch) : bool := in_range 65 90 c.
Definition is_lower (c : ch) : bool := in_range 97 122 c.
Definition is_alpha (c : ch) : bool := is_upper c || is_lower c.
Definition is_word (c : ch) : bool := is_alpha c || is_digit c || N.eqb c 95.      (* [_a-zA-Z0-9] *)
Definition is_ident_start (c : ch) : bool := is_alpha c || N.eqb c 95.            (* [_a-zA-Z] *)
Definition to_lower (c : ch) : ch := if is_upper c then (c + 32)%N else c.
Definition is_sp (c : ch) : bool := N.eqb c 32.
Definition SEMI : ch := 59%N.
Definition LPAR : ch := 40%N.
Definition RPAR : ch := 41%N.
Definition STAR : ch := 42%N.
Definition EQ : ch := 61%N.
Definition DOT : ch := 46%N.
Definition LBR : ch := 91%N.
Definition RBR : ch := 93%N.
Definition BQ : ch := 96%N.      (* backtick *)

(* CPython 3.12 str.isspace *)
Definition py_ws (c : ch) : bool :=
  in_range 9 13 c || in_range 28 32 c || N.eqb c 133 || N.eqb c 160 || N.eqb c 5760 || in_range 8192 8202 c
  || N.eqb c 8232 || N.eqb c 8233 || N.eqb c 8239 || N.eqb c 8287 || N.eqb c 12288.
(* ECMAScript String.prototype.trim: WhiteSpace + LineTerminator *)
Definition js_ws (c : ch) : bool :=
  in_range 9 13 c || N.eqb c 32 || N.eqb c 160 || N.eqb c 5760 || in_range 8192 8202 c
  || N.eqb c 8232 || N.eqb c 8233 || N.eqb c 8239 || N.eqb c 8287 || N.eqb c 12288 || N.eqb c 65279.
Definition ws (fl : lang) : ch -> bool := match fl with LPy => py_ws | LJs => js_ws end.
Definition strip_ws (fl : lang) : str -> str := strip_by (ws fl).       (* str.strip() / trim() *)
Definition strip_sp : str -> str := strip_by is_sp.                    (* .strip(' ') / str_strip *)
(* the strip applied to clause texts: Python span.strip(), JS str_strip(span) *)
Definition strip_txt (fl : lang) : str -> str := match fl with LPy => strip_ws LPy | LJs => strip_sp end.

(* (?i): pattern letter k against text character c *)
Definition py_fold_extra (k c : ch) : bool :=
  (N.eqb k 115 && N.eqb c 383) || (N.eqb k 105 && (N.eqb c 304 || N.eqb c 305)) || (N.eqb k 107 && N.eqb c 8490).
Definition ci_eq (fl : lang) (k c : ch) : bool :=
  N.eqb (to_lower k) (to_lower c) || match fl with LPy => py_fold_extra (to_lower k) c | LJs => false end.

(* '.' of a regex without DOTALL / s flag *)
Definition dot_ok (fl : lang) (c : ch) : bool :=
  match fl with
  | LPy => negb (N.eqb c LF)
  | LJs => negb (N.eqb c LF || N.eqb c CR || N.eqb c 8232 || N.eqb c 8233)
  end.

(* ------------------------------------------------------------------ small parsing helpers *)
Definition nonempty (s : str) : bool := match s with [] => false | _ => true end.
Definition drop_sp : str -> str := lstrip_by is_sp.                              (* ' *' (greedy) *)
Definition eat_sp1 (s : str) : option str :=                                     (* ' +' (greedy) *)
  match s with c :: t => if is_sp c then Some (drop_sp t) else None | [] => None end.
Definition eat_one_sp (s : str) : option str :=                                  (* ' ' *)
  match s with c :: t => if is_sp c then Some t else None | [] => None end.
Fixpoint eat_ci (fl : lang) (kw s : str) : option str :=                         (* literal under (?i) *)
  match kw, s with
  | [], _ => Some s
  | k :: kw', c :: s' => if ci_eq fl k c then eat_ci fl kw' s' else None
  | _ :: _, [] => None
  end.
Definition eat_ch (k : ch) (s : str) : option str :=
  match s with c :: t => if N.eqb c k then Some t else None | [] => None end.
Fixpoint span_by (f : ch -> bool) (s : str) : str * str :=                       (* '[class]*' greedy *)
  match s with
  | c :: t => if f c then let (a, b) := span_by f t in (c :: a, b) else ([], s)
  | [] => ([], [])
  end.
Definition slice (a b : nat) (s : str) : str := firstn (b - a)%nat (skipn a s).      (* s[a:b] *)
(* length of the text consumed when [rest] is what a prefix scanner left of [s] *)
Definition consumed (s rest : str) : nat := (length s - length rest)%nat.

Fixpoint N_of_digits_acc (acc : N) (s : str) : N :=
  match s with [] => acc | c :: t => N_of_digits_acc (acc * 10 + (c - 48)) t end.
Definition N_of_digits (s : str) : N := N_of_digits_acc 0%N s.

(* str(n) *)
Fixpoint dec_fuel (fuel : nat) (n : N) (acc : str) : str :=
  match fuel with
  | O => acc
  | S f => let d := (N.modulo n 10 + 48) in
           if N.ltb n 10 then d :: acc else dec_fuel f (N.div n 10) (d :: acc)
  end.
Definition dec_of_N (n : N) : str := dec_fuel (S (N.size_nat n)) n [].
Definition dec_of_nat (n : nat) : str := dec_of_N (N.of_nat n).

(* s.split(d) for a one-character separator, structurally *)
Fixpoint split_ch (d : ch) (s : str) : list str :=
  match s with
  | [] => [[]]
  | c :: t => if N.eqb c d then [] :: split_ch d t
              else match split_ch d t with l :: r => (c :: l) :: r | [] => [[c]] end
  end.

(* re.finditer / RegExp.exec loop for a pattern that never matches the empty string.
   [m prev s] = the match of the pattern starting exactly here ([prev] = the character before, None at
   the start of the text: this is how '^' and look-behinds see their context), as (length, info). *)
Section FindAll.
  Context {I : Type}.
  Variable m : option ch -> str -> option (nat * I).
  Fixpoint find_all_from (s : str) (prev : option ch) (pos skip : nat) : list (nat * nat * I) :=
    match s with
    | [] => []
    | c :: t =>
        match skip with
        | S k => find_all_from t (Some c) (S pos) k
        | O => match m prev s with
               | Some (n, i) => (pos, (pos + n)%nat, i) :: find_all_from t (Some c) (S pos) (n - 1)%nat
               | None => find_all_from t (Some c) (S pos) 0
               end
        end
    end.
  Definition find_all (s : str) : list (nat * nat * I) := find_all_from s None 0 0.
  (* re.sub(pattern, repl, s) *)
  Fixpoint sub_all_from (repl : str) (s : str) (prev : option ch) (skip : nat) : str :=
    match s with
    | [] => []
    | c :: t =>
        match skip with
        | S k => sub_all_from repl t (Some c) k
        | O => match m prev s with
               | Some (n, _) => repl ++ sub_all_from repl t (Some c) (n - 1)%nat
               | None => c :: sub_all_from repl t (Some c) 0
               end
        end
    end.
  Definition sub_all (repl s : str) : str := sub_all_from repl s None 0.
End FindAll.

(* ------------------------------------------------------------------ cleanup_query *)
Definition comment_prefix (fl : lang) : str := match fl with LPy => [HASH] | LJs => [47; 47]%N end.
Definition strip_comments (fl : lang) (l : str) : str :=
  let l' := strip_ws fl l in if starts_with (comment_prefix fl) l' then [] else l'.
Definition clean_lines (fl : lang) (ls : list str) : list str := filter nonempty (map (strip_comments fl) ls).
Definition rstrip_semi : str -> str := rstrip_by (N.eqb SEMI).
Definition cleanup_query (fl : lang) (q : str) : str :=
  rstrip_semi (join [SP] (clean_lines fl (split_ch LF q))).

(* ------------------------------------------------------------------ string literals *)
(* Python (DQ = double quote, SQ = single quote):  (DQ DQ DQ|SQ SQ SQ|DQ|SQ)((?<!\\)(\\\\)*\\\1|.)*?\1
   After the opener q the lazy body tries, at every position: close (\1) first; else the escape
   alternative = a maximal run of an odd number of backslashes (the look-behind forbids starting inside a
   run) followed by q, which is skipped; else '.' (any character but LF). If the continuation after a
   skipped q fails (LF or end of text before a closer) the engine backtracks to the most recent skipped
   q and closes there ([fb]).  [odd] = parity of the backslash run just before the current position,
   [skip] = characters of a skipped q still to pass. Result: position just after the closer. *)
Fixpoint scan_py (q s : str) (pos : nat) (odd : bool) (skip : nat) (fb : option nat) : option nat :=
  match s with
  | [] => fb
  | c :: t =>
      match skip with
      | S k => scan_py q t (S pos) false k fb
      | O =>
          if starts_with q s then
            if odd then scan_py q t (S pos) false (length q - 1)%nat (Some (pos + length q)%nat)
            else Some (pos + length q)%nat
          else if N.eqb c LF then fb
          else scan_py q t (S pos) (if N.eqb c BSL then negb odd else false) 0 fb
      end
  end.
(* opener alternation: triple quote first; when no triple-quoted match exists the engine falls back to the
   single quote (which then matches the empty literal made of the first two quotes) *)
Definition lit_match_py (s : str) : option nat :=
  match s with
  | c :: t =>
      if N.eqb c QT || N.eqb c APOS then
        match (if starts_with [c; c; c] s then scan_py [c; c; c] (skipn 3 s) 3 false 0 None else None) with
        | Some n => Some n
        | None => scan_py [c] t 1 false 0 None
        end
      else None
  | [] => None
  end.
(* JS (after fix a149087 of finding D13), for each quote character Q of SQ, DQ, backtick:
     Q(\\[^]|[^Q\\])*Q
   the standard string grammar: a backslash and the character after it are consumed as a unit, any other
   character but Q is consumed, the first Q reached closes. The alternatives are disjoint by their first
   character, so there is nothing to backtrack to: a backslash at the very end, or no closing Q, means that no
   literal starts at this opener. *)
Fixpoint scan_js (q : ch) (s : str) (pos : nat) : option nat :=
  match s with
  | [] => None
  | c :: t =>
      if N.eqb c q then Some (S pos)
      else if N.eqb c BSL then
        match t with
        | [] => None
        | _ :: t' => scan_js q t' (S (S pos))
        end
      else scan_js q t (S pos)
  end.
Definition lit_match_js (s : str) : option nat :=
  match s with
  | c :: t => if N.eqb c APOS || N.eqb c QT || N.eqb c BQ then scan_js c t 1 else None
  | [] => None
  end.
Definition lit_match (fl : lang) : str -> option nat :=
  match fl with LPy => lit_match_py | LJs => lit_match_js end.

Definition PH_PREFIX : str := Eval vm_compute in $"___RBQL_STRING_LITERAL".
Definition PH_SUFFIX : str := Eval vm_compute in $"___".
Definition placeholder (k : nat) : str := PH_PREFIX ++ dec_of_nat k ++ PH_SUFFIX.

(* the finditer loop: format parts and literals *)
Fixpoint sep (m : str -> option nat) (s : str) (skip k : nat) : str * list str :=
  match s with
  | [] => ([], [])
  | c :: t =>
      match skip with
      | S n => sep m t n k
      | O => match m s with
             | Some n => let (f, ls) := sep m t (n - 1)%nat (S k) in (placeholder k ++ f, firstn n s :: ls)
             | None => let (f, ls) := sep m t 0 k in (c :: f, ls)
             end
      end
  end.
Definition tabfix (c : ch) : ch := if N.eqb c TAB then SP else c.
Definition separate_string_literals (fl : lang) (s : str) : str * list str :=
  let (f, ls) := sep (lit_match fl) s 0 0 in (map tabfix f, ls).

(* sequential str.replace of the placeholders, in index order *)
Fixpoint combine_from (k : nat) (e : str) (lits : list str) : str :=
  match lits with
  | [] => e
  | l :: r => combine_from (S k) (replace (placeholder k) l e) r
  end.
Definition combine_string_literals (e : str) (lits : list str) : str := combine_from 0 e lits.

(* ------------------------------------------------------------------ remove_redundant_input_table_name *)
Definition S_update_sp : str := Eval vm_compute in $"update ".
Definition W_STRICT : str := Eval vm_compute in $"STRICT".
Definition W_LEFT : str := Eval vm_compute in $"LEFT".
Definition W_JOIN : str := Eval vm_compute in $"JOIN".
Definition W_OUTER : str := Eval vm_compute in $"OUTER".
Definition W_INNER : str := Eval vm_compute in $"INNER".
Definition W_SELECT : str := Eval vm_compute in $"SELECT".
Definition W_ORDER : str := Eval vm_compute in $"ORDER".
Definition W_BY : str := Eval vm_compute in $"BY".
Definition W_WHERE : str := Eval vm_compute in $"WHERE".
Definition W_UPDATE : str := Eval vm_compute in $"UPDATE".
Definition W_GROUP : str := Eval vm_compute in $"GROUP".
Definition W_LIMIT : str := Eval vm_compute in $"LIMIT".
Definition W_EXCEPT : str := Eval vm_compute in $"EXCEPT".
Definition W_FROM : str := Eval vm_compute in $"FROM".
Definition S_COUNT1 : str := Eval vm_compute in $" COUNT(1)".
Definition S_star_fields : str := Eval vm_compute in $"star_fields".
Definition S_record_a : str := Eval vm_compute in $"record_a".
Definition S_record_b : str := Eval vm_compute in $"record_b".
Definition S_py_star_l : str := Eval vm_compute in $"] + ".
Definition S_py_star_r : str := Eval vm_compute in $" + [".
Definition S_js_star_l : str := Eval vm_compute in $"]).concat(".
Definition S_js_star_r : str := Eval vm_compute in $").concat([".
Definition S_lbr : str := Eval vm_compute in $"[".
Definition S_rbr : str := Eval vm_compute in $"]".
Definition S_js_sel_l : str := Eval vm_compute in $"[].concat([".
Definition S_js_sel_r : str := Eval vm_compute in $"])".
Definition K_FROM : str := Eval vm_compute in $"FROM".
Definition K_UPDATE : str := Eval vm_compute in $"UPDATE".
Definition K_SET : str := Eval vm_compute in $"SET".
Definition K_SELECT : str := Eval vm_compute in $"SELECT".
Definition K_TOP : str := Eval vm_compute in $"TOP".
Definition K_DISTINCT : str := Eval vm_compute in $"DISTINCT".
Definition K_COUNT : str := Eval vm_compute in $"COUNT".
Definition K_ASC : str := Eval vm_compute in $"ASC".
Definition K_DESC : str := Eval vm_compute in $"DESC".
Definition K_ON : str := Eval vm_compute in $"ON".
Definition K_AND : str := Eval vm_compute in $"AND".
Definition K_WITH : str := Eval vm_compute in $"WITH".

(* '$': end of text; Python's '$' also matches before a final LF *)
Definition at_dollar (fl : lang) (s : str) : bool :=
  match s with [] => true | [c] => match fl with LPy => N.eqb c LF | LJs => false end | _ => false end.

(* ' +from +a(?: +|$)' with (?i) *)
Definition from_a_match (fl : lang) (_ : option ch) (s : str) : option (nat * unit) :=
  match eat_sp1 s with
  | Some r1 =>
      match eat_ci fl K_FROM r1 with
      | Some r2 =>
          match eat_sp1 r2 with
          | Some (c :: r4) =>
              if ci_eq fl 65 c then
                match eat_sp1 r4 with
                | Some r5 => Some (consumed s r5, tt)
                | None => if at_dollar fl r4 then Some (consumed s r4, tt) else None
                end
              else None
          | _ => None
          end
      | None => None
      end
  | None => None
  end.
(* '^ *update +a +set ' with (?i)  ->  'update ' *)
Definition update_a_set (fl : lang) (s : str) : str :=
  match eat_ci fl K_UPDATE (drop_sp s) with
  | Some r1 =>
      match eat_sp1 r1 with
      | Some (c :: r3) =>
          if ci_eq fl 65 c then
            match eat_sp1 r3 with
            | Some r4 => match eat_ci fl K_SET r4 with
                         | Some r5 => match eat_one_sp r5 with Some r6 => S_update_sp ++ r6 | None => s end
                         | None => s
                         end
            | None => s
            end
          else s
      | _ => s
      end
  | None => s
  end.
Definition remove_redundant_input_table_name (fl : lang) (q : str) : str :=
  let q1 := strip_txt fl (sub_all (from_a_match fl) [SP] q) in
  strip_txt fl (update_a_set fl q1).

(* ------------------------------------------------------------------ statements *)
Inductive stmt :=
| STRICT_LEFT_JOIN | LEFT_OUTER_JOIN | LEFT_JOIN | INNER_JOIN | JOIN
| SELECT | ORDER_BY | WHERE | UPDATE | GROUP_BY | LIMIT | EXCEPT | FROM.
Definition stmt_id (s : stmt) : nat :=
  (match s with
  | STRICT_LEFT_JOIN => 0 | LEFT_OUTER_JOIN => 1 | LEFT_JOIN => 2 | INNER_JOIN => 3 | JOIN => 4
  | SELECT => 5 | ORDER_BY => 6 | WHERE => 7 | UPDATE => 8 | GROUP_BY => 9 | LIMIT => 10 | EXCEPT => 11 | FROM => 12
  end)%nat.
Definition stmt_words (s : stmt) : list str :=
  match s with
  | STRICT_LEFT_JOIN => [W_STRICT; W_LEFT; W_JOIN]
  | LEFT_OUTER_JOIN => [W_LEFT; W_OUTER; W_JOIN]
  | LEFT_JOIN => [W_LEFT; W_JOIN]
  | INNER_JOIN => [W_INNER; W_JOIN]
  | JOIN => [W_JOIN]
  | SELECT => [W_SELECT]
  | ORDER_BY => [W_ORDER; W_BY]
  | WHERE => [W_WHERE]
  | UPDATE => [W_UPDATE]
  | GROUP_BY => [W_GROUP; W_BY]
  | LIMIT => [W_LIMIT]
  | EXCEPT => [W_EXCEPT]
  | FROM => [W_FROM]
  end.
Definition is_join (s : stmt) : bool :=
  match s with STRICT_LEFT_JOIN | LEFT_OUTER_JOIN | LEFT_JOIN | INNER_JOIN | JOIN => true | _ => false end.
(* default_statement_groups; [FROM] is removed when the input table is fixed (always, in JS) *)
Definition statement_groups (with_from : bool) : list (list stmt) :=
  [[STRICT_LEFT_JOIN; LEFT_OUTER_JOIN; LEFT_JOIN; INNER_JOIN; JOIN]; [SELECT]; [ORDER_BY]; [WHERE]; [UPDATE];
   [GROUP_BY]; [LIMIT]; [EXCEPT]] ++ (if with_from then [[FROM]] else []).

(* (?i)(?:^| )W1 *W2 *W3(?= ) : the words of the statement, glued by ' *' *)
Fixpoint eat_words (fl : lang) (wl : list str) (s : str) : option str :=
  match wl with
  | [] => Some s
  | [w] => eat_ci fl w s
  | w :: r => match eat_ci fl w s with Some s' => eat_words fl r (drop_sp s') | None => None end
  end.
Definition kw_at (fl : lang) (wl : list str) (s : str) : option nat :=
  match eat_words fl wl s with
  | Some (c :: r) => if is_sp c then Some (consumed s (c :: r)) else None
  | _ => None
  end.
Definition kw_match (fl : lang) (wl : list str) (prev : option ch) (s : str) : option (nat * unit) :=
  match (match prev with None => kw_at fl wl s | Some _ => None end) with
  | Some n => Some (n, tt)
  | None => match s with
            | c :: t => if is_sp c then match kw_at fl wl t with Some n => Some (S n, tt) | None => None end else None
            | [] => None
            end
  end.

Inductive perr :=
| E_more_than_one (s : stmt)
| E_update_not_first | E_select_not_first | E_no_select_update | E_both_select_update
| E_limit_not_int | E_join_syntax | E_update_first_assignment | E_select_empty.
Inductive res (T : Type) := Ok (v : T) | Err (e : perr).
Arguments Ok {T} v.
Arguments Err {T} e.

Fixpoint locate_group (fl : lang) (g : list stmt) (s : str) : res (option (nat * nat * stmt)) :=
  match g with
  | [] => Ok None
  | st :: r =>
      match find_all (kw_match fl (stmt_words st)) s with
      | [] => locate_group fl r s
      | [(a, b, _)] => Ok (Some (a, b, st))
      | _ => Err (E_more_than_one st)
      end
  end.
Fixpoint insert_loc (x : nat * nat * stmt) (l : list (nat * nat * stmt)) : list (nat * nat * stmt) :=
  match l with
  | [] => [x]
  | y :: r => if Nat.leb (fst (fst y)) (fst (fst x)) then y :: insert_loc x r else x :: l
  end.
Fixpoint locate_groups (fl : lang) (gs : list (list stmt)) (s : str) : res (list (nat * nat * stmt)) :=
  match gs with
  | [] => Ok []
  | g :: r =>
      match locate_group fl g s with
      | Err e => Err e
      | Ok o => match locate_groups fl r s with
                | Err e => Err e
                | Ok l => Ok (match o with Some x => x :: l | None => l end)
                end
      end
  end.
(* the error of the first failing group (in group order) is raised; then sorted by start *)
Definition locate_statements (fl : lang) (with_from : bool) (s : str) : res (list (nat * nat * stmt)) :=
  match locate_groups fl (statement_groups with_from) s with
  | Err e => Err e
  | Ok l => Ok (fold_right insert_loc [] l)
  end.

Record actions := mkActions {
  a_with : option str;
  a_select : option str; a_top : option N; a_distinct : bool; a_distinct_count : bool;
  a_update : option str;
  a_where : option str;
  a_order : option (str * bool);
  a_group : option str;
  a_limit : option str;
  a_except : option str;
  a_join : option (stmt * str);
  a_from : option str }.
Definition no_actions : actions :=
  mkActions None None None false false None None None None None None None None.

(* '^(.+)  *[Ww][Ii][Tt][Hh] *\(([a-z]{4,20})\) *$' where (.+) stands for the source's group "dot star";
   read from the end of the text; the first group is greedy, so it
   keeps all but one of the spaces before WITH. ASCII letters only ([Ww] is an explicit class). *)
Definition eat_ascii_ci (kw s : str) : option str := eat_ci LJs kw s.
Definition with_match (fl : lang) (s : str) : option (str * str) :=
  match eat_ch RPAR (drop_sp (rev s)) with
  | Some r1 =>
      let (name_rev, r2) := span_by is_lower r1 in
      if Nat.leb 4 (length name_rev) && Nat.leb (length name_rev) 20 then
        match eat_ch LPAR r2 with
        | Some r3 =>
            match eat_ascii_ci (rev K_WITH) (drop_sp r3) with
            | Some r4 => match eat_one_sp r4 with
                         | Some r5 => if forallb (dot_ok fl) r5 then Some (rev r5, rev name_rev) else None
                         | None => None
                         end
            | None => None
            end
        | None => None
        end
      else None
  | None => None
  end.

(* '(?i) KW *$' removed from the end of a span; None when it does not match *)
Definition strip_tail_kw (fl : lang) (kw span : str) : option str :=
  match eat_ci fl (rev kw) (drop_sp (rev span)) with
  | Some r => match eat_one_sp r with Some r' => Some (rev r') | None => None end
  | None => None
  end.
(* '(?i)^ *TOP *([0-9]+) ' *)
Definition parse_top (fl : lang) (span : str) : option (N * str) :=
  match eat_ci fl K_TOP (drop_sp span) with
  | Some r =>
      let (ds, r2) := span_by is_digit (drop_sp r) in
      match ds, eat_one_sp r2 with
      | _ :: _, Some r3 => Some (N_of_digits ds, r3)
      | _, _ => None
      end
  | None => None
  end.
(* '(?i)^ *DISTINCT *(COUNT)? ' : COUNT is taken when a space follows it; otherwise the regex backtracks to
   'DISTINCT' followed by at least one space, all of which it consumes *)
Definition parse_distinct (fl : lang) (span : str) : option (bool * str) :=
  match eat_ci fl K_DISTINCT (drop_sp span) with
  | Some r =>
      let r1 := drop_sp r in
      match (match eat_ci fl K_COUNT r1 with Some r2 => eat_one_sp r2 | None => None end) with
      | Some r3 => Some (true, r3)
      | None => match eat_one_sp r with Some _ => Some (false, r1) | None => None end
      end
  | None => None
  end.
(* UPDATE span: Python '(?i)^ *SET ' ; JS /^ *SET/i *)
Definition strip_set (fl : lang) (span : str) : str :=
  match eat_ci fl K_SET (drop_sp span) with
  | Some r => match fl with
              | LPy => match eat_one_sp r with Some r' => r' | None => span end
              | LJs => r
              end
  | None => span
  end.

Definition apply_statement (fl : lang) (st : stmt) (st_start : nat) (span : str) (acc : actions) : res actions :=
  let txt := strip_txt fl in
  match st with
  | UPDATE =>
      if Nat.eqb st_start 0 then
        Ok (mkActions (a_with acc) (a_select acc) (a_top acc) (a_distinct acc) (a_distinct_count acc)
              (Some (txt (strip_set fl span))) (a_where acc) (a_order acc) (a_group acc) (a_limit acc) (a_except acc) (a_join acc) (a_from acc))
      else Err E_update_not_first
  | ORDER_BY =>
      let span1 := match strip_tail_kw fl K_ASC span with Some x => x | None => span end in
      let (span2, rv) := match strip_tail_kw fl K_DESC span1 with Some x => (x, true) | None => (span1, false) end in
      Ok (mkActions (a_with acc) (a_select acc) (a_top acc) (a_distinct acc) (a_distinct_count acc)
            (a_update acc) (a_where acc) (Some (txt span2, rv)) (a_group acc) (a_limit acc) (a_except acc) (a_join acc) (a_from acc))
  | SELECT =>
      if Nat.eqb st_start 0 then
        let (top, span1) := match parse_top fl span with Some (n, r) => (Some n, r) | None => (None, span) end in
        let '(d, dc, span2) := match parse_distinct fl span1 with Some (c, r) => (true, c, r) | None => (false, false, span1) end in
        Ok (mkActions (a_with acc) (Some (txt span2)) top d dc
              (a_update acc) (a_where acc) (a_order acc) (a_group acc) (a_limit acc) (a_except acc) (a_join acc) (a_from acc))
      else Err E_select_not_first
  | WHERE =>
      Ok (mkActions (a_with acc) (a_select acc) (a_top acc) (a_distinct acc) (a_distinct_count acc)
            (a_update acc) (Some (txt span)) (a_order acc) (a_group acc) (a_limit acc) (a_except acc) (a_join acc) (a_from acc))
  | GROUP_BY =>
      Ok (mkActions (a_with acc) (a_select acc) (a_top acc) (a_distinct acc) (a_distinct_count acc)
            (a_update acc) (a_where acc) (a_order acc) (Some (txt span)) (a_limit acc) (a_except acc) (a_join acc) (a_from acc))
  | LIMIT =>
      Ok (mkActions (a_with acc) (a_select acc) (a_top acc) (a_distinct acc) (a_distinct_count acc)
            (a_update acc) (a_where acc) (a_order acc) (a_group acc) (Some (txt span)) (a_except acc) (a_join acc) (a_from acc))
  | EXCEPT =>
      Ok (mkActions (a_with acc) (a_select acc) (a_top acc) (a_distinct acc) (a_distinct_count acc)
            (a_update acc) (a_where acc) (a_order acc) (a_group acc) (a_limit acc) (Some (txt span)) (a_join acc) (a_from acc))
  | FROM =>
      Ok (mkActions (a_with acc) (a_select acc) (a_top acc) (a_distinct acc) (a_distinct_count acc)
            (a_update acc) (a_where acc) (a_order acc) (a_group acc) (a_limit acc) (a_except acc) (a_join acc) (Some (txt span)))
  | _ =>   (* the five JOIN spellings: join_subtype = the spelling found *)
      Ok (mkActions (a_with acc) (a_select acc) (a_top acc) (a_distinct acc) (a_distinct_count acc)
            (a_update acc) (a_where acc) (a_order acc) (a_group acc) (a_limit acc) (a_except acc) (Some (st, txt span)) (a_from acc))
  end.

Fixpoint process_statements (fl : lang) (s : str) (l : list (nat * nat * stmt)) (acc : actions) : res actions :=
  match l with
  | [] => Ok acc
  | (st_start, sp_start, st) :: r =>
      let sp_end := match r with (x, _, _) :: _ => x | [] => length s end in
      match apply_statement fl st st_start (slice sp_start sp_end s) acc with
      | Err e => Err e
      | Ok acc' => process_statements fl s r acc'
      end
  end.

Definition separate_actions (fl : lang) (with_from : bool) (e : str) : res actions :=
  let e0 := strip_sp e in
  let (e1, w) := match with_match fl e0 with Some (g1, name) => (g1, Some name) | None => (e0, None) end in
  match locate_statements fl with_from e1 with
  | Err x => Err x
  | Ok l =>
      match process_statements fl e1 l
              (mkActions w None None false false None None None None None None None None) with
      | Err x => Err x
      | Ok a =>
          match a_select a, a_update a with
          | None, None => Err E_no_select_update
          | Some _, Some _ => Err E_both_select_update
          | _, _ => Ok a
          end
      end
  end.

(* int(text) for the LIMIT text (Python) ; /^[0-9]+$/ then parseInt (JS) *)
Fixpoint py_int_digits (s : str) (acc : N) (after_digit : bool) : option N :=
  match s with
  | [] => if after_digit then Some acc else None
  | c :: t =>
      if is_digit c then py_int_digits t (acc * 10 + (c - 48)) true
      else if N.eqb c 95 && after_digit then
        match t with d :: _ => if is_digit d then py_int_digits t acc false else None | [] => None end
      else None
  end.
Definition parse_int (fl : lang) (s : str) : option Z :=
  match fl with
  | LJs => if nonempty s && forallb is_digit s then Some (Z.of_N (N_of_digits s)) else None
  | LPy =>
      match s with
      | c :: t => if N.eqb c 45 then option_map (fun n => Z.opp (Z.of_N n)) (py_int_digits t 0%N false)
                  else if N.eqb c 43 then option_map Z.of_N (py_int_digits t 0%N false)
                  else option_map Z.of_N (py_int_digits s 0%N false)
      | [] => None
      end
  end.
(* find_top: LIMIT wins over TOP *)
Definition find_top (fl : lang) (a : actions) : res (option Z) :=
  match a_limit a with
  | Some t => match parse_int fl t with Some z => Ok (Some z) | None => Err E_limit_not_int end
  | None => Ok (option_map Z.of_N (a_top a))
  end.

(* ------------------------------------------------------------------ parse_join_expression *)
Definition not_sp (c : ch) : bool := negb (is_sp c).
Definition not_sp_eq (c : ch) : bool := negb (is_sp c || N.eqb c EQ).
(* '^([^ =]+) *==? *([^ =]+)' *)
Definition join_pair (s : str) : option (str * str * str) :=
  let (v1, r1) := span_by not_sp_eq s in
  match v1, drop_sp r1 with
  | _ :: _, e :: r2 =>
      if N.eqb e EQ then
        let r3 := match r2 with e2 :: r2' => if N.eqb e2 EQ then r2' else r2 | [] => r2 end in
        let (v2, r4) := span_by not_sp_eq (drop_sp r3) in
        match v2 with _ :: _ => Some (v1, v2, r4) | [] => None end
      else None
  | _, _ => None
  end.
(* '^ +and +' (?i) ; JS also accepts '&&' *)
Definition join_and (fl : lang) (s : str) : option str :=
  match eat_sp1 s with
  | Some r1 =>
      match eat_ci fl K_AND r1 with
      | Some r2 => eat_sp1 r2
      | None => match fl with
                | LJs => match eat_ch 38 r1 with Some r2 => match eat_ch 38 r2 with Some r3 => eat_sp1 r3 | None => None end | None => None end
                | LPy => None
                end
      end
  | None => None
  end.
Fixpoint join_pairs (fuel : nat) (fl : lang) (s : str) : option (list (str * str)) :=
  match fuel with
  | O => None
  | S f =>
      match join_pair s with
      | Some (v1, v2, r) =>
          match r with
          | [] => Some [(v1, v2)]
          | _ => match join_and fl r with
                 | Some r' => option_map (cons (v1, v2)) (join_pairs f fl r')
                 | None => None
                 end
          end
      | None => None
      end
  end.
(* '^([^ ]+) +on +' (?i)   (JS: '^ *([^ ]+) +on +') *)
Definition parse_join_expression (fl : lang) (src : str) : res (str * list (str * str)) :=
  let s := strip_txt fl src in
  let (tid, r1) := span_by not_sp s in
  match tid, eat_sp1 r1 with
  | _ :: _, Some r2 =>
      match eat_ci fl K_ON r2 with
      | Some r3 =>
          match eat_sp1 r3 with
          | Some r4 => match join_pairs (S (length r4)) fl r4 with
                       | Some ps => Ok (tid, ps)
                       | None => Err E_join_syntax
                       end
          | None => Err E_join_syntax
          end
      | None => Err E_join_syntax
      end
  | _, _ => Err E_join_syntax
  end.

(* ------------------------------------------------------------------ translate_update_expression *)
(* '(?:^|,) *(a[.#a-zA-Z0-9\[\]_]* ) *=(?=[^=])' (blank before the closing parenthesis added) : the part after '(?:^|,)' *)
Definition upd_class (c : ch) : bool :=
  is_alpha c || is_digit c || N.eqb c DOT || N.eqb c HASH || N.eqb c LBR || N.eqb c RBR || N.eqb c 95.
Definition assign_at (s : str) : option (str * str) :=
  match drop_sp s with
  | c :: r =>
      if N.eqb c 97 then
        let (v, r2) := span_by upd_class r in
        match drop_sp r2 with
        | e :: r3 => if N.eqb e EQ then
                       match r3 with
                       | n :: _ => if N.eqb n EQ then None else Some (c :: v, r3)
                       | [] => None
                       end
                     else None
        | [] => None
        end
      else None
  | [] => None
  end.
(* the first match at or after a position > 0: (raw text before the match, variable, rest after '=') *)
Fixpoint next_assign (s : str) : option (str * str * str) :=
  match s with
  | [] => None
  | c :: t =>
      match (if N.eqb c COMMA then assign_at t else None) with
      | Some (v, r) => Some ([], v, r)
      | None => match next_assign t with
                | Some (pre, v, r) => Some (c :: pre, v, r)
                | None => None
                end
      end
  end.
Fixpoint update_rest (fuel : nat) (fl : lang) (v : str) (s : str) : list (str * str) :=
  match fuel with
  | O => [(v, strip_txt fl s)]
  | S f => match next_assign s with
           | Some (pre, v', r) => (v, strip_txt fl pre) :: update_rest f fl v' r
           | None => [(v, strip_txt fl s)]
           end
  end.
(* [(target variable text, right-hand side text)] ; the first match must start at offset 0 *)
Definition update_assignments (fl : lang) (s : str) : res (list (str * str)) :=
  let first := match assign_at s with
               | Some x => Some x
               | None => match s with c :: t => if N.eqb c COMMA then assign_at t else None | [] => None end
               end in
  match first with
  | Some (v, r) => Ok (update_rest (length r) fl v r)
  | None => Err E_update_first_assignment
  end.

(* ------------------------------------------------------------------ translate_except_expression *)
Definition except_vars (fl : lang) (s : str) : list str := map (strip_txt fl) (split_ch COMMA s).

(* ------------------------------------------------------------------ translate_select_expression *)
(* '(?:(?<=^)|(?<=,)) *COUNT\( *\* *\)' (?i)  ->  ' COUNT(1)' *)
Definition star_count_match (fl : lang) (prev : option ch) (s : str) : option (nat * unit) :=
  if match prev with None => true | Some p => N.eqb p COMMA end then
    match eat_ci fl K_COUNT (drop_sp s) with
    | Some r1 =>
        match eat_ch LPAR r1 with
        | Some r2 => match eat_ch STAR (drop_sp r2) with
                     | Some r3 => match eat_ch RPAR (drop_sp r3) with
                                  | Some r4 => Some (consumed s r4, tt)
                                  | None => None
                                  end
                     | None => None
                     end
        | None => None
        end
    | None => None
    end
  else None.
Definition replace_star_count (fl : lang) (s : str) : str :=
  let r := sub_all (star_count_match fl) S_COUNT1 s in
  match fl with LPy => drop_sp r | LJs => strip_sp r end.

(* ' +(AS|as) +([a-zA-Z][a-zA-Z0-9_]* ) *(?=$|,)' (blank before the closing parenthesis added) *)
Definition end_or_comma (s : str) : bool := match s with [] => true | c :: _ => N.eqb c COMMA end.
Definition as_alias_match (_ : option ch) (s : str) : option (nat * unit) :=
  match eat_sp1 s with
  | Some (x :: y :: r1) =>
      if (N.eqb x 65 && N.eqb y 83) || (N.eqb x 97 && N.eqb y 115) then
        match eat_sp1 r1 with
        | Some (c :: r2) =>
            if is_alpha c then
              let (_, r3) := span_by is_word r2 in
              let r4 := drop_sp r3 in
              if end_or_comma r4 then Some (consumed s r4, tt) else None
            else None
        | _ => None
        end
      else None
  | _ => None
  end.
Definition remove_as_alias (s : str) : str := sub_all as_alias_match [] s.

(* '(?:^|,) *(STAR|a\.STAR|b\.STAR) *(?=$|,)' with STAR = the escaped asterisk *)
Inductive starkind := StarAll | StarA | StarB.
Definition star_body (s : str) : option (str * starkind) :=
  match drop_sp s with
  | c :: r =>
      if N.eqb c STAR then Some (r, StarAll)
      else match r with
           | d :: e :: r' =>
               if N.eqb d DOT && N.eqb e STAR then
                 if N.eqb c 97 then Some (r', StarA) else if N.eqb c 98 then Some (r', StarB) else None
               else None
           | _ => None
           end
  | [] => None
  end.
Definition star_tail (s : str) (x : option (str * starkind)) : option (nat * starkind) :=
  match x with
  | Some (r, k) => let r' := drop_sp r in if end_or_comma r' then Some (consumed s r', k) else None
  | None => None
  end.
Definition star_match (prev : option ch) (s : str) : option (nat * starkind) :=
  match (match prev with None => star_tail s (star_body s) | Some _ => None end) with
  | Some x => Some x
  | None => match s with
            | c :: t => if N.eqb c COMMA then star_tail s (star_body t) else None
            | [] => None
            end
  end.
Definition star_repl (fl : lang) (k : starkind) : str :=
  let v := match k with StarAll => S_star_fields | StarA => S_record_a | StarB => S_record_b end in
  match fl with
  | LPy => S_py_star_l ++ v ++ S_py_star_r
  | LJs => S_js_star_l ++ v ++ S_js_star_r
  end.
Fixpoint star_assemble (fl : lang) (s : str) (ms : list (nat * nat * starkind)) (last_pos : nat) : str :=
  match ms with
  | [] => skipn last_pos s
  | (a, b, k) :: r =>
      (if Nat.ltb last_pos a then slice last_pos a s else []) ++ star_repl fl k ++ star_assemble fl s r (S b)
  end.
Definition replace_star_vars (fl : lang) (s : str) : str := star_assemble fl s (find_all star_match s) 0.

(* the first component of translate_select_expression *)
Definition translate_select_expression (fl : lang) (sel : str) : res str :=
  let e1 := replace_star_count fl sel in
  let e2 := match fl with LPy => strip_ws LPy (remove_as_alias e1) | LJs => remove_as_alias e1 end in
  let t := strip_txt fl (replace_star_vars fl e2) in
  match t with
  | [] => Err E_select_empty
  | _ => Ok (match fl with LPy => S_lbr ++ t ++ S_rbr | LJs => S_js_sel_l ++ t ++ S_js_sel_r end)
  end.

(* ------------------------------------------------------------------ the pipeline of shallow_parse_input_query *)
Record parsed := mkParsed {
  p_clean : str; p_format : str; p_literals : list str; p_format2 : str; p_actions : res actions }.
Definition parse_query (fl : lang) (q : str) : parsed :=
  let c := cleanup_query fl q in
  let (f, ls) := separate_string_literals fl c in
  let f2 := remove_redundant_input_table_name fl f in
  mkParsed c f ls f2 (separate_actions fl false f2).
